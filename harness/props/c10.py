"""C10 — significant and bracketed durations locate threshold crossings exactly."""
import itertools
from fractions import Fraction

import math
import numpy as np

import gen
from core import fr, w_rat, w_rats, w_bool, p_rats, cmp_exact, cmp_budget, call_impl

RULE = ("exhaustive: records over {0,+-1,+-2} up to length 5 (quick) / 6 (thorough) x 9-point fraction grid pairs; random records "
        "(dyadic-safe: exact) incl. single spikes (IndexError branch), plateaus of equal cumulative value, values exactly on a "
        "threshold; fractions from {0.05,0.1,0.25,0.5,0.75,0.95} and random dyadic; thresholds at/just below/just above sample "
        "magnitudes; custom cumulative-measure callables (CAV, running sum); se in {T,F}. distinct = hash of (record, dt, params); "
        "non-trivial = length >= 3 and not constant")
TIE = "correspondence (hand model Model/Im.lean: sigDurVals / sigDur / sigDurSeries / bracDur on exact rationals)"
NOT_PROVED = ["C10.d for the default Arias measure when a[0] != 0 is false of code and model (open finding F10-1); proved instead the exact relation: k >= 1 zeros give k*dt + start/end of the series raised by dt*a0^2/2, and the property's shift holds iff raising the series changes no threshold decision (Props/C10ZeroPrefix)",
              "decimal fractions such as 0.05 are compared as the doubles the impl receives; products start*total are rounded by the impl ",
              "(dyadic-safe generators decide strict vs non-strict exactly)"]

FRACS = [Fraction(1, 16), Fraction(1, 8), Fraction(1, 4), Fraction(3, 8), Fraction(1, 2), Fraction(5, 8), Fraction(3, 4), Fraction(7, 8), Fraction(15, 16)]


PROP_MODULES = ['C10', 'C10Gen', 'C10GenObject', 'C10ZeroPrefix']

def spec_sigdur(cum, dt, s, e):
    """(t_start, t_end) from a cumulative series, exact; None when no sample lies strictly between"""
    tot = cum[-1]
    idx = [i for i, c in enumerate(cum) if s * tot < c < e * tot]
    if not idx:
        return None
    return (idx[0] * dt, idx[-1] * dt)


def cum_sq(a):
    out = []
    t = Fraction(0)
    for x in a:
        t += x * x
        out.append(t)
    return out


def cum_trapz_sq(a, dt):
    out = [Fraction(0)]
    for i in range(1, len(a)):
        out.append(out[-1] + dt * (a[i] * a[i] + a[i - 1] * a[i - 1]) / 2)
    return out


def run(ctx):
    import eqsig
    from eqsig import im
    rng = ctx.rng
    maxlen = 5 if ctx.tier == 'quick' else 6
    n_random = 200 if ctx.tier == 'quick' else 2500

    def one(a, dt, s, e, exhaustive=False):
        """a: float array (dyadic-safe), dt dyadic, s<e dyadic fractions"""
        fa = [fr(x) for x in a]
        fdt, fs, fe = fr(dt), fr(s), fr(e)
        inputs = {'a': a, 'dt': dt, 'start': float(s), 'end': float(e)}
        ctx.count_case((a.tobytes(), dt, fs, fe), gen.nontrivial_record(a),
                       sample={'fn': 'calc_sig_dur_vals / calc_sig_dur / calc_brac_dur', **inputs} if ctx.evaluations % 997 == 0 else None)
        asig = ctx.aged(eqsig.AccSignal, a, dt)
        # the Arias series is k*cumtrapz(a^2) with the irrational-ish double k = pi/(2*9.81): when a cumulative value lies EXACTLY on a
        # threshold in exact arithmetic, the impl's strict comparison is decided by the rounding of k*c — outside any exact model.
        cA = cum_trapz_sq(fa, fdt)
        arias_tie = any(c == fs * cA[-1] or c == fe * cA[-1] for c in cA) and cA[-1] != 0
        if arias_tie:
            ctx.hist('arias-exact-tie-skipped')
        for se in ((True, False) if not exhaustive else (True,)):
            rv = call_impl(im.calc_sig_dur_vals, a, dt, start=float(s), end=float(e), se=se)
            ctx.corr('calc_sig_dur_vals', f"sig_dur_vals|{w_bool(se)}|{w_rat(dt)}|{w_rat(s)}|{w_rat(e)}|{w_rats(a)}", rv,
                     lambda outs, val: cmp_exact(list(val) if isinstance(val, tuple) else [val], p_rats(outs[0])), inputs={**inputs, 'se': se})
            ra = call_impl(im.calc_sig_dur, asig, start=float(s), end=float(e), se=se)
            if not arias_tie:
                ctx.corr('calc_sig_dur', f"sig_dur|{w_bool(se)}|{w_rat(dt)}|{w_rat(s)}|{w_rat(e)}|{w_rats(a)}", ra,
                         lambda outs, val: cmp_exact(list(val) if isinstance(val, tuple) else [val], p_rats(outs[0])), inputs={**inputs, 'se': se})
        rv = call_impl(im.calc_sig_dur_vals, a, dt, start=float(s), end=float(e), se=True)
        ra = call_impl(im.calc_sig_dur, asig, start=float(s), end=float(e), se=True)
        dur = (len(a) - 1) * fdt
        for name, res, cum in (('sum-of-squares', rv, cum_sq(fa)), ('Arias', ra, cA)):
            if name == 'Arias' and arias_tie:
                continue
            want = spec_sigdur(cum, fdt, fs, fe)
            if want is None:
                ctx.oracle(f'C10.a [{name}] IndexError iff no sample lies strictly between the fractions', res == ('err', 'IndexError'), inputs, detail=res)
                continue
            ok = res[0] == 'ok' and (fr(res[1][0]), fr(res[1][1])) == want
            ctx.oracle(f'C10.a [{name}] (start, end) == times of first/last sample strictly between the fractions of the total', ok, inputs,
                       detail={'got': res, 'want': [float(want[0]), float(want[1])]})
            if res[0] != 'ok':
                continue
            t0, t1 = fr(res[1][0]), fr(res[1][1])
            ctx.oracle(f'C10.b [{name}] 0 <= start <= end <= duration', 0 <= t0 <= t1 <= dur, inputs)
            # se=False returns the difference
            f = im.calc_sig_dur_vals if name == 'sum-of-squares' else im.calc_sig_dur
            d = f(a, dt, start=float(s), end=float(e)) if name == 'sum-of-squares' else f(asig, start=float(s), end=float(e))
            ctx.oracle(f'C10.a [{name}] se=False returns end - start', fr(d) == t1 - t0, inputs)
            if exhaustive and ctx.evaluations % 7:
                continue
            # C10.c amplitude scaling (power-of-two factors are exact)
            al = rng.choice([-2.0, 0.5, 4.0, -0.25])
            r2 = call_impl(im.calc_sig_dur_vals, al * a, dt, start=float(s), end=float(e), se=True) if name == 'sum-of-squares' else \
                call_impl(im.calc_sig_dur, eqsig.AccSignal(al * a, dt), start=float(s), end=float(e), se=True)
            ctx.oracle(f'C10.c [{name}] unchanged by amplitude scaling', r2 == res, {**inputs, 'alpha': al}, detail={'scaled': r2, 'orig': res})
            # C10.d zero prefix
            k = rng.choice([1, 2, 5])
            ap = np.concatenate([np.zeros(k), a])
            r3 = call_impl(im.calc_sig_dur_vals, ap, dt, start=float(s), end=float(e), se=True) if name == 'sum-of-squares' else \
                call_impl(im.calc_sig_dur, eqsig.AccSignal(ap, dt), start=float(s), end=float(e), se=True)
            ok = r3[0] == 'ok' and (fr(r3[1][0]), fr(r3[1][1])) == (t0 + k * fdt, t1 + k * fdt)
            ctx.oracle(f'C10.d [{name}] start and end shift by k*dt when k zeros are prepended', ok, {**inputs, 'k': k},
                       detail={'orig': res, 'prepended': r3},
                       facts={'measure': name, 'clause': 'zero-prefix', 'a0_nonzero': bool(a[0] != 0)})
            # C10.e widening
            s2 = fs / 2
            e2 = (fe + 1) / 2
            r4 = call_impl(im.calc_sig_dur_vals, a, dt, start=float(s2), end=float(e2), se=True) if name == 'sum-of-squares' else \
                call_impl(im.calc_sig_dur, asig, start=float(s2), end=float(e2), se=True)
            ok = r4[0] == 'ok' and fr(r4[1][0]) <= t0 and t1 <= fr(r4[1][1])
            ctx.oracle(f'C10.e [{name}] widening the fraction interval never shortens the duration', ok, inputs, detail={'orig': res, 'wide': r4})

    def brac(a, dt, thr):
        fa = [fr(x) for x in a]
        fdt, fthr = fr(dt), fr(thr)
        inputs = {'a': a, 'dt': dt, 'threshold': float(thr)}
        asig = ctx.aged(eqsig.AccSignal, a, dt)
        ctx.count_case(('brac', a.tobytes(), dt, fthr), gen.nontrivial_record(a))
        idx = [i for i, x in enumerate(fa) if abs(x) > fthr]
        for se in (True, False):
            r = call_impl(im.calc_brac_dur, asig, float(thr), se=se)

            def compare(outs, val, se=se):
                if se:
                    if outs[0] == ['None', 'None']:
                        return None if val == (None, None) else f"impl={val} model=(None, None)"
                    if val == (None, None):
                        return f"impl=(None, None) model={outs[0]}"
                    return cmp_exact(list(val), p_rats(outs[0]))
                return cmp_exact([val], p_rats(outs[0]))
            ctx.corr('calc_brac_dur', f"brac_dur|{w_bool(se)}|{w_rat(dt)}|{w_rat(thr)}|{w_rats(a)}", r, compare, inputs={**inputs, 'se': se})
            if r[0] != 'ok':
                ctx.oracle('C10.f calc_brac_dur returns', False, inputs, detail=r)
                continue
            if se:
                want = (idx[0] * fdt, idx[-1] * fdt) if idx else (None, None)
                got = tuple(None if x is None else fr(x) for x in r[1])
                ctx.oracle('C10.f bracketed (start, end) == times of first/last sample with |a| > threshold ((None, None) when none)',
                           got == want, inputs, detail={'got': r[1]})
            else:
                want = (idx[-1] - idx[0]) * fdt if idx else 0
                ctx.oracle('C10.f bracketed duration == time between first and last exceedance (0 when none)', fr(r[1]) == want, inputs,
                           detail={'got': r[1]})
        d0 = fr(im.calc_brac_dur(asig, float(thr)))
        thr2 = float(thr) * 2 + 0.25
        ctx.oracle('C10.f non-increasing in the threshold', fr(im.calc_brac_dur(asig, thr2)) <= d0, {**inputs, 'threshold2': thr2})
        al = rng.choice([0.5, 2.0, 8.0])
        ctx.oracle('C10.f unchanged when record and threshold are scaled together',
                   fr(im.calc_brac_dur(eqsig.AccSignal(al * a, dt), al * float(thr))) == d0, {**inputs, 'alpha': al})

    corpus = [(np.array([3., 2., -1., 1., 0., 1., -1.]), 0.5, Fraction(1, 16), Fraction(7, 8)),
              (np.array([0., 0., 5., 0., 0.]), 0.5, Fraction(1, 16), Fraction(15, 16)),
              (np.array([1., 1., 1., 1., 1., 1., 1., 1.]), 0.25, Fraction(1, 4), Fraction(3, 4))]
    for a, dt, s, e in corpus:
        ctx.hist('corpus')
        one(a, dt, s, e)
    pairs = [(s, e) for s in FRACS for e in FRACS if s < e]
    for n in range(1, maxlen + 1):
        for t in itertools.product((0, 1, -1, 2, -2), repeat=n):
            a = np.array(t, dtype=float)
            ctx.hist(f'exhaustive/len={n}')
            s, e = pairs[(hash(t) ^ n) % len(pairs)] if n >= 4 else (None, None)
            for (s, e) in (pairs[::5] if n < 4 else [(s, e)]):
                one(a, 0.5, s, e, exhaustive=True)
        ctx.flush()
    for i in range(n_random):
        n = gen.log_int(rng, 2, 64)
        kind = rng.choice(['dyadic', 'int', 'plateau', 'spike', 'zeros-then', 'on-threshold'])
        if kind == 'dyadic':
            a = gen.dyadic_record(rng, n)
        elif kind == 'int':
            a = gen.int_record(rng, n)
        elif kind == 'plateau':
            a = gen.plateau_record(rng, n, levels=(0, 0, 1, -1, 2))
        elif kind == 'spike':
            a = gen.spike_record(rng, n)
        elif kind == 'zeros-then':
            a = np.concatenate([np.zeros(rng.randint(0, 3)), gen.int_record(rng, n)])
        else:
            # cumulative sum of squares hits a fraction of the total exactly: [1]*k then enough to make total 16*k
            a = np.array([1.0] * 4 + [2.0] * 3 + [0.0] * rng.randint(0, 3) + [4.0] * 3)   # total = 4+12+48 = 64
        dt = gen.dyadic_dt(rng)
        if rng.random() < 0.5:
            s, e = rng.choice(pairs)
        else:
            s = Fraction(rng.randint(1, 30), 64)
            e = Fraction(rng.randint(int(s * 64) + 1, 63), 64)
        ctx.hist('random/' + kind)
        one(a, dt, s, e)
        mags = sorted(set(abs(float(x)) for x in a))
        thr = rng.choice(mags + [m + 0.125 for m in mags] + [max(0.0, m - 0.125) for m in mags] + [0.0, 100.0])
        brac(a, dt, Fraction(thr))
        # custom cumulative measures
        if i % 2 == 0:
            asig = ctx.aged(eqsig.AccSignal, a, dt)
            # monotone measures and NON-monotone ones (signed running sum, running sum of a*|a|): the property quantifies over custom
            # measure callables without asking for monotonicity, so the first / last sample between the fractions is found by
            # inspection of every sample, not by bisection
            for cname, fn in (('calc_cav', im.calc_cav), ('running-sum', lambda s_: np.cumsum(np.abs(s_.values))),
                              ('signed running sum (non-monotone)', lambda s_: np.cumsum(s_.values) + 2.0 * np.abs(np.cumsum(s_.values)).max() + 1.0),
                              ('running sum of a|a| shifted positive (non-monotone)',
                               lambda s_: np.cumsum(s_.values * np.abs(s_.values)) + 2.0 * np.abs(np.cumsum(s_.values * np.abs(s_.values))).max() + 1.0)):
                series = [fr(x) for x in fn(asig)]
                r = call_impl(im.calc_sig_dur, asig, start=float(s), end=float(e), im=fn, se=True)
                ctx.corr('calc_sig_dur[im=' + cname + ']', f"sig_dur_im|T|{w_rat(dt)}|{w_rat(s)}|{w_rat(e)}|{w_rats(series)}", r,
                         lambda outs, val: cmp_exact(list(val), p_rats(outs[0])), inputs={'a': a, 'dt': dt, 'im': cname})
                want = spec_sigdur(series, fr(dt), fr(s), fr(e))
                ok = (r == ('err', 'IndexError')) if want is None else (r[0] == 'ok' and (fr(r[1][0]), fr(r[1][1])) == want)
                ctx.oracle('C10.a [custom measure] first/last sample strictly between the fractions', ok,
                           {'a': a, 'dt': dt, 'start': float(s), 'end': float(e), 'im': cname}, detail=r)
    # object histories: the durations are those of the object's CURRENT record, whatever was computed or cached on it before
    # (deprecated statistics methods, earlier duration calls) and however the record was changed since
    for i in range(40 if ctx.tier == 'quick' else 400):
        n = rng.randint(8, 64)
        a = gen.dyadic_record(rng, n)
        dt = gen.dyadic_dt(rng)
        asig = eqsig.AccSignal(a.copy(), dt)
        cur = a.copy()
        hist = []
        for _ in range(rng.randint(2, 5)):
            op = rng.choice(['generate_cumulative_stats', 'calc_sig_dur', 'calc_brac_dur', 'add_constant', 'add_series', 'reset_values', 'reverse',
                             'zero_residual(timezone)', 'zero_residual(timezone)', 'read time'])
            hist.append(op)
            try:
                if op == 'generate_cumulative_stats':
                    asig.generate_cumulative_stats()
                elif op == 'calc_sig_dur':
                    im.calc_sig_dur(asig, start=0.25, end=0.75, se=True)
                elif op == 'calc_brac_dur':
                    im.calc_brac_dur(asig, 0.5, se=True)
                elif op == 'add_constant':
                    asig.add_constant(1.0)
                    cur = cur + 1.0
                elif op == 'zero_residual(timezone)':
                    # a baseline correction over a time zone starting after the first sample (it works on slices of the time axis)
                    t0 = dt * rng.randint(1, max(1, len(cur) // 3))
                    asig.set_zero_residual_displacement_and_velocity(timezone=(t0, rng.choice([None, dt * (len(cur) - 2)])))
                    cur = np.array(asig.values, copy=True)
                elif op == 'read time':
                    _ = asig.time
                elif op == 'add_series':
                    d = gen.dyadic_record(rng, len(cur))
                    asig.add_series(d)
                    cur = cur + d
                elif op == 'reset_values':
                    cur = gen.dyadic_record(rng, len(cur))
                    asig.reset_values(cur.copy())
                else:
                    cur = cur[::-1].copy()
                    asig.reset_values(cur.copy())
            except IndexError:
                pass
        s_, e_ = rng.choice(pairs)
        got = call_impl(im.calc_sig_dur, asig, start=float(s_), end=float(e_), se=True)
        want = call_impl(im.calc_sig_dur, eqsig.AccSignal(cur.copy(), dt), start=float(s_), end=float(e_), se=True)
        gotb = call_impl(im.calc_brac_dur, asig, 0.5, se=True)
        wantb = call_impl(im.calc_brac_dur, eqsig.AccSignal(cur.copy(), dt), 0.5, se=True)
        ctx.hist('object-history')
        ctx.count_case(('hist', a.tobytes(), tuple(hist)), True, sample={'fn': 'AccSignal history then calc_sig_dur', 'history': hist} if i < 2 else None)
        ctx.oracle('C10 durations of an object are those of its CURRENT record after any history (stats generated, record edited)',
                   got == want and gotb == wantb, {'a': a, 'dt': dt, 'history': hist, 'start': float(s_), 'end': float(e_)},
                   detail={'object': [got, gotb], 'fresh object': [want, wantb]})
    # decimal fractions of the documentation (0.05 / 0.95 ...) on random noise: relations only, budget-free (indices)
    for i in range(30 if ctx.tier == 'quick' else 300):
        n = gen.log_int(rng, 20, 2000)
        a = gen.noise_record(rng, n)
        dt = gen.any_dt(rng)
        asig = ctx.aged(eqsig.AccSignal, a, dt)
        ctx.hist('random/noise-decimal-fractions')
        ctx.count_case(('dec', a.tobytes(), dt), True)
        s, e = rng.choice([(0.05, 0.95), (0.05, 0.75), (0.1, 0.9), (0.25, 0.5)])
        t0, t1 = im.calc_sig_dur(asig, start=s, end=e, se=True)
        cum = im.calc_arias_intensity(asig)
        idx = np.where((cum > s * cum[-1]) & (cum < e * cum[-1]))[0]
        ctx.oracle('C10.a [Arias, decimal fractions] first/last sample strictly between', (t0, t1) == (idx[0] * dt, idx[-1] * dt),
                   {'a': a, 'dt': dt, 'start': s, 'end': e})
        ctx.oracle('C10.b 0 <= start <= end <= duration', 0 <= t0 <= t1 <= (n - 1) * dt * (1 + 1e-12), {'a': a, 'dt': dt})
    ctx.flush()


# ---- known findings -------------------------------------------------------------------------------------------------

def _m_f10_1(f):
    fa = f['facts']
    return fa.get('measure') == 'Arias' and fa.get('clause') == 'zero-prefix' and fa.get('a0_nonzero') is True


KNOWN_MATCHERS = {'F10-1': _m_f10_1}


def known_witness(fid):
    import eqsig
    from eqsig import im
    if fid == 'F10-1':
        a = np.array([3., 2., -1., 1., 0., 1., -1.])
        r0 = im.calc_sig_dur(eqsig.AccSignal(a, 0.5), start=0.05, end=0.9, se=True)
        r2 = im.calc_sig_dur(eqsig.AccSignal(np.concatenate([np.zeros(2), a]), 0.5), start=0.05, end=0.9, se=True)
        return not (r2[0] == r0[0] + 1.0 and r2[1] == r0[1] + 1.0)
    return True


# ---- extras (round-3 lessons): deprecated aliases, extreme magnitudes -------------------------------------------------------------------

def extras(ctx):
    import eqsig
    from eqsig import im
    import warnings
    rng = ctx.rng
    for it in range(30 if ctx.tier == 'quick' else 300):
        n = gen.log_int(rng, 3, 120)
        dt = gen.dyadic_dt(rng)
        a = gen.dyadic_record(rng, n)
        if len(set(np.abs(a).tolist())) < 2:
            continue
        s, e = rng.choice([(0.05, 0.95), (0.05, 0.75), (0.25, 0.75), (0.125, 0.5)])
        inputs = {'a': a, 'dt': dt, 'start': s, 'end': e}
        ctx.count_case(('extras', a.tobytes(), dt, s, e), True)
        with warnings.catch_warnings():
            warnings.simplefilter('ignore')
            r0 = call_impl(im.calc_sig_dur_vals, a, dt, start=s, end=e, se=True)
            r1 = call_impl(im.calc_significant_duration, a, dt, start=s, end=e)
            ok = r0[0] == r1[0] and (r0[0] != 'ok' or (isinstance(r1[1], tuple) and tuple(map(float, r0[1])) == tuple(map(float, r1[1]))) or
                                     (not isinstance(r1[1], tuple) and float(r1[1]) == float(r0[1][1]) - float(r0[1][0])))
            ctx.oracle('C10 deprecated alias calc_significant_duration agrees with calc_sig_dur_vals', ok, inputs, detail=(r0, r1))
            thr = float(rng.choice(sorted(set(np.abs(a).tolist())))) * rng.choice([0.5, 1.0, 0.999])
            asig = ctx.aged(eqsig.AccSignal, a, dt)
            b0, b1 = call_impl(im.calc_brac_dur, asig, thr), call_impl(im.calc_bracketed_duration, asig, thr)
            ctx.oracle('C10 deprecated alias calc_bracketed_duration == calc_brac_dur', b0 == b1 or (b0[0] == b1[0] == 'ok' and float(b0[1]) == float(b1[1])),
                       {**inputs, 'threshold': thr}, detail=(b0, b1))
        # durations do not depend on the scale of the record, exactly for powers of two, also at extreme scales (the sum of squares of a
        # record around 1e-120 / 1e+120 is still representable; the record itself must come back unchanged)
        for k in (-400, 400, -200, 200):
            sc = 2.0 ** k
            ctx.hist(f'extreme-scale/2^{k}')
            arr = a * sc
            snap = arr.copy()
            r2 = call_impl(im.calc_sig_dur_vals, arr, dt, start=s, end=e, se=True)
            ctx.oracle('C10.c significant duration unchanged by amplitude scaling, also at extreme scales (sum of squares)', r2 == r0 or
                       (r2[0] == r0[0] == 'ok' and tuple(map(float, r2[1])) == tuple(map(float, r0[1]))), {**inputs, 'scale': f'2**{k}'}, detail=(r0, r2))
            ctx.oracle('C10 the record handed to calc_sig_dur_vals is unchanged, also at extreme scales', bool(np.array_equal(arr, snap)), {**inputs, 'scale': f'2**{k}'})
            o1, o2 = eqsig.AccSignal(a, dt), ctx.aged(eqsig.AccSignal, arr, dt)
            q1, q2 = call_impl(im.calc_sig_dur, o1, start=s, end=e, se=True), call_impl(im.calc_sig_dur, o2, start=s, end=e, se=True)
            ctx.oracle('C10.c significant duration unchanged by amplitude scaling, also at extreme scales (Arias)', q1 == q2 or
                       (q1[0] == q2[0] == 'ok' and tuple(map(float, q1[1])) == tuple(map(float, q2[1]))), {**inputs, 'scale': f'2**{k}'}, detail=(q1, q2))
            t = float(np.sort(np.abs(a))[len(a) // 2])
            d1, d2 = call_impl(im.calc_brac_dur, o1, t, se=True), call_impl(im.calc_brac_dur, o2, t * sc, se=True)
            ctx.oracle('C10.e bracketed duration unchanged when record and threshold scale together, also at extreme scales', d1 == d2,
                       {**inputs, 'threshold': t, 'scale': f'2**{k}'}, detail=(d1, d2))


_run_main = run


def run(ctx):
    _run_main(ctx)
    extras(ctx)
    ctx.flush()


# ---- extras2 (harness extension hx_a): large instances, extreme time steps, containers / dtypes, consecutive calls ---------------------------
#
# Not demanded (see NOTES.md): significant durations of NARROW integer-dtype records (calc_sig_dur_vals forms motion ** 2, calc_sig_dur the Arias
# series, in the record's dtype: the squares wrap and the reported times are wrong on the pinned tree -- suspected defect, no oracle; bracketed
# durations only take |a| and are right, demanded); list / tuple records for the array variant (TypeError: `motion ** 2`); the deprecated
# AccSignal.generate_duration_stats (AttributeError: np.trapz is absent from the pinned NumPy).

def _x2_first_last(mask):
    idx = np.nonzero(mask)[0]
    return (int(idx[0]), int(idx[-1])) if len(idx) else None


def _x2_idx(res, dt):
    """(start, end) times -> sample indices (dyadic dt: exact)"""
    return (float(res[1][0]) / dt, float(res[1][1]) / dt)


def x2_large(ctx):
    """LARGE instances (6 000 - 60 000 samples): the crossing definition evaluated independently -- in exact integer arithmetic for the running
    sum of squares of whole-number records with dyadic fractions, with NumPy on the implementation's own cumulative series for Arias and for
    user measures (monotone and NOT monotone) -- plus the relations of the property (amplitude scaling, zero prefix, widening; threshold
    monotonicity and joint scaling for the bracketed duration)"""
    import eqsig
    from eqsig import im
    rng = ctx.rng
    quick = ctx.tier == 'quick'
    # source hints: record lengths around every new integer constant; fractions and thresholds at / around every new float constant of the anchored files
    hv01 = gen.hint_values(ctx, 0.001, 0.999, cap=12)
    hv_pairs = [(x, 0.95) for x in hv01 if x < 0.9] + [(0.05, x) for x in hv01 if x > 0.1]
    hv_thr = gen.hint_values(ctx, 1e-6, 100.0, cap=12, maps=(lambda c: c, lambda c: 9.81 * c))
    for n in ([6000, 25000, 60000] if quick else [6000, 25000, 60000, 5000, 5001, 8192, 16385, 100000]) + gen.hint_sizes(ctx, lo=65, hi=1000000, cap=8):
        dt = gen.dyadic_dt(rng)
        env = np.exp(-((np.arange(n) - n * rng.uniform(0.3, 0.6)) / (n / 6)) ** 2)
        a = np.round(gen.noise_record(rng, n) * env * 40)                       # whole numbers, |a| up to ~150, many zeros in the tails
        if not np.any(a):
            a[n // 2] = 5.0
        s, e = rng.choice([(Fraction(1, 16), Fraction(15, 16)), (Fraction(1, 8), Fraction(3, 4)), (Fraction(3, 64), Fraction(61, 64)), (Fraction(1, 4), Fraction(1, 2))])
        tie_no = getattr(ctx, '_x2_tie_no', rng.randrange(3))
        ctx._x2_tie_no = tie_no + 1
        tie = ['start-tie', 'end-tie', 'none'][tie_no % 3]
        if tie != 'none':
            # a cumulative value lies EXACTLY on a fraction of the total (the comparison is strict): a few samples are appended / prepended so that
            # c[i0] == total/16 (start) or c[i1] == 15 total/16 (end); everything stays integral, so the implementation's products are exact too
            s, e = Fraction(1, 16), Fraction(15, 16)
            ci0 = np.cumsum(a.astype(np.int64) ** 2)
            tot0 = int(ci0[-1])
            if tie == 'start-tie':
                i0 = int(np.argmax(ci0 * 16 >= tot0))
                deficit = 16 * int(ci0[i0]) - tot0
            else:
                i1 = int(np.nonzero(ci0 * 16 <= 15 * tot0)[0][-1])
                deficit = 15 * (tot0 - int(ci0[i1])) - int(ci0[i1])
            extra = []
            while deficit > 0:
                r = min(int(math.isqrt(deficit)), 3000)
                extra.append(float(r) * rng.choice([-1.0, 1.0]))
                deficit -= r * r
            a = np.concatenate([a, extra]) if tie == 'start-tie' else np.concatenate([extra, a])
            n = len(a)
            env = np.concatenate([env, np.zeros(n - len(env))])
        ctx.hist('large/exact ' + tie)
        desc = {'a': f'round(40 x gaussian noise x gaussian envelope), n={n} (seed-derived)' + ('' if tie == 'none' else f', {len(extra)} samples added for an exact {tie}'),
                'dt': dt, 'start': float(s), 'end': float(e), 'head': a[:6], 'tail': a[-6:]}
        ctx.hist(f'large/n={n}')
        ctx.count_case(('x2-large', n, dt, s, e, a[:64].tobytes()), True, sample={'fn': 'durations (large instance)', 'n': n, 'dt': dt})
        snap = a.copy()
        # (a) running sum of squares, exact integers
        ci = np.cumsum(a.astype(np.int64) ** 2)
        tot = int(ci[-1])
        want = _x2_first_last((ci * s.denominator > s.numerator * tot) & (ci * e.denominator < e.numerator * tot))
        rv = call_impl(im.calc_sig_dur_vals, a, dt, start=float(s), end=float(e), se=True)
        if want is None:
            ctx.oracle('C10.a [sum-of-squares] IndexError iff no sample lies strictly between the fractions [large instance]', rv == ('err', 'IndexError'), desc, detail=rv)
        else:
            ok = rv[0] == 'ok' and _x2_idx(rv, dt) == (float(want[0]), float(want[1]))
            ctx.oracle('C10.a [sum-of-squares] (start, end) == times of first/last sample strictly between the fractions of the total [large instance]', ok, desc,
                       detail={'got': rv, 'want_indices': want})
            if rv[0] == 'ok':
                ctx.oracle('C10.b [sum-of-squares] 0 <= start <= end <= duration [large instance]', 0 <= rv[1][0] <= rv[1][1] <= (n - 1) * dt, desc)
                d = call_impl(im.calc_sig_dur_vals, a, dt, start=float(s), end=float(e))
                ctx.oracle('C10.a [sum-of-squares] se=False returns end - start [large instance]', d[0] == 'ok' and float(d[1]) == float(rv[1][1]) - float(rv[1][0]), desc)
                al = rng.choice([-2.0, 0.5, 4.0])
                r2 = call_impl(im.calc_sig_dur_vals, al * a, dt, start=float(s), end=float(e), se=True)
                ctx.oracle('C10.c [sum-of-squares] unchanged by amplitude scaling [large instance]', r2[0] == 'ok' and tuple(map(float, r2[1])) == tuple(map(float, rv[1])), {**desc, 'alpha': al})
                k = rng.choice([1, 7, 4096, 5000])
                r3 = call_impl(im.calc_sig_dur_vals, np.concatenate([np.zeros(k), a]), dt, start=float(s), end=float(e), se=True)
                ctx.oracle('C10.d [sum-of-squares] start and end shift by k*dt when k zeros are prepended [large instance]',
                           r3[0] == 'ok' and _x2_idx(r3, dt) == (want[0] + float(k), want[1] + float(k)), {**desc, 'k': k}, detail={'orig': rv, 'prepended': r3},
                           facts={'measure': 'sum-of-squares', 'clause': 'zero-prefix', 'a0_nonzero': bool(a[0] != 0)})
                r4 = call_impl(im.calc_sig_dur_vals, a, dt, start=float(s / 2), end=float((e + 1) / 2), se=True)
                ctx.oracle('C10.e [sum-of-squares] widening the fraction interval never shortens the duration [large instance]',
                           r4[0] == 'ok' and r4[1][0] <= rv[1][0] and rv[1][1] <= r4[1][1], desc, detail={'orig': rv, 'wide': r4})
        # (b) Arias (noise record: no exact ties) and user measures, on the implementation's own cumulative series
        b = gen.noise_record(rng, n) * env
        asig = eqsig.AccSignal(b, dt) if rng.random() < 0.5 else eqsig.AccSignal(b[:5], dt)
        if asig.npts != n:
            _ = asig.velocity, asig.pga
            asig.reset_values(b)
        sf, ef = rng.choice([(0.05, 0.95), (0.05, 0.75), (0.1, 0.9), (0.25, 0.5)])
        if hv_pairs and rng.random() < 0.6:
            sf, ef = rng.choice(hv_pairs)
        descb = {'a': f'gaussian noise x gaussian envelope, n={n} (seed-derived)', 'dt': dt, 'start': sf, 'end': ef, 'head': b[:4]}
        measures = [('Arias', None, im.calc_arias_intensity(asig)), ('custom measure calc_cav', im.calc_cav, im.calc_cav(asig)),
                    ('custom measure, not monotone (running sum of a)', lambda s_: np.cumsum(s_.values) + 3.0 * np.max(np.abs(np.cumsum(s_.values))),
                     np.cumsum(b) + 3.0 * np.max(np.abs(np.cumsum(b))))]
        for mname, fn, cum in measures:
            cum = np.asarray(cum)
            wantb = _x2_first_last((cum > sf * cum[-1]) & (cum < ef * cum[-1]))
            r = call_impl(im.calc_sig_dur, asig, start=sf, end=ef, im=fn, se=True)
            if wantb is None:
                ok = r == ('err', 'IndexError')
            else:
                ok = r[0] == 'ok' and _x2_idx(r, dt) == (float(wantb[0]), float(wantb[1]))
            ctx.hist('large/' + mname.split(',')[0])
            ctx.oracle(f'C10.a [{mname}] first/last sample at which the cumulative measure lies strictly between the fractions of its final value [large instance]', ok, descb,
                       detail={'got': r, 'want_indices': wantb})
            if mname == 'Arias' and r[0] == 'ok':
                r2 = call_impl(im.calc_sig_dur, eqsig.AccSignal(-4.0 * b, dt), start=sf, end=ef, se=True)
                ctx.oracle('C10.c [Arias] unchanged by amplitude scaling [large instance]', r2[0] == 'ok' and tuple(map(float, r2[1])) == tuple(map(float, r[1])), {**descb, 'alpha': -4.0})
                ctx.oracle('C10.b [Arias] 0 <= start <= end <= duration [large instance]', 0 <= r[1][0] <= r[1][1] <= (n - 1) * dt, descb)
        # (c) bracketed duration
        absb = np.abs(b)
        thr = float(rng.choice([np.sort(absb)[int(0.999 * n)], np.sort(absb)[n // 2], absb.max(), absb.max() * 0.999, 0.0, absb[rng.randrange(n)]]))
        if hv_thr and rng.random() < 0.6:
            thr = float(rng.choice(hv_thr)) * rng.choice([1.0, float(absb.max())])       # absolute, or as a fraction of the peak
        wl = _x2_first_last(absb > thr)
        r_se, r_d = call_impl(im.calc_brac_dur, asig, thr, se=True), call_impl(im.calc_brac_dur, asig, thr)
        okb = (r_se == ('ok', (None, None)) and r_d[0] == 'ok' and r_d[1] == 0) if wl is None else \
            (r_se[0] == 'ok' and r_d[0] == 'ok' and None not in r_se[1] and _x2_idx(r_se, dt) == (float(wl[0]), float(wl[1])) and float(r_d[1]) == (wl[1] - wl[0]) * dt)
        ctx.oracle('C10.f bracketed (start, end) == times of first/last sample with |a| > threshold, duration == their difference (0 / (None, None) when none) [large instance]', okb,
                   {**descb, 'threshold': thr}, detail={'got': [r_se, r_d], 'want_indices': wl})
        if r_d[0] == 'ok':
            thr2 = thr * 1.5 + 0.01
            ctx.oracle('C10.f non-increasing in the threshold [large instance]', float(im.calc_brac_dur(asig, thr2)) <= float(r_d[1]), {**descb, 'threshold': thr, 'threshold2': thr2})
            ctx.oracle('C10.f unchanged when record and threshold are scaled together [large instance]', float(im.calc_brac_dur(eqsig.AccSignal(8.0 * b, dt), 8.0 * thr)) == float(r_d[1]),
                       {**descb, 'threshold': thr, 'alpha': 8.0})
        ctx.oracle('C10 the records handed to the duration functions are unchanged [large instance]', bool(np.array_equal(a, snap) and np.array_equal(np.asarray(asig.values), b)), desc)


def x2_small(ctx):
    """extreme time steps (the property quantifies over all dt: start and end are index x dt, so they scale exactly with a power-of-two
    rescaling of dt, also by 2^+-300); containers / dtypes; consecutive calls on ONE object that share some but not all arguments"""
    import eqsig
    from eqsig import im
    rng = ctx.rng
    pairs = [(0.05, 0.95), (0.05, 0.75), (0.25, 0.75), (0.125, 0.5), (0.25, 0.95), (0.05, 0.5)]
    for it in range(30 if ctx.tier == 'quick' else 300):
        n = gen.log_int(rng, 3, 120)
        dt = gen.dyadic_dt(rng)
        whole = it % 2 == 0
        a = gen.int_record(rng, n) if whole else gen.dyadic_record(rng, n)
        if len(set(np.abs(a).tolist())) < 2:
            continue
        s, e = rng.choice(pairs)
        thr = float(rng.choice(sorted(set(np.abs(a).tolist())))) * rng.choice([0.5, 1.0, 0.999])
        inputs = {'a': a, 'dt': dt, 'start': s, 'end': e, 'threshold': thr}
        ctx.count_case(('x2-small', a.tobytes(), dt, s, e, thr), True)
        o0 = eqsig.AccSignal(a, dt)
        base = {'vals': call_impl(im.calc_sig_dur_vals, a, dt, start=s, end=e, se=True), 'arias': call_impl(im.calc_sig_dur, o0, start=s, end=e, se=True),
                'brac': call_impl(im.calc_brac_dur, o0, thr, se=True)}

        def times(r, k=1.0):
            return r if r[0] != 'ok' else ('ok', tuple(None if x is None else float(x) * k for x in r[1]))
        # (a) extreme time steps
        for j in (-300, 300, -40, 40):
            k = 2.0 ** j
            ctx.hist(f'extreme-dt/2^{j}')
            o = ctx.aged(eqsig.AccSignal, a, dt * k)
            got = {'vals': call_impl(im.calc_sig_dur_vals, a, dt * k, start=s, end=e, se=True), 'arias': call_impl(im.calc_sig_dur, o, start=s, end=e, se=True),
                   'brac': call_impl(im.calc_brac_dur, o, thr, se=True)}
            ok = all(times(got[q]) == times(base[q], k) for q in base)
            ctx.oracle('C10 start and end are sample index x dt: rescaling the time step by 2^j rescales every duration result by exactly 2^j, also for extreme steps', ok,
                       {**inputs, 'dt_scale': f'2**{j}'}, detail={'got': got, 'base': base})
        # (b) containers / dtypes
        variants = [(lab, c, a) for lab, c in gen.container_variants(a)]
        if whole:
            variants += gen.narrow_int_variants(a)
        for lab, c, fl in variants:
            ctx.hist('record container=' + lab)
            narrow = fl is not a
            # (float32 records: the threshold products are formed in single precision, which may legitimately decide an exact tie differently)
            if isinstance(c, np.ndarray) and not narrow and lab != 'float32':
                r = call_impl(im.calc_sig_dur_vals, c, dt, start=s, end=e, se=True)
                ctx.oracle('C10 calc_sig_dur_vals of an int32 / int64 / strided record == that of the same numbers in float64', times(r) == times(base['vals']),
                           {**inputs, 'container': lab}, detail=(r, base['vals']))
            oc = call_impl(eqsig.AccSignal, c, dt)
            if oc[0] != 'ok':
                ctx.oracle('an AccSignal can be built from a list / tuple / integer / float32 / strided record', False, {**inputs, 'container': lab}, detail=oc)
                continue
            if not narrow and lab != 'float32':
                r = call_impl(im.calc_sig_dur, oc[1], start=s, end=e, se=True)
                ctx.oracle('C10 calc_sig_dur of an AccSignal built from a list / tuple / int32 / int64 / strided record == that of the same numbers in float64', times(r) == times(base['arias']),
                           {**inputs, 'container': lab}, detail=(r, base['arias']))
            t2 = float(np.sort(np.abs(fl))[len(fl) // 2]) * rng.choice([1.0, 0.999])
            r, w = call_impl(im.calc_brac_dur, oc[1], t2, se=True), call_impl(im.calc_brac_dur, eqsig.AccSignal(fl, dt), t2, se=True)
            r1, w1 = call_impl(im.calc_brac_dur, oc[1], t2), call_impl(im.calc_brac_dur, eqsig.AccSignal(fl, dt), t2)
            ctx.oracle('C10.f calc_brac_dur of an AccSignal built from any container / integer dtype (any width) == that of the same numbers in float64', times(r) == times(w) and
                       r1[0] == w1[0] == 'ok' and float(r1[1]) == float(w1[1]), {'a': fl, 'dt': dt, 'threshold': t2, 'container': lab}, detail=(r, w))
        # (c) consecutive calls on one object sharing some but not all arguments (exact repeats included)
        o = ctx.aged(eqsig.AccSignal, a, dt)
        cs, ce, cthr, cse = rng.choice([0.0625, 0.125, 0.25]), rng.choice([0.5, 0.75, 0.9375]), thr, True
        hist = []
        fa, fdt = [fr(x) for x in a], fr(dt)
        for step in range(rng.randint(3, 6)):
            ch = rng.choice(['same', 'start', 'end', 'se', 'threshold', 'im'])
            if ch == 'start':
                cs = rng.choice([x for x in (0.0625, 0.125, 0.25) if x != cs])
            elif ch == 'end':
                ce = rng.choice([x for x in (0.5, 0.75, 0.9375) if x != ce])
            elif ch == 'se':
                cse = not cse
            elif ch == 'threshold':
                cthr = float(rng.choice(sorted(set(np.abs(a).tolist())))) * rng.choice([0.5, 1.0])
            fn = im.calc_cav if ch == 'im' else None
            hist.append((ch, cs, ce, cse, cthr))
            f = eqsig.AccSignal(a, dt)
            got = (call_impl(im.calc_sig_dur, o, start=cs, end=ce, im=fn, se=cse), call_impl(im.calc_brac_dur, o, cthr, se=cse))
            want = (call_impl(im.calc_sig_dur, f, start=cs, end=ce, im=fn, se=cse), call_impl(im.calc_brac_dur, f, cthr, se=cse))
            ctx.hist('consecutive-calls/' + ch)
            ctx.oracle('C10 consecutive duration calls on one object that share some but not all of (start, end, se, threshold, measure) each return what a fresh object returns', got == want,
                       {'a': a, 'dt': dt, 'calls (changed, start, end, se, threshold)': hist}, detail={'got': got, 'fresh': want}, facts={'history': [h[0] for h in hist]})
            # the array variant against the definition itself (dyadic fractions, dyadic-safe record: exact)
            gv = call_impl(im.calc_sig_dur_vals, a, dt, start=cs, end=ce, se=cse)
            wv = spec_sigdur(cum_sq(fa), fdt, fr(cs), fr(ce))
            okv = (gv == ('err', 'IndexError')) if wv is None else (gv[0] == 'ok' and ((fr(gv[1][0]), fr(gv[1][1])) == wv if cse else fr(gv[1]) == wv[1] - wv[0]))
            ctx.oracle('C10.a [sum-of-squares] consecutive calls that share some but not all of (start, end, se): each returns the times of the first/last sample strictly between ITS fractions',
                       okv, {'a': a, 'dt': dt, 'calls (changed, start, end, se, threshold)': hist}, detail={'got': gv, 'want': None if wv is None else [float(wv[0]), float(wv[1])]})


def x2_large_ties(ctx):
    """round 9 (hx_r9a): the exact-tie records of the small tiers (pulse, zeros, running sum exactly ON start*total / end*total, the tie value REPEATED
    over a quiet gap) at LARGE lengths (2500, 5000, around every new integer constant): 64 (or 20, decimal fractions) non-zero samples of +-m between
    zeros, so that the running sum of squares is j*m*m on the j-th of them and stays there over the following gap; fractions j/64 (exact integers
    decide) and 0.05 / 0.95 style decimals (the float64 mask of the definition decides).  Variants: spread (every tie followed by zeros), packed
    (ties without zeros after them), early-pulse (the first js units in ONE sample, then a gap), near-tie (one unit is m+1: plateaus without a tie).
    Evaluated for the array variant and for calc_sig_dur with the running sum of squares as a user measure."""
    import eqsig
    from eqsig import im
    rng = ctx.rng
    quick = ctx.tier == 'quick'
    sizes = [2500, 5000] + ([] if quick else [2047, 2048, 2049, 4096, 20000, 70000]) + gen.hint_sizes(ctx, lo=130, hi=1000000, cap=6)
    variants = ['spread', 'early-pulse', 'packed', 'near-tie', 'spread-decimal']
    sq = lambda s_: np.cumsum(np.asarray(s_.values) ** 2)
    for n in sizes:
        for vi, variant in enumerate(variants):
            dt = gen.dyadic_dt(rng)
            m = float(rng.choice([1, 2, 3, 7, 50, 1000]))
            units = 20 if variant == 'spread-decimal' else 64
            js, je = rng.choice([(4, 60), (1, 63), (16, 48), (4, 32), (8, 60), (3, 61)]) if units == 64 else rng.choice([(1, 19), (2, 18), (5, 15), (1, 15)])
            if variant == 'early-pulse':
                js = rng.choice([1, 4, 16])
            pos = sorted(rng.sample(range(n), units)) if variant != 'packed' else list(range((o := rng.randrange(n - units)), o + units))
            if variant != 'packed' and pos[-1] == n - 1 and rng.random() < 0.5:
                pos[-1] = n - 2 if n - 2 not in pos else pos[-1]
            a = np.zeros(n)
            for p_ in pos:
                a[p_] = m * rng.choice([-1.0, 1.0])
            if variant == 'early-pulse':                       # the first js units in one sample
                a[pos[:js]] = 0.0
                a[pos[rng.randrange(js)]] = m * math.isqrt(js)
            if variant == 'near-tie':
                a[pos[rng.randrange(js)]] = m + 1.0
            ctx.hist('large-ties/' + variant)
            ctx.hist(f'large-ties/n={n}')
            ctx.count_case(('x2-large-ties', n, dt, js, je, variant, a.tobytes()[:0], tuple(pos[:8])), True)
            nz = np.nonzero(a)[0]
            if units == 64:
                s, e = js / 64.0, je / 64.0
                ci = np.cumsum(a.astype(np.int64) ** 2)
                tot = int(ci[-1])
                want = _x2_first_last((ci * 64 > js * tot) & (ci * 64 < je * tot))
            else:
                s, e = js / 20.0, je / 20.0
                cf = np.cumsum(a ** 2)
                want = _x2_first_last((cf > s * cf[-1]) & (cf < e * cf[-1]))
            desc = {'a': f'{n} samples, zero except a[i] = v for (i, v) in nonzero', 'nonzero': [(int(i), float(a[i])) for i in nz], 'dt': dt, 'start': s, 'end': e, 'variant': variant}
            asig = ctx.aged(eqsig.AccSignal, a, dt) if n <= 20000 else eqsig.AccSignal(a, dt)
            for label, f in (('sum-of-squares', lambda se: call_impl(im.calc_sig_dur_vals, a, dt, start=s, end=e, se=se)),
                             ('custom measure running sum of squares', lambda se: call_impl(im.calc_sig_dur, asig, start=s, end=e, im=sq, se=se))):
                rv = f(True)
                if want is None:
                    ctx.oracle(f'C10.a [{label}] IndexError iff no sample lies strictly between the fractions [large instance]', rv == ('err', 'IndexError'), desc, detail=rv)
                    continue
                ok = rv[0] == 'ok' and _x2_idx(rv, dt) == (float(want[0]), float(want[1]))
                ctx.oracle(f'C10.a [{label}] (start, end) == times of first/last sample strictly between the fractions of the total [large instance]', ok, desc,
                           detail={'got': rv, 'want_indices': want})
                d = f(False)
                ctx.oracle(f'C10.a [{label}] se=False returns end - start [large instance]', d[0] == 'ok' and float(d[1]) == (want[1] - want[0]) * dt, desc, detail=d)
            if want is not None and vi % 2 == 0:
                k = rng.choice([1, 7, 4096])
                r3 = call_impl(im.calc_sig_dur_vals, np.concatenate([np.zeros(k), a]), dt, start=s, end=e, se=True)
                ctx.oracle('C10.d [sum-of-squares] start and end shift by k*dt when k zeros are prepended [large instance]',
                           r3[0] == 'ok' and _x2_idx(r3, dt) == (want[0] + float(k), want[1] + float(k)), {**desc, 'k': k}, detail={'prepended': r3, 'want_indices': want},
                           facts={'measure': 'sum-of-squares', 'clause': 'zero-prefix', 'a0_nonzero': bool(a[0] != 0)})


def x2_block_pulses(ctx):
    """round 9 (hx_r9a): bracketed duration of records with ISOLATED pulses at positions tied to every integer constant c the changed source may be
    using (gen.hint_consts; nothing without hints): the first exceedance at c-2, c-1, c, c+1 (and multiples: 2c-1, 2c) and/or the last one at
    n-1-c+{-1, 0, 1}, n-c+1 ..., record length c + 4465 or 2c + 17, thresholds only the pulses exceed, se True / False, one or two pulses."""
    import eqsig
    from eqsig import im
    rng = ctx.rng
    consts = gen.hint_consts(ctx, lo=4, hi=2 ** 20, cap=4)
    for c in consts:
        for n in (c + 4465, 2 * c + 17):
            dt = gen.dyadic_dt(rng)
            bgr = np.array([rng.uniform(-1, 1) for _ in range(997)]) * 0.125
            base = np.resize(bgr, n)
            firsts = [p_ for p_ in (c - 2, c - 1, c, c + 1, 2 * c - 1, 2 * c) if 0 <= p_ < n]
            lasts = [p_ for p_ in (n - 1 - c - 1, n - 1 - c, n - c, n - c + 1, n - 1 - (c - 1) - 1, n - 1 - 2 * c, n - 2 * c) if 0 <= p_ < n]
            cases = [(p_,) for p_ in firsts + lasts] + [(p_, rng.choice([q for q in lasts if q > p_] or [n - 1])) for p_ in firsts[:4]] + \
                    [(rng.choice([0, 1, 5]), q) for q in lasts[:4] if q > 5]
            for pulses in cases:
                b = base.copy()
                for p_ in pulses:
                    b[p_] = rng.choice([-1.0, 1.0, 3.0])
                thr = rng.choice([0.5, 0.125, 0.75])
                asig = ctx.aged(eqsig.AccSignal, b, dt) if n <= 20000 else eqsig.AccSignal(b, dt)
                wl = _x2_first_last(np.abs(b) > thr)
                desc = {'a': f'{n} samples: 997 uniform(-1/8, 1/8) values repeated (seed-derived), pulses at {list(pulses)}', 'pulses': [(int(p_), float(b[p_])) for p_ in pulses],
                        'dt': dt, 'threshold': thr, 'hinted constant': c}
                ctx.hist(f'block-pulses/c={c}')
                ctx.count_case(('x2-block-pulses', n, dt, pulses, thr, b[:32].tobytes()), True)
                r_se, r_d = call_impl(im.calc_brac_dur, asig, thr, se=True), call_impl(im.calc_brac_dur, asig, thr)
                okb = r_se[0] == 'ok' and r_d[0] == 'ok' and None not in r_se[1] and _x2_idx(r_se, dt) == (float(wl[0]), float(wl[1])) and float(r_d[1]) == (wl[1] - wl[0]) * dt
                ctx.oracle('C10.f bracketed (start, end) == times of first/last sample with |a| > threshold, duration == their difference (0 / (None, None) when none) [large instance]', okb,
                           desc, detail={'got': [r_se, r_d], 'want_indices': wl})


def extras2(ctx):
    x2_large(ctx)
    x2_small(ctx)
    x2_large_ties(ctx)
    ctx.flush()
    x2_block_pulses(ctx)


_run_main2 = run


def run(ctx):
    _run_main2(ctx)
    extras2(ctx)
    ctx.flush()


# ---- open finding F10-2: arithmetic in the record's own integer dtype (see _narrow_findings.py) -------------------------------------------

import _narrow_findings as _NF  # noqa: E402


def _narrow_table():
    import eqsig
    from eqsig import im
    return {'calc_sig_dur_vals': lambda x, dt: im.calc_sig_dur_vals(x, dt, se=True),
            'calc_sig_dur': lambda x, dt: im.calc_sig_dur(eqsig.AccSignal(x, dt), se=True),
            'calc_brac_dur': lambda x, dt: im.calc_brac_dur(eqsig.AccSignal(x, dt), float(np.median(np.abs(np.asarray(x, dtype=float)))), se=True)}


try:
    KNOWN_MATCHERS
except NameError:
    KNOWN_MATCHERS = {}
KNOWN_MATCHERS['F10-2'] = _NF.matcher('F10-2')
_known_witness_prev = globals().get('known_witness')


def known_witness(fid):
    if fid == 'F10-2':
        from eqsig import im
        a = np.array([100, -200, 300, 250, -50, 20, 10, -5], dtype=np.int16)
        return im.calc_sig_dur_vals(a, 0.5, se=True) != im.calc_sig_dur_vals(a.astype(float), 0.5, se=True)
    return _known_witness_prev(fid) if _known_witness_prev else True


_run_main_nf = run


def run(ctx):
    _run_main_nf(ctx)
    _NF.narrow_oracles(ctx, 'C10', _narrow_table())
    ctx.flush()


# evidence: how the model is tied to the source on every run (as built, supersedes the value above)
TIE = 'translator (duration functions and aliases -> Gen/ImDur; Props/C10Gen) + correspondence (exhaustive small records x fraction grid)'


# ---- round-7 deliveries (lw_small / tw_single3): further correspondences of models with new theorems -------------------------
import _lw_small as _LW  # noqa: E402
from _single3_corr import corr_single3  # noqa: E402
_run_main_r7 = run


def run(ctx):
    _run_main_r7(ctx)
    _LW.corr_sigdur_prefix(ctx)
    corr_single3(ctx, parts=('stats',))
    ctx.flush()
