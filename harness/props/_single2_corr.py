"""corr_single2(ctx): correspondence of the arithmetic of the in-place mutators of AccSignal (Model/Single2.lean, driver handlers `s2.*`)
with the real methods of /repo/eqsig/single.py.  Paste-ready: `from props._single2_corr import corr_single2` (or copy the function) and call
it from `run(ctx)` of harness/props/c08.py / c17.py.

Comparison: the methods divide (`/ nsteps`, `/ ttime ** 2`, `/ 100`), so binary64 results are not exact even on dyadic records; every
case is compared in exact rational arithmetic with the rounding budget R = 1e-9 of the record's peak, and EXACTLY (`==`) whenever the
model's result is representable (all entries dyadic with small numerators) — the count of exact cases is recorded in the histogram.
A record containing nan/inf (NumPy's non-raising x/0) is the model's `err|ZeroDivisionError`.
"""
from fractions import Fraction

import numpy as np

import gen
from core import fr, w_rat, w_rats, p_rats, cmp_exact, cmp_budget, call_impl

R9 = Fraction(1, 10**9)


def _finite_or_tag(res):
    """('ok', array) with a non-finite entry -> ('err', 'ZeroDivisionError') (the model's tag for NumPy's non-raising x/0)"""
    if res[0] == 'ok' and not np.all(np.isfinite(np.asarray(res[1], dtype=float))):
        return ('err', 'ZeroDivisionError')
    return res


def _representable(qs):
    return all(q.denominator & (q.denominator - 1) == 0 and q.denominator <= 2**40 and abs(q.numerator) < 2**50 for q in qs)


def corr_single2(ctx, n_cases=None):
    import eqsig
    from scipy.signal import detrend
    rng = ctx.rng
    if n_cases is None:
        n_cases = 60 if ctx.tier == 'quick' else 600

    def fresh(v, dt):
        return eqsig.AccSignal(np.array(v, dtype=float), dt)

    def run_method(v, dt, name, *a, **k):
        def f():
            s = fresh(v, dt)
            getattr(s, name)(*a, **k)
            return np.array(s.values, dtype=float)
        r = _finite_or_tag(call_impl(f))
        ctx.hist(f"single2/{name}/outcome=" + ('ok' if r[0] == 'ok' else r[1]))
        return r

    def compare_factory(fn, v):
        scale = max([abs(fr(x)) for x in v] + [Fraction(1, 10**300)])

        def compare(outs, val, scale=scale, fn=fn):
            m = p_rats(outs[0])
            val = list(np.asarray(val, dtype=float))
            if _representable(m):
                ctx.hist(f"single2/{fn}/exact")
                msg = cmp_exact(val, m)
                if msg is None:
                    return None
                # a representable result may still be reached through inexact intermediate quotients: fall back to the budget
            msg, g = cmp_budget(val, m, R9, scale=scale, abs_floor=Fraction(1, 10**12) * scale)
            ctx.gap(fn, g)
            return msg
        return compare

    def tz_tokens(tz):
        if tz is None:
            return ""
        return w_rat(tz[0]) if tz[1] is None else f"{w_rat(tz[0])} {w_rat(tz[1])}"

    corpus = [([], 0.5), ([1.0], 0.5), ([0.0, 0.0, 0.0], 0.5), ([1.0, 2.0], 0.0), ([1.0, 1.0, 1.0], 1.0),
              ([0.0, 1.0, 0.0, 0.0, 2.0, 1.0, 0.0, 0.0], 0.5), ([3.0, -1.0, 4.0, -1.0, 5.0, -9.0, 2.0, 6.0], 0.25),
              ([1.0, -2.0], 2.0), ([0.5, 0.25, -0.75, 1.0, 1.0, 1.0, -2.0, 0.0, 0.0, 3.0, 1.5, -0.5], 0.125)]
    cases = list(corpus)
    for _ in range(n_cases):
        n = gen.log_int(rng, 1, 40)
        kind = rng.choice(['dyadic', 'int', 'plateau', 'spike', 'step'])
        a = {'dyadic': gen.dyadic_record, 'int': gen.int_record, 'plateau': gen.plateau_record, 'spike': gen.spike_record,
             'step': gen.step_record}[kind](rng, n)
        cases.append((a.tolist(), gen.dyadic_dt(rng)))

    for v, dt in cases:
        n = len(v)
        inputs = {'values': list(v), 'dt': dt}
        head = f"{w_rat(dt)}|{w_rats(v)}"
        # ---- rebase_displacement
        ctx.corr('rebase_displacement', f"s2.rebase|{head}", run_method(v, dt, 'rebase_displacement'), compare_factory('rebase_displacement', v), inputs=inputs)
        # ---- timezones: None, (t0, None), (t0, t1) with dyadic times inside and outside the record, empty and reversed windows
        T = max(n - 1, 0) * dt
        tzs = [None]
        for _ in range(3):
            t0 = rng.choice([0.0, dt, 2 * dt, T / 2, T, T + dt, -dt, rng.randint(0, max(n, 1)) * dt, rng.randint(0, 4 * max(n, 1)) * dt / 4])
            t1 = rng.choice([None, None, t0, t0 + dt, T, T - dt, T + 2 * dt, rng.randint(0, max(n, 1)) * dt, rng.randint(0, 4 * max(n, 1)) * dt / 4])
            tzs.append((t0, t1))
        for tz in tzs:
            kw = {} if tz is None else {'timezone': tz}
            ti = dict(inputs, timezone=tz)
            tag = 'None' if tz is None else ('(t0,None)' if tz[1] is None else '(t0,t1)')
            ctx.hist('single2/timezone=' + tag)
            # set_zero_residual_velocity: the default branch takes the implementation's binary64 decision k = nsteps - 1
            res = run_method(v, dt, 'set_zero_residual_velocity', **kw)
            if tz is None:
                k, ratio_safe = None, False
                try:
                    s = fresh(v, dt)
                    import warnings
                    with warnings.catch_warnings():
                        warnings.simplefilter('ignore')
                        pv, den = s.velocity[-1], s.pga * s.dt / 100
                        k = int(abs(pv) / den)
                        q = abs(fr(pv)) / (fr(s.pga) * fr(dt) / 100)
                        ratio_safe = abs(q - round(q)) > Fraction(1, 10**6) or q == 0
                except Exception:  # the method raised: compare the error kind through the full handler
                    ratio_safe = True
                if k is not None:
                    ctx.corr('set_zero_residual_velocity', f"s2.zero_vel_k|{head}|{k}", res, compare_factory('set_zero_residual_velocity', v), inputs=ti)
                if ratio_safe:
                    ctx.corr('set_zero_residual_velocity', f"s2.zero_vel|{head}|", res, compare_factory('set_zero_residual_velocity', v), inputs=ti)
            else:
                ctx.corr('set_zero_residual_velocity', f"s2.zero_vel|{head}|{tz_tokens(tz)}", res, compare_factory('set_zero_residual_velocity', v), inputs=ti)
            ctx.corr('set_zero_residual_displacement', f"s2.zero_disp|{head}|{tz_tokens(tz)}", run_method(v, dt, 'set_zero_residual_displacement', **kw),
                     compare_factory('set_zero_residual_displacement', v), inputs=ti)
            ctx.corr('set_zero_residual_displacement_and_velocity', f"s2.zero_disp_vel|{head}|{tz_tokens(tz)}",
                     run_method(v, dt, 'set_zero_residual_displacement_and_velocity', **kw),
                     compare_factory('set_zero_residual_displacement_and_velocity', v), inputs=ti)
        # ---- correct_me (the output of scipy.signal.detrend is handed to the model)
        det = []
        if n > 0:
            try:
                det = list(detrend(fresh(v, dt).displacement))
            except Exception:
                det = []
        ctx.corr('correct_me', f"s2.correct_me|{head}|{w_rats(det)}", run_method(v, dt, 'correct_me'), compare_factory('correct_me', v), inputs=inputs)
        # ---- remove_rolling_average
        for mtype in ('velocity', 'acceleration'):
            for fw in (rng.choice([1, 2, 4, 8, 16, 0.5, 0.25, 5, 3]), rng.choice([0, 1000, 64, 1 / (dt * 3) if dt else 1, -1])):
                ctx.hist('single2/mtype=' + mtype)
                res = run_method(v, dt, 'remove_rolling_average', mtype=mtype, freq_window=fw)
                q = None if fr(fw) * fr(dt) == 0 else 1 / (fr(fw) * fr(dt))
                f_ok = q is None or (float(fw) * float(dt) != 0 and
                                     (abs(q - round(q)) > Fraction(1, 10**6) or fr(1.0 / (float(fw) * float(dt))) == q))
                if not f_ok:
                    continue          # int(1. / (fw * dt)) within rounding of a whole number: the binary64 decision is not the model's
                ctx.corr('remove_rolling_average', f"s2.remove_roll|{head}|{'V' if mtype == 'velocity' else 'O'}|{w_rat(fw)}", res,
                         compare_factory('remove_rolling_average', v), inputs=dict(inputs, mtype=mtype, freq_window=fw))
    ctx.flush()
