"""C13 — peak-only series conserve total variation; equivalent-cycle measures are mutually inverse."""
import itertools
from fractions import Fraction

import numpy as np

import gen
from core import fr, w_rat, w_rats, w_floats, w_float, p_rats, p_floats, cmp_exact, cmp_budget, call_impl

RULE = ("peak-only series: exhaustive over the 5-level alphabet {-2..2} up to length 6 (quick) / 7 (thorough) + random "
        "integer/dyadic/plateau/offset series up to length 2000 (exact comparison: integer and dyadic inputs); power-law "
        "measures: random records, b in (0.05, 1], cut_off in [0, 0.1], scalar and array b (Float twin, budget 1e-9). "
        "distinct = hash of the series (+parameters); non-trivial = length >= 3 and not constant")
TIE = "correspondence (hand models Model/Peaks.lean, Model/PowerLaw.lean)"
PROP_MODULES = ['C13', 'C13PowerLaw', 'C13Scale', 'C13ScaleRepair', 'C13Gen', 'C13GenSeries']
NOT_PROVED = ["pow rounding in the power-law measures (Float twin vs impl, measured)",
              "inverse relation for cut_off > 0 (approximate by construction; evaluated numerically only)"]


# exponents NEAR a special value (lesson 15): decimal truncations of 1/k and 1/k one part in 10^6 .. 10^7 away (round 8, seed C13-r8-2:
# a whole-number exponent shortcut for |1/b - round(1/b)| < 1e-5)
NEAR_RECIPROCAL_B = [0.333333, 0.142857, 0.111111, 0.166667, 0.0909091, 0.2 * (1 + 1e-6), 0.25 * (1 - 3e-7), 0.5 * (1 + 2e-6), 0.3333333]


def tv(v):
    return sum(abs(b - a) for a, b in zip(v, v[1:]))


def run(ctx):
    from eqsig.fns import peaks_and_crossings as pc
    rng = ctx.rng
    maxlen = 6 if ctx.tier == 'quick' else 7
    n_random = 300 if ctx.tier == 'quick' else 3000
    corpus = [(0, 2, 1, 2, 0, 1, 0, -1, 0, 1, 0), (3, 3, 1, 2, 2, 0), (1, 1, 2, 1), (5, 1, 3, -1), (0, -1, -1, 2), (2, 1)]

    def one(v):
        arr = np.array(v, dtype=float)
        vv = [fr(x) for x in v]
        nonconst = len(set(v)) > 1
        ctx.count_case(tuple(v), len(v) >= 3 and nonconst,
                       sample={'fn': 'determine_peaks_only_delta_series', 'values': list(v)} if ctx.evaluations % 4001 == 0 else None)
        snap = arr.copy()
        pre = {}
        _PRE.before(ctx, _PRE.pc_entries, arr, pre, share=_PRE_SHARE_SERIES)      # round 7: preceding public calls on the same content
        rd = call_impl(pc.determine_peaks_only_delta_series, arr)
        _PRE.before(ctx, _PRE.pc_entries, arr, pre, share=_PRE_SHARE_SERIES)
        rp = call_impl(pc.determine_pseudo_cyclic_peak_only_series, arr)
        ctx.oracle('input array unchanged', np.array_equal(arr, snap), inputs={'values': list(v), **pre})
        ctx.corr('determine_peaks_only_delta_series', f"delta_series|{w_rats(v)}", rd,
                 lambda outs, val: cmp_exact(list(val), p_rats(outs[0])), inputs={'values': list(v)})
        ctx.corr('determine_pseudo_cyclic_peak_only_series', f"pseudo_cyclic|{w_rats(v)}", rp,
                 lambda outs, val: cmp_exact(list(val), p_rats(outs[0])), inputs={'values': list(v)})
        if not nonconst or rd[0] != 'ok' or rp[0] != 'ok':
            return
        _PRE.before(ctx, _PRE.pc_entries, arr, pre, share=_PRE_SHARE_SERIES)
        P = [int(p) for p in pc.get_peak_array_indices(arr)]
        d = [fr(x) for x in rd[1]]
        p = [fr(x) for x in rp[1]]
        inputs = {'values': list(v), **pre}
        # the reported peaks are the yardstick of the clauses below: they must be the turning points of THIS series (C11), whatever was
        # asked of the peak functions before; the clauses are then evaluated on the turning points
        Pspec = [int(q) for q in _np_peaks(arr)]
        ctx.oracle('C13.a (yardstick, C11) get_peak_array_indices(values) == {0, every turning point, first sample of the final constant run}',
                   P == Pspec, inputs, detail={'reported': P, 'turning points': Pspec})
        P = Pspec
        ctx.oracle('C13.a delta series has the record length and is zero away from peaks',
                   len(d) == len(v) and all(d[i] == 0 for i in range(len(v)) if i not in set(P)), inputs, detail={'delta': rd[1], 'peaks': P})
        ctx.oracle('C13.a |delta| at the k-th peak == |change between consecutive peak values|',
                   all(abs(d[P[k]]) == abs(vv[P[k]] - vv[P[k - 1]]) for k in range(1, len(P))) and d[0] == 0, inputs,
                   detail={'delta': rd[1], 'peaks': P})
        ctx.oracle('C13.a sum|delta| == total variation', sum(abs(x) for x in d) == tv(vv), inputs, detail={'delta': rd[1]})
        ctx.oracle('C13.a |sum delta| == |x[-1]-x[0]|', abs(sum(d)) == abs(vv[-1] - vv[0]), inputs, detail={'delta': rd[1]})
        last_dir = 1 if vv[P[-1]] > vv[P[-2]] else -1
        want = tv(vv) / 2 + (vv[-1] - vv[0]) * last_dir / 2
        ctx.oracle('C13.b sum(pseudo-cyclic) == TV/2 + (x[-1]-x[0])*dir/2', sum(p) == want, inputs,
                   detail={'series': rp[1], 'sum': float(sum(p)), 'want': float(want)})
        ctx.oracle('C13.b pseudo-cyclic series is zero away from peaks', all(p[i] == 0 for i in range(len(v)) if i not in set(P)), inputs)
        c = rng.choice([-3.0, 0.5, 2.0, 7.0])
        sh = arr + c
        if all(fr(x) == fr(y) + fr(c) for x, y in zip(sh, arr)):
            d2 = pc.determine_peaks_only_delta_series(sh)
            p2 = pc.determine_pseudo_cyclic_peak_only_series(sh)
            ctx.oracle('C13.c both series invariant under a constant shift',
                       [fr(x) for x in d2] == d and [fr(x) for x in p2] == p, {'values': list(v), 'shift': c})

    for v in corpus:
        ctx.hist('corpus')
        one(v)
    for n in range(2, maxlen + 1):
        for v in itertools.product(range(-2, 3), repeat=n):
            ctx.hist(f'exhaustive/5-level/len={n}')
            one(v)
    ctx.flush()
    for i in range(n_random):
        n = gen.log_int(rng, 2, 300 if ctx.tier == 'quick' else 2000)
        kind = rng.choice(['plateau', 'int', 'dyadic', 'offset-plateau', 'tiny-scale', 'near-tie'])
        if kind == 'tiny-scale':
            # exact power-of-two scaling keeps the record dyadic-safe: steps far below any absolute tolerance must still count
            v = gen.dyadic_record(rng, n) * 2.0 ** -rng.choice([30, 40, 60])
        elif kind == 'near-tie':
            v = gen.int_record(rng, n) + np.array([rng.choice([0, 1, -1, 2]) * 2.0 ** -rng.choice([28, 34, 40]) for _ in range(n)])
        elif kind == 'plateau':
            v = gen.plateau_record(rng, n)
        elif kind == 'offset-plateau':
            v = gen.plateau_record(rng, n, levels=(3, 4, 5, 7), p_repeat=0.6)
        elif kind == 'int':
            v = gen.int_record(rng, n)
        else:
            v = gen.dyadic_record(rng, n)
        ctx.hist('random/' + kind)
        one(tuple(float(x) for x in v))
    ctx.flush()
    # ---- round 7 (hx_r7b): ulp-extremum series inside ONE binade (gen.one_binade_levels): neighbouring samples that differ in the last bits AT turning points,
    # on plateaus and at the ends; every difference the functions form (x - x[0], peak - previous peak) is exact there, so the exact model and the
    # exact conservation clauses apply as they are (a change of one ulp is a change: it counts towards the total variation)
    for label, v in gen.ulp_extremum_exhaustive(max_k=3 if ctx.tier == 'quick' else 5, offsets=(-1, 0, 1) if ctx.tier == 'quick' else (-2, -1, 0, 1, 3), one_binade=True):
        ctx.hist(label)
        one(v)
    ctx.flush()
    for i in range(150 if ctx.tier == 'quick' else 3000):
        kind, v = gen.ulp_extremum_series(rng, gen.log_int(rng, 4, 60 if i % 10 else 300), one_binade=True)
        if len(set(v.tolist())) < 2:
            continue
        ctx.hist('ulp-extremum/' + kind)
        one(tuple(float(x) for x in v))
    ctx.flush()
    power_law(ctx)
    ctx.flush()


def power_law(ctx):
    """C13.d — evaluated on the impl (metamorphic relations, budget 1e-9) and against the Float twin of the model."""
    from eqsig import im
    rng = ctx.rng
    n_cases = 60 if ctx.tier == 'quick' else 600
    rel = 1e-9
    for i in range(n_cases):
        n = gen.log_int(rng, 8, 400)
        kind, v = gen.any_record(rng, n)
        if kind in ('spike', 'step') or len(set(v.tolist())) < 3:
            v = gen.noise_record(rng, n)
            kind = 'noise'
        # (+ source hints: exponent b and cut_off at / around every new float constant of the anchored files)
        b = rng.choice([0.05001, 0.1, 0.25, 0.34, 0.5, 1.0] + NEAR_RECIPROCAL_B + gen.hint_values(ctx, 0.0501, 1.0, cap=10, maps=(lambda c: c, lambda c: 1 / c))) if rng.random() < 0.6 else rng.uniform(0.0501, 1.0)
        cut = rng.choice([0.0, 0.0, 0.01, 0.05, 0.1] + gen.hint_values(ctx, 1e-6, 0.5, cap=10))
        peak = float(np.max(np.abs(v)))
        a_ref = peak * rng.choice([0.3, 0.65, 1.0, 2.0])
        n_cyc = rng.choice([1, 5, 15, 2.5])
        ctx.hist('powerlaw/' + kind)
        ctx.hist(f'powerlaw/cut_off={"0" if cut == 0 else ">0"}')
        ctx.count_case(('pl', v.tobytes(), b, cut, a_ref, n_cyc), True,
                       sample={'fn': 'calc_n_cyc_array_w_power_law', 'n': n, 'b': b, 'cut_off': cut, 'a_ref': a_ref} if i < 2 else None)
        inputs = {'values': v, 'b': b, 'cut_off': cut, 'a_ref': a_ref, 'n_cyc': n_cyc}
        # round 7: before a share of the measures, the public functions they are built on (and the measures themselves with other parameter
        # values) are called on the same content with non-default options, positionally / by keyword; results ignored (see _precalls.py)
        _PRE.before(ctx, _pre_entries, v, inputs)
        rn = call_impl(im.calc_n_cyc_array_w_power_law, v, a_ref, b, cut_off=cut)
        _PRE.before(ctx, _pre_entries, v, inputs)
        ra = call_impl(im.calc_cyc_amp_array_w_power_law, v, n_cyc, b)
        ctx.corr('calc_n_cyc_array_w_power_law', f"n_cyc_power|{w_float(a_ref)}|{w_float(b)}|{w_float(cut)}|{w_floats(v)}|{w_rats(v)}", rn,
                 lambda outs, val: _cmpf(ctx, 'calc_n_cyc_array_w_power_law', np.asarray(val).reshape(-1), p_floats(outs[0])), inputs=inputs)
        ctx.corr('calc_cyc_amp_array_w_power_law', f"cyc_amp_power|{w_float(n_cyc)}|{w_float(b)}|{w_floats(v)}|{w_rats(v)}", ra,
                 lambda outs, val: _cmpf(ctx, 'calc_cyc_amp_array_w_power_law', np.asarray(val).reshape(-1), p_floats(outs[0])), inputs=inputs)
        if rn[0] != 'ok' or ra[0] != 'ok':
            continue
        ns = np.asarray(rn[1]).reshape(-1)
        am = np.asarray(ra[1]).reshape(-1)
        ctx.oracle('C13.d series have the record length', len(ns) == n and len(am) == n, inputs)
        ctx.oracle('C13.d equivalent cycles non-decreasing', bool(np.all(np.diff(ns) >= 0)), inputs)
        ctx.oracle('C13.d equivalent amplitude non-decreasing', bool(np.all(np.diff(am) >= -1e-12 * max(1.0, am.max()))), inputs)
        if cut == 0.0:
            # mutually inverse: amplitude for N = cycles(a_ref)[-1] is a_ref.  The cycle series is a 'previous' step function, so its
            # value at the last sample counts every switched peak only if the last switched peak is not the last sample: use the
            # defining sums instead of the last sample when it is.
            _PRE.before(ctx, _pre_entries, v, inputs)
            n0 = im.calc_n_cyc_array_w_power_law(v, a_ref, b, cut_off=0.0).reshape(-1)
            pk = np.abs(np.take(v, __import__('eqsig').fns.peaks_and_crossings.get_switched_peak_array_indices(v)))
            n_tot = float(np.sum(0.5 / (a_ref / pk[pk > 0]) ** (1 / b))) if np.any(pk > 0) else 0.0
            # the cycle series is a 'previous' step function whose last knot sits at len(values): its final sample counts every
            # switched peak, including one on the final sample
            ctx.oracle('C13.d final equivalent-cycle count == sum over the switched peaks of 0.5*(|peak|/a_ref)^(1/b)',
                       abs(float(n0[-1]) - n_tot) <= 1e-9 * max(n_tot, 1e-300), inputs, detail={'series_last': float(n0[-1]), 'sum': n_tot})
            if n0[-1] > 0:
                _PRE.before(ctx, _pre_entries, v, inputs)
                amp = im.calc_cyc_amp_array_w_power_law(v, float(n0[-1]), b)[-1]
                ctx.oracle('C13.d mutual inverse: amplitude(N = cycles(a_ref)) == a_ref', abs(amp - a_ref) <= 1e-8 * a_ref, inputs,
                           detail={'amp': float(amp), 'a_ref': a_ref, 'n_series_last': float(n0[-1])})
        alpha = rng.choice([0.5, 2.0, 3.0, 10.0, 1000.0, 1e-3])
        am2 = im.calc_cyc_amp_array_w_power_law(alpha * v, n_cyc, b).reshape(-1)
        ctx.oracle('C13.d amplitude scales linearly with the record', bool(np.allclose(am2, alpha * am, rtol=1e-9, atol=1e-12 * peak)), inputs,
                   detail={'alpha': alpha})
        ns2 = im.calc_n_cyc_array_w_power_law(alpha * v, alpha * a_ref, b, cut_off=cut).reshape(-1)
        # peaks below the cut-off are replaced by the ABSOLUTE constant 1e-14, which does not scale with the record: their (negligible)
        # contribution 0.5*(1e-14/a_ref)^(1/b) per peak changes by the factor alpha^(-1/b); allow exactly that much
        npk = max(1, len(__import__('eqsig').fns.peaks_and_crossings.get_switched_peak_array_indices(v)))
        repl = 0.0 if cut == 0 else npk * 0.5 * max(1.0, alpha ** (-1 / b)) * (1e-14 / a_ref) ** (1 / b)
        ctx.oracle('C13.d cycles invariant when record and reference amplitude scale together',
                   bool(np.allclose(ns2, ns, rtol=1e-8, atol=2 * repl + 1e-9 * float(ns.max()) + 1e-300)), inputs, detail={'alpha': alpha})
        _PRE.before(ctx, _pre_entries, v, inputs)
        comb = im.calc_cyc_amp_combined_arrays_w_power_law(v, v, n_cyc, b)
        _PRE.before(ctx, _pre_entries, v, inputs)
        gm = im.calc_cyc_amp_gm_arrays_w_power_law(v, v, n_cyc, b)
        ctx.oracle('C13.d two identical components: combined == 2^b * single', bool(np.allclose(comb, 2 ** b * am, rtol=1e-9, atol=1e-300)), inputs)
        ctx.oracle('C13.d two identical components: geometric mean == single', bool(np.allclose(gm, am, rtol=1e-9, atol=1e-300)), inputs)
        if i % 3 == 0:
            # the same numbers in integer / single-precision / list containers: all four functions must return the same series
            vi = gen.int_record(rng, n, -9, 9)
            if len(set(vi.tolist())) >= 3 and float(np.max(np.abs(vi))) > 0:
                a_r = float(np.max(np.abs(vi))) * 0.65
                ref = [im.calc_n_cyc_array_w_power_law(vi, a_r, b, cut_off=cut), im.calc_cyc_amp_array_w_power_law(vi, n_cyc, b),
                       im.calc_cyc_amp_gm_arrays_w_power_law(vi, vi[::-1].copy(), n_cyc, b),
                       im.calc_cyc_amp_combined_arrays_w_power_law(vi, vi[::-1].copy(), n_cyc, b)]
                for lab, c in gen.container_variants(vi, floats32=False, arrays_only=True):   # float32 records are computed in single precision; calc_n_cyc_… rejects lists (TypeError from abs) on the pinned tree
                    ctx.hist('powerlaw/container/' + lab)
                    c2 = c[::-1] if not isinstance(c, np.ndarray) else c[::-1].copy()
                    got = [call_impl(im.calc_n_cyc_array_w_power_law, c, a_r, b, cut_off=cut), call_impl(im.calc_cyc_amp_array_w_power_law, c, n_cyc, b),
                           call_impl(im.calc_cyc_amp_gm_arrays_w_power_law, c, c2, n_cyc, b),
                           call_impl(im.calc_cyc_amp_combined_arrays_w_power_law, c, c2, n_cyc, b)]
                    for nm, r0, g in zip(('n_cyc', 'cyc_amp', 'gm', 'combined'), ref, got):
                        ctx.oracle('C13.d power-law series do not depend on the container / dtype holding the record (%s)' % nm,
                                   g[0] == 'ok' and np.shape(g[1]) == np.shape(r0) and bool(np.allclose(np.asarray(g[1], dtype=float), r0, rtol=1e-9, atol=1e-300)),
                                   {'values': vi, 'container': lab, 'b': b, 'cut_off': cut, 'a_ref': a_r, 'n_cyc': n_cyc},
                                   detail={'got': g[1] if g[0] != 'ok' else np.asarray(g[1], dtype=float).reshape(-1)[-3:], 'want_tail': np.asarray(r0).reshape(-1)[-3:]})
        if i % 5 == 0:
            bb = np.array([b, min(1.0, b * 1.5)])
            ra2 = im.calc_cyc_amp_array_w_power_law(v, n_cyc, bb)
            ctx.oracle('C13.d array b: column 0 equals the scalar-b series', bool(np.allclose(ra2[:, 0], am, rtol=1e-12)) and ra2.shape == (n, 2), inputs)


import _precalls as _PRE  # noqa: E402
_PRE_SHARE_SERIES = 0.04      # share of the (mostly exhaustive, ~20 000) peak-only-series cases with preceding calls, per call site


def _pre_entries(content):
    return _PRE.pc_entries(content) + _PRE.im_power_entries(content, weights={'calc_n_cyc_array_w_power_law': 2, 'calc_cyc_amp_array_w_power_law': 1})


def _cmpf(ctx, fn, impl, model):
    msg, g = cmp_budget([float(x) for x in impl], model, Fraction(1, 10**9), abs_floor=Fraction(1, 10**300))
    ctx.gap(fn, g)
    return msg


# ---- extras2 (harness extension hx_b): cleaned-data helpers, containers, exact scaling, large instances, array b ------------------------------

def _np_peaks(a):
    """index 0, first sample of every plateau that is a strict local extremum, first sample of the final constant run (NumPy comparisons only)"""
    a = np.asarray(a, dtype=float)
    idx = np.concatenate(([0], np.nonzero(a[1:] != a[:-1])[0] + 1))
    c = a[idx]
    up = c[1:] > c[:-1]
    turn = np.nonzero(up[1:] != up[:-1])[0] + 1
    return np.concatenate(([idx[0]], idx[turn], [idx[-1]])) if len(idx) > 1 else idx[:1]


def _eq(x, y):
    x, y = np.asarray(x), np.asarray(y)
    return x.shape == y.shape and bool(np.all(x == y))


def _np_clauses(v, d, p):
    """C13.a/b on a record whose values are small multiples of 1/8 (every float sum below is exact); returns None or the violated clause"""
    v = np.asarray(v, dtype=float)
    d = np.asarray(d, dtype=float)
    p = np.asarray(p, dtype=float)
    n = len(v)
    if d.shape != (n,) or p.shape != (n,):
        return 'series have the record length'
    P = _np_peaks(v)
    off = np.ones(n, dtype=bool)
    off[P] = False
    if np.any(d[off] != 0) or np.any(p[off] != 0):
        return 'zero away from peaks'
    if d[0] != 0 or np.any(np.abs(d[P[1:]]) != np.abs(np.diff(v[P]))):
        return '|delta| at the k-th peak == |change between consecutive peak values|'
    tvv = float(np.sum(np.abs(np.diff(v))))
    if float(np.sum(np.abs(d))) != tvv:
        return 'sum|delta| == total variation'
    if abs(float(np.sum(d))) != abs(float(v[-1] - v[0])):
        return '|sum delta| == |x[-1]-x[0]|'
    last_dir = 1.0 if v[P[-1]] > v[P[-2]] else -1.0
    if float(np.sum(p)) != tvv / 2 + float(v[-1] - v[0]) * last_dir / 2:
        return 'sum(pseudo-cyclic) == TV/2 + (x[-1]-x[0])*dir/2'
    return None


def _x2_wrappers(ctx, cur):
    from eqsig.fns import peaks_and_crossings as pc
    from eqsig import im
    rng = ctx.rng
    quick = ctx.tier == 'quick'

    # ---- (3) the *_4_cleaned_data helpers of the anchored mechanism ----------------------------------------------------------------------
    for it in range(80 if quick else 800):
        n = gen.log_int(rng, 3, 120)
        kind = rng.choice(['int', 'dyadic', 'plateau', 'offset-plateau', 'tiny-scale'])
        v = (gen.int_record(rng, n) if kind == 'int' else gen.dyadic_record(rng, n) if kind == 'dyadic' else gen.plateau_record(rng, n) if kind == 'plateau'
             else gen.plateau_record(rng, n, levels=(3, 4, 5, 7), p_repeat=0.6) if kind == 'offset-plateau' else gen.dyadic_record(rng, n) * 2.0 ** -rng.choice([30, 60]))
        c = v[np.concatenate(([True], v[1:] != v[:-1]))]          # no adjacent repeats
        if len(c) < 2:
            continue
        ctx.hist('extras2/cleaned-helpers/' + kind)
        ctx.count_case(('x2h', c.tobytes()), len(c) >= 3)
        inputs = {'values (no adjacent repeats)': c.tolist()}
        cur.clear()
        cur.update(inputs)
        cc = [fr(x) for x in c]
        snap = c.copy()
        rd = call_impl(pc.determine_peak_only_delta_series_4_cleaned_data, c)
        P = _np_peaks(c)
        ok = rd[0] == 'ok' and np.shape(rd[1]) == c.shape
        if ok:
            d = [fr(x) for x in rd[1]]
            Ps = set(int(i) for i in P)
            ok = (all(d[i] == 0 for i in range(len(c)) if i not in Ps) and d[0] == 0
                  and all(d[int(P[k])] == cc[int(P[k])] - cc[int(P[k - 1])] for k in range(1, len(P)))
                  and sum(abs(x) for x in d) == tv(cc) and sum(d) == cc[-1] - cc[0])
        ctx.oracle('C13.a determine_peak_only_delta_series_4_cleaned_data: zero away from peaks, change between consecutive peak values at the peaks, '
                   'sum|delta| == total variation, sum delta == x[-1]-x[0]', ok, inputs, detail={'got': rd[1], 'peaks': P})
        ctx.oracle('C13 the cleaned-data helpers leave their input unchanged', _eq(c, snap), inputs)
        # normalised as the main functions do (first value 0, first move upwards): helper == main function
        z = (c - c[0]) * np.sign(c[1] - c[0])
        if all(fr(a) == (x - cc[0]) * (1 if cc[1] > cc[0] else -1) for a, x in zip(z, cc)):
            for dtype in ((float, int) if kind in ('int', 'plateau', 'offset-plateau') else (float,)):
                zz = z.astype(dtype)
                r1, m1 = call_impl(pc.determine_peak_only_delta_series_4_cleaned_data, zz.copy()), call_impl(pc.determine_peaks_only_delta_series, zz.copy())
                r2, m2 = call_impl(pc._determine_peak_only_series_4_cleaned_data, zz.copy()), call_impl(pc.determine_pseudo_cyclic_peak_only_series, zz.copy())
                ctx.oracle('C13.a determine_peak_only_delta_series_4_cleaned_data == determine_peaks_only_delta_series on a series without adjacent repeats '
                           'that starts at 0 and moves up first', r1[0] == 'ok' and m1[0] == 'ok' and _eq(r1[1], m1[1]),
                           {'values': zz.tolist(), 'dtype': str(zz.dtype)}, detail={'helper': r1[1], 'main': m1[1]})
                if r2[0] == 'ok' and np.shape(r2[1]) == zz.shape:
                    zq, pq = [fr(x) for x in zz], [fr(x) for x in r2[1]]
                    Pz = [int(i) for i in _np_peaks(zz)]
                    ldir = 1 if zq[Pz[-1]] > zq[Pz[-2]] else -1
                    ctx.oracle('C13.b _determine_peak_only_series_4_cleaned_data (series without adjacent repeats starting at 0, moving up first): zero away '
                               'from peaks, alternating-sign peak values, sum == TV/2 + (x[-1]-x[0])*dir/2',
                               all(pq[i] == 0 for i in range(len(zq)) if i not in set(Pz)) and all(pq[i] == (-1) ** (k + 1) * zq[i] for k, i in enumerate(Pz))
                               and sum(pq) == tv(zq) / 2 + (zq[-1] - zq[0]) * ldir / 2, {'values': zz.tolist(), 'dtype': str(zz.dtype)}, detail={'got': r2[1]})
                ctx.oracle('C13.b _determine_peak_only_series_4_cleaned_data == determine_pseudo_cyclic_peak_only_series on a series without adjacent '
                           'repeats that starts at 0 and moves up first', r2[0] == 'ok' and m2[0] == 'ok' and _eq(r2[1], m2[1]),
                           {'values': zz.tolist(), 'dtype': str(zz.dtype)}, detail={'helper': r2[1], 'main': m2[1]})
        # ---- (4) containers / dtypes of the main functions (narrow and unsigned integer dtypes: see NOTES - silent wrap-around resp. TypeError
        # on the pinned tree, not demanded)
        if it % 2 == 0 and len(set(v.tolist())) > 1:
            want_d, want_p = pc.determine_peaks_only_delta_series(v), pc.determine_pseudo_cyclic_peak_only_series(v)
            for lab, cont in gen.container_variants(v):
                ctx.hist('extras2/container/' + lab)
                snapc = np.array(cont)
                gd, gp = call_impl(pc.determine_peaks_only_delta_series, cont), call_impl(pc.determine_pseudo_cyclic_peak_only_series, cont)
                ctx.oracle('C13 peak-only series do not depend on the container or dtype holding the series (delta)', gd[0] == 'ok' and _eq(gd[1], want_d),
                           {'values': v.tolist(), 'container': lab}, detail={'got': gd[1], 'float64 ndarray': want_d})
                ctx.oracle('C13 peak-only series do not depend on the container or dtype holding the series (pseudo-cyclic)', gp[0] == 'ok' and _eq(gp[1], want_p),
                           {'values': v.tolist(), 'container': lab}, detail={'got': gp[1], 'float64 ndarray': want_p})
                ctx.oracle('input array unchanged', _eq(np.array(cont), snapc) and np.array(cont).dtype == snapc.dtype, {'values': v.tolist(), 'container': lab})


def _x2_scale(ctx, cur):
    from eqsig.fns import peaks_and_crossings as pc
    from eqsig import im
    rng = ctx.rng
    quick = ctx.tier == 'quick'

    # ---- (2) exact covariance under scaling by powers of two: the peak-only series are homogeneous of degree 1 (2^-600 is the documented
    # underflow limitation of the sign test and not demanded); the equivalent number of cycles is of degree 0 when record and reference
    # amplitude scale together (cut_off = 0: the ratios a_ref/|peak| are reproduced exactly, so the series is bit for bit the same)
    for it in range(20 if quick else 200):
        n = gen.log_int(rng, 3, 200)
        v = gen.dyadic_record(rng, n) if it % 2 else gen.plateau_record(rng, n)
        if len(set(v.tolist())) < 2:
            continue
        cur.clear()
        cur.update({'values': v.tolist()})
        d0, p0 = pc.determine_peaks_only_delta_series(v), pc.determine_pseudo_cyclic_peak_only_series(v)
        for k in (600, 350, -350, 900):
            ctx.hist('extras2/scale/2^%d' % k)
            ctx.count_case(('x2s', k, v.tobytes()), True)
            w = v * 2.0 ** k
            with np.errstate(all='ignore'):
                gd, gp = call_impl(pc.determine_peaks_only_delta_series, w), call_impl(pc.determine_pseudo_cyclic_peak_only_series, w)
            ctx.oracle('C13 peak-only delta series scales exactly with the series (power of two)', gd[0] == 'ok' and gen.scaled_exactly(gd[1], d0, 2.0 ** k),
                       {'values': v.tolist(), 'scale': '2**%d' % k}, detail={'scaled/2^k': None if gd[0] != 'ok' else (np.asarray(gd[1]) / 2.0 ** k)[:12], 'base': d0[:12]})
            ctx.oracle('C13 pseudo-cyclic peak series scales exactly with the series (power of two)', gp[0] == 'ok' and gen.scaled_exactly(gp[1], p0, 2.0 ** k),
                       {'values': v.tolist(), 'scale': '2**%d' % k}, detail={'scaled/2^k': None if gp[0] != 'ok' else (np.asarray(gp[1]) / 2.0 ** k)[:12], 'base': p0[:12]})
    for it in range(15 if quick else 150):
        n = gen.log_int(rng, 8, 300)
        v = gen.noise_record(rng, n) if it % 2 else gen.dyadic_record(rng, n)
        if len(set(v.tolist())) < 3 or float(np.max(np.abs(v))) == 0:
            continue
        cur.clear()
        cur.update({'values': v.tolist()})
        b = rng.choice([0.05001, 0.1, 0.25, 0.34, 0.5, 1.0]) if rng.random() < 0.6 else rng.uniform(0.0501, 1.0)
        a_ref = float(np.max(np.abs(v))) * rng.choice([0.3, 0.65, 1.0, 2.0])
        with np.errstate(all='ignore'):
            base = im.calc_n_cyc_array_w_power_law(v, a_ref, b, cut_off=0.0)
        for k in (600, -350, 350, -200):
            ctx.hist('extras2/powerlaw-scale/2^%d' % k)
            with np.errstate(all='ignore'):
                g = call_impl(im.calc_n_cyc_array_w_power_law, v * 2.0 ** k, a_ref * 2.0 ** k, b, cut_off=0.0)
            ctx.oracle('C13.d cycles are EXACTLY invariant when record and reference amplitude are scaled by the same power of two (cut_off = 0)',
                       g[0] == 'ok' and _eq(g[1], base), {'values': v, 'a_ref': a_ref, 'b': b, 'cut_off': 0.0, 'scale': '2**%d' % k},
                       detail={'scaled_tail': None if g[0] != 'ok' else np.asarray(g[1]).reshape(-1)[-3:], 'base_tail': base.reshape(-1)[-3:]})
        # array-valued b for the cycle series: column j is the scalar-b_j series
        if it % 3 == 0:
            bb = np.array([b, min(1.0, b * 1.5), 0.2])
            cut = rng.choice([0.0, 0.05])
            r = call_impl(im.calc_n_cyc_array_w_power_law, v, a_ref, bb, cut_off=cut)
            with np.errstate(all='ignore'):
              ok = r[0] == 'ok' and np.shape(r[1]) == (n, 3) and all(
                bool(np.allclose(np.asarray(r[1])[:, j], im.calc_n_cyc_array_w_power_law(v, a_ref, float(bb[j]), cut_off=cut).reshape(-1), rtol=1e-12, atol=0)) for j in range(3))
            ctx.oracle('C13.d array b (cycles): column j equals the scalar-b_j series', ok, {'values': v, 'a_ref': a_ref, 'b': bb, 'cut_off': cut})


def _x2_large(ctx, cur):
    from eqsig.fns import peaks_and_crossings as pc
    from eqsig import im
    rng = ctx.rng
    quick = ctx.tier == 'quick'

    # ---- (1) large instances: tens of thousands of samples / thousands of peaks; all clauses in O(n) with NumPy (values are multiples of 1/8,
    # every sum is exact), whole == parts at a reported peak, integer dtype, exact scaling; the power-law series sample by sample
    sizes = [('int-walk', rng.choice([5000, 8192, 12000])), ('plateau', rng.choice([20000, 32768, 60000])), ('dyadic-walk', rng.choice([10000, 16384, 50000]))]
    if not quick:
        sizes += [(k, m) for k in ('int-walk', 'plateau', 'dyadic-walk') for m in (4096, 5001, 65536, 100000)]
    # source hints: numbers of samples / of turning points ('zigzag': every interior sample is one) around every new integer constant
    hs = gen.hint_sizes(ctx, lo=9, hi=300000, cap=6, halves=True)
    sizes += [('int-walk', m) for m in hs if m > 600] + [('zigzag', m + d) for m in hs for d in (0, 2, 3)]
    for kind, n in sizes:
        seed = rng.randrange(2 ** 31)
        g = np.random.default_rng(seed)
        if kind == 'int-walk':
            v = g.integers(-3, 4, size=n).astype(float) + float(g.integers(-5, 6))
        elif kind == 'plateau':
            v = np.repeat(g.integers(-5, 6, size=n // 2 + 1), g.integers(1, 4, size=n // 2 + 1))[:n].astype(float)
            v = np.concatenate((v, np.full(n - len(v), v[-1]))) if len(v) < n else v
        elif kind == 'zigzag':
            v = (g.integers(1, 4, size=n) * (-1) ** np.arange(n)).astype(float)
        else:
            v = np.cumsum(g.integers(-2, 3, size=n) * np.repeat(g.choice([-1, 1], size=n // 40 + 1), 40)[:n]) / 8.0
        desc = {'generator': 'c13.extras2 large', 'kind': kind, 'n': n, 'numpy_seed': seed}
        cur.clear()
        cur.update(desc)
        ctx.hist('extras2/large/' + kind)
        ctx.count_case(('x2l', kind, n, seed), True, sample=desc)
        snap = v.copy()
        rd, rp = call_impl(pc.determine_peaks_only_delta_series, v), call_impl(pc.determine_pseudo_cyclic_peak_only_series, v)
        bad = _np_clauses(v, rd[1], rp[1]) if rd[0] == 'ok' and rp[0] == 'ok' else 'both series are returned'
        ctx.oracle('C13.a/b (large) ' + (bad or 'length / zero away from peaks / |delta| at peaks / total variation / end offset / pseudo-cyclic sum'), bad is None, desc,
                   detail={'turning points': int(len(_np_peaks(v)))})
        ctx.oracle('input array unchanged', _eq(v, snap), desc)
        if bad is not None:
            continue
        d, p = np.asarray(rd[1]), np.asarray(rp[1])
        P = _np_peaks(v)
        cut = int(P[rng.randrange(1, len(P) - 1)])
        dl, dr = pc.determine_peaks_only_delta_series(v[:cut + 1]), pc.determine_peaks_only_delta_series(v[cut:])
        ctx.oracle('C13.a (large) whole == parts: |delta series| of the series split at a reported peak', _eq(np.abs(np.concatenate((dl, dr[1:]))), np.abs(d)),
                   {**desc, 'split_at': cut})
        sh = float(rng.choice([-3, 2, 7]))
        ctx.oracle('C13.c (large) both series invariant under a constant shift', _eq(pc.determine_peaks_only_delta_series(v + sh), d) and
                   _eq(pc.determine_pseudo_cyclic_peak_only_series(v + sh), p), {**desc, 'shift': sh})
        for lab, cont in gen.container_variants(v * 8 if kind == 'dyadic-walk' else v, arrays_only=True):
            f = 8.0 if kind == 'dyadic-walk' else 1.0
            ctx.oracle('C13 (large) peak-only series do not depend on the dtype / memory layout of the series', _eq(pc.determine_peaks_only_delta_series(cont), d * f)
                       and _eq(pc.determine_pseudo_cyclic_peak_only_series(cont), p * f), {**desc, 'container': lab, 'values multiplied by': f})
        with np.errstate(all='ignore'):
            for k in (600, -350):
                ctx.oracle('C13 (large) peak-only series scale exactly with the series (power of two)',
                           gen.scaled_exactly(pc.determine_peaks_only_delta_series(v * 2.0 ** k), d, 2.0 ** k) and
                           gen.scaled_exactly(pc.determine_pseudo_cyclic_peak_only_series(v * 2.0 ** k), p, 2.0 ** k), {**desc, 'scale': '2**%d' % k})
    hs = gen.hint_sizes(ctx, lo=401, hi=300000, cap=5, halves=True)       # source hints (sizes; b and cut_off as above)
    for it in range((2 if quick else 8) + len(hs)):
        n = rng.choice([6000, 20000, 50000]) if quick else rng.choice([4096, 5001, 20000, 65536, 100000])
        n = n if it >= len(hs) else hs[it]
        seed = rng.randrange(2 ** 31)
        v = np.random.default_rng(seed).standard_normal(n) * rng.choice([1.0, 1e-3, 250.0])
        b = rng.choice([0.1, 0.25, 0.34, 0.5, 1.0] + gen.hint_values(ctx, 0.0501, 1.0, cap=10, maps=(lambda c: c, lambda c: 1 / c)))
        cut = rng.choice([0.0, 0.0, 0.05] + gen.hint_values(ctx, 1e-6, 0.5, cap=10))
        n_cyc = rng.choice([1, 5, 15, 2.5])
        peak = float(np.max(np.abs(v)))
        a_ref = peak * rng.choice([0.3, 0.65, 1.0])
        desc = {'generator': 'c13.extras2 large power law: standard_normal(n) * amp', 'n': n, 'numpy_seed': seed, 'amp': float(peak), 'b': b, 'cut_off': cut,
                'a_ref': a_ref, 'n_cyc': n_cyc}
        cur.clear()
        cur.update(desc)
        ctx.hist('extras2/large/powerlaw')
        ctx.count_case(('x2lp', n, seed, b, cut), True, sample=desc)
        S = np.asarray(pc.get_switched_peak_array_indices(v))
        pk = np.abs(v[S])
        rn, ra = call_impl(im.calc_n_cyc_array_w_power_law, v, a_ref, b, cut_off=cut), call_impl(im.calc_cyc_amp_array_w_power_law, v, n_cyc, b)
        idx = np.arange(n)
        cnt = np.searchsorted(S, idx, side='right')            # switched peaks at or before each sample
        ok = rn[0] == 'ok' and np.asarray(rn[1]).reshape(-1).shape == (n,)
        if ok:
            ns = np.asarray(rn[1]).reshape(-1)
            pk_c = np.where(pk < cut * peak, 1.0e-14, pk)
            cum = np.concatenate(([0.0], np.cumsum(0.5 * (pk_c / a_ref) ** (1 / b))))
            want = cum[cnt]
            sel = idx > 0 if S[0] == 0 else idx >= 0                # sample 0 is a double knot when the first switched peak is sample 0
            ok = bool(np.all(np.diff(ns) >= 0)) and bool(np.allclose(ns[sel], want[sel], rtol=1e-9, atol=1e-300))
        ctx.oracle('C13.d (large) equivalent cycles: record length, non-decreasing, at every sample == sum over the switched peaks so far of 0.5*(|peak|/a_ref)^(1/b)',
                   ok, desc)
        ok = ra[0] == 'ok' and np.shape(ra[1]) == (n,)
        if ok:
            am = np.asarray(ra[1])
            cum = np.concatenate(([0.0], np.cumsum(pk ** (1 / b) / 2 / n_cyc)))
            want = cum[cnt] ** b
            ok = bool(np.all(np.diff(am) >= -1e-12 * am.max())) and bool(np.allclose(am, want, rtol=1e-9, atol=1e-300))
        ctx.oracle('C13.d (large) equivalent amplitude: record length, non-decreasing, at every sample == (sum over the switched peaks so far of |peak|^(1/b) / (2 n_cyc))^b',
                   ok, desc)
        if rn[0] == 'ok' and cut == 0.0 and np.asarray(rn[1]).reshape(-1)[-1] > 0:
            amp = im.calc_cyc_amp_array_w_power_law(v, float(np.asarray(rn[1]).reshape(-1)[-1]), b)[-1]
            ctx.oracle('C13.d (large) mutual inverse: amplitude(N = cycles(a_ref)) == a_ref', abs(amp - a_ref) <= 1e-8 * a_ref, desc, detail={'amp': float(amp)})
        comb, gm = im.calc_cyc_amp_combined_arrays_w_power_law(v, v, n_cyc, b), im.calc_cyc_amp_gm_arrays_w_power_law(v, v, n_cyc, b)
        if ra[0] == 'ok':
            ctx.oracle('C13.d (large) two identical components: combined == 2^b * single, geometric mean == single',
                       bool(np.allclose(comb, 2 ** b * np.asarray(ra[1]), rtol=1e-9, atol=1e-300)) and bool(np.allclose(gm, ra[1], rtol=1e-9, atol=1e-300)), desc)
        with np.errstate(all='ignore'):
            k = rng.choice([600, -350])
            if rn[0] == 'ok' and cut == 0.0:
                ctx.oracle('C13.d (large) cycles are EXACTLY invariant when record and reference amplitude are scaled by the same power of two (cut_off = 0)',
                           _eq(im.calc_n_cyc_array_w_power_law(v * 2.0 ** k, a_ref * 2.0 ** k, b, cut_off=0.0), rn[1]), {**desc, 'scale': '2**%d' % k})


def extras2(ctx):
    from _hxb_common import guarded_sections
    guarded_sections(ctx, 'C13', [('wrappers', _x2_wrappers), ('scale', _x2_scale), ('large', _x2_large)])


_run_main2 = run


def run(ctx):
    _run_main2(ctx)
    extras2(ctx)
    ctx.flush()


# ---- open finding F13-1: arithmetic in the record's own integer dtype (see _narrow_findings.py) -------------------------------------------

import _narrow_findings as _NF  # noqa: E402


def _narrow_table():
    from eqsig.fns import peaks_and_crossings as pc
    return {'determine_peaks_only_delta_series': lambda x, dt: pc.determine_peaks_only_delta_series(x),
            'determine_pseudo_cyclic_peak_only_series': lambda x, dt: pc.determine_pseudo_cyclic_peak_only_series(x)}


try:
    KNOWN_MATCHERS
except NameError:
    KNOWN_MATCHERS = {}
KNOWN_MATCHERS['F13-1'] = _NF.matcher('F13-1')
_known_witness_prev = globals().get('known_witness')


def known_witness(fid):
    if fid == 'F13-1':
        from eqsig.fns import peaks_and_crossings as pc
        a = np.array([300000, 100000, 200000, 0, 300000], dtype=np.int32)
        return not np.array_equal(pc.determine_peaks_only_delta_series(a), pc.determine_peaks_only_delta_series(a.astype(float)))
    return _known_witness_prev(fid) if _known_witness_prev else True


_run_main_nf = run


def run(ctx):
    _run_main_nf(ctx)
    _NF.narrow_oracles(ctx, 'C13', _narrow_table())
    ctx.flush()

# ---- round-5 lesson: results depend on the content of the array, not on the identity of the array object ---------------------------------

def extras_refill(ctx):
    from eqsig.fns import peaks_and_crossings as pc
    from eqsig import im
    gen.refill_oracle(ctx, 'C13 the same ndarray object changed in place and analysed again gives the series of its CURRENT content (%s)',
                      {'determine_peaks_only_delta_series': pc.determine_peaks_only_delta_series, 'determine_pseudo_cyclic_peak_only_series': pc.determine_pseudo_cyclic_peak_only_series,
                       'calc_n_cyc_array_w_power_law': lambda x: im.calc_n_cyc_array_w_power_law(x, 3.0, 0.3), 'calc_cyc_amp_array_w_power_law': lambda x: im.calc_cyc_amp_array_w_power_law(x, 5, 0.3),
                       'calc_cyc_amp_gm_arrays_w_power_law': lambda x: im.calc_cyc_amp_gm_arrays_w_power_law(x, x, 5, 0.3),
                       'calc_cyc_amp_combined_arrays_w_power_law': lambda x: im.calc_cyc_amp_combined_arrays_w_power_law(x, x, 5, 0.3)},
                      ctx.rng, lambda rng: gen.int_record(rng, 24, -5, 5), n_rep=4 if ctx.tier == 'quick' else 40)


_run_main_rf = run


def run(ctx):
    _run_main_rf(ctx)
    extras_refill(ctx)
    ctx.flush()


# evidence: how the model is tied to the source on every run (as built, supersedes the value above)
TIE = 'translator (peak-only series -> Gen/PeakSeries, power-law functions -> Gen/ImPower; Props/C13GenSeries, C13Gen) + correspondence'


# ---- round-4 lesson: shift independence with integer offsets beyond 2^53 -----------------------------------------------------------------

def extras_shift(ctx):
    """both peak-only series are independent of a constant shift -- for integer series also when the shift is far beyond 2^53 (an int64
    series with a level of 2^60 is exact in its own dtype; a detour through float64 is not)"""
    from eqsig.fns import peaks_and_crossings as pc
    rng = ctx.rng
    for it in range(12 if ctx.tier == 'quick' else 120):
        n = gen.log_int(rng, 3, 40)
        v = gen.int_record(rng, n, -9, 9)
        if len(set(v.tolist())) < 2:
            continue
        base = (call_impl(pc.determine_peaks_only_delta_series, v), call_impl(pc.determine_pseudo_cyclic_peak_only_series, v))
        for off in (2 ** 60, -(2 ** 61), 2 ** 55 + 1):
            w = v.astype(np.int64) + np.int64(off)
            ctx.hist('shift/int64 offset beyond 2^53')
            got = (call_impl(pc.determine_peaks_only_delta_series, w), call_impl(pc.determine_pseudo_cyclic_peak_only_series, w))
            for nm, b, g in zip(('delta series', 'pseudo-cyclic series'), base, got):
                ok = b[0] == g[0] and (b[0] != 'ok' or (np.shape(b[1]) == np.shape(g[1]) and bool(np.all(np.asarray(b[1], dtype=float) == np.asarray(g[1], dtype=float)))))
                ctx.oracle('C13.c both series invariant under a constant shift (int64 series shifted by an offset beyond 2^53: %s)' % nm, ok,
                           {'values': v.tolist(), 'offset': off, 'dtype': 'int64'},
                           detail=None if ok else {'unshifted': b[1] if b[0] != 'ok' else np.asarray(b[1], dtype=float).tolist()[:10],
                                                   'shifted': g[1] if g[0] != 'ok' else np.asarray(g[1], dtype=float).tolist()[:10]})


_run_main_sh = run


def run(ctx):
    _run_main_sh(ctx)
    extras_shift(ctx)
    ctx.flush()


# ---- round-7 lesson (hx_r7c): consecutive evaluations of ONE record for a range of parameters -------------------------------------------

def extras_sweeps(ctx):
    """the power-law measures are usually evaluated for a range of cut-offs, reference amplitudes, exponents and cycle numbers of one record,
    one call after the other with nothing in between (decreasing, increasing, repeated values): every result of the sweep must be, bit for
    bit, what the same call returns on its own (after a call on another record), and the final cycle count must be the defining sum over
    the switched peaks (peaks below cut_off * max|record| count with the replacement amplitude 1e-14).  The probes are switched off inside
    a sweep so that the calls really are consecutive."""
    from eqsig import im
    from core import no_probe
    rng = ctx.rng
    ladders = {'cut_off': [0.6, 0.3, 0.1, 0.05, 0.01, 0.0], 'b': [1.0, 0.8, 0.5, 0.34, 0.25, 0.1], 'a_ref': [2.0, 1.0, 0.65, 0.3, 0.1], 'n_cyc': [15, 5, 2.5, 1]}
    for it in range(10 if ctx.tier == 'quick' else 100):
        n = gen.log_int(rng, 8, 200)
        kind = rng.choice(['noise', 'dyadic', 'sine+ripple'])
        if kind == 'noise':
            v = gen.noise_record(rng, n) * rng.choice([1.0, 1e-3, 250.0])
        elif kind == 'dyadic':
            v = gen.dyadic_record(rng, n)
        else:       # large half cycles with a small ripple crossing zero in between: many switched peaks far below any cut-off
            v = np.array([(-1) ** i * (rng.choice([1.0, 2.0, 3.0]) if i % 3 else rng.choice([0.004, 0.02, 0.07, 0.2])) for i in range(n)])
        if len(set(v.tolist())) < 3 or float(np.max(np.abs(v))) == 0:
            continue
        peak = float(np.max(np.abs(v)))
        what = rng.choice(['cut_off', 'cut_off', 'b', 'a_ref', 'n_cyc'])
        lad = list(ladders[what])
        order = rng.choice(['decreasing', 'increasing', 'down-up', 'up-down', 'shuffled'])
        seq = (lad if order == 'decreasing' else lad[::-1] if order == 'increasing' else lad + lad[::-1][1:] if order == 'down-up' else lad[::-1] + lad[1:]
               if order == 'up-down' else [rng.choice(lad) for _ in range(8)])
        fixed = {'cut_off': rng.choice([0.0, 0.01, 0.05, 0.1]), 'b': rng.choice([0.25, 0.34, 0.5, 1.0]), 'a_ref': rng.choice([0.3, 0.65, 1.0]), 'n_cyc': rng.choice([1, 5, 15])}
        ctx.hist('sweep/%s/%s/%s' % (what, order, kind))
        ctx.count_case(('sweep', v.tobytes(), what, order), True)

        def call(par):
            if what == 'n_cyc':
                return im.calc_cyc_amp_array_w_power_law(v, par['n_cyc'], par['b'])
            return im.calc_n_cyc_array_w_power_law(v, par['a_ref'] * peak, par['b'], cut_off=par['cut_off'])
        pars = [{**fixed, what: x} for x in seq]
        with no_probe():
            got = [call_impl(call, p) for p in pars]               # the sweep: consecutive calls on the same record
            alone = {}
            for x in sorted(set(seq)):
                call_impl(lambda: im.calc_n_cyc_array_w_power_law(v[:-1] * 1.5, peak, 0.5, cut_off=0.0))      # another record in between
                call_impl(lambda: im.calc_cyc_amp_array_w_power_law(v[:-1] * 1.5, 3, 0.5))
                alone[x] = call_impl(call, {**fixed, what: x})
            S = np.asarray(__import__('eqsig').fns.peaks_and_crossings.get_switched_peak_array_indices(v))
        pk = np.abs(v[S])
        for i, (x, par, g) in enumerate(zip(seq, pars, got)):
            a = alone[x]
            inputs = {'values': v, 'swept parameter': what, 'sweep (consecutive calls on this record, in this order)': seq, 'position in the sweep': i,
                      'parameters of this call': ({'n_cyc': par['n_cyc'], 'b': par['b']} if what == 'n_cyc' else
                                                  {'a_ref': par['a_ref'] * peak, 'b': par['b'], 'cut_off': par['cut_off']})}
            ok = g[0] == 'ok' and a[0] == 'ok' and np.shape(g[1]) == np.shape(a[1]) and bool(np.array_equal(np.asarray(g[1]), np.asarray(a[1]), equal_nan=True))
            ctx.oracle('C13.d a power-law measure evaluated in a sweep of %s over one record == the same call on its own (bit for bit)' % what, ok, inputs,
                       detail=None if ok else {'in the sweep (tail)': g[1] if g[0] != 'ok' else np.asarray(g[1]).reshape(-1)[-3:],
                                               'on its own (tail)': a[1] if a[0] != 'ok' else np.asarray(a[1]).reshape(-1)[-3:]})
            if g[0] != 'ok':
                continue
            series = np.asarray(g[1]).reshape(-1)
            if what == 'n_cyc':
                want = float(np.sum(pk ** (1 / par['b']) / 2 / par['n_cyc'])) ** par['b']
                ctx.oracle('C13.d (sweep) final equivalent amplitude == (sum over the switched peaks of |peak|^(1/b) / (2 n_cyc))^b',
                           len(series) == len(v) and abs(float(series[-1]) - want) <= 1e-9 * max(want, 1e-300), inputs, detail={'got': float(series[-1]), 'want': want})
            else:
                a_ref = par['a_ref'] * peak
                pk_c = np.where(pk < par['cut_off'] * peak, 1.0e-14, pk)
                with np.errstate(all='ignore'):
                    want = float(np.sum(0.5 * (pk_c[pk_c > 0] / a_ref) ** (1 / par['b'])))
                ctx.oracle('C13.d (sweep) final equivalent-cycle count == sum over the switched peaks of 0.5*(|peak|/a_ref)^(1/b) (peaks below cut_off*max count as 1e-14)',
                           len(series) == len(v) and abs(float(series[-1]) - want) <= 1e-9 * max(want, 1e-300), inputs, detail={'got': float(series[-1]), 'want': want})


_run_main_sw = run


def run(ctx):
    _run_main_sw(ctx)
    extras_sweeps(ctx)
    ctx.flush()
