"""C13 — peak-only series conserve total variation; equivalent-cycle measures are mutually inverse."""
import itertools
from fractions import Fraction

import numpy as np

import gen
from core import fr, w_rat, w_rats, w_floats, w_float, p_rats, p_floats, cmp_exact, cmp_budget, call_impl

RULE = ("peak-only series: exhaustive over the 5-level alphabet {-2..2} up to length 6 (quick) / 7 (thorough) + random "
        "integer/dyadic/plateau/offset series up to length 2000 (exact comparison: integer and dyadic inputs); power-law "
        "measures: random records, b in (0.05, 1], cut_off in [0, 0.1], scalar and array b (Float twin, budget 1e-9). "
        "distinct = hash of the series (+parameters); non-trivial = length >= 3 and not constant")
TIE = "correspondence (hand models Model/Peaks.lean, Model/PowerLaw.lean)"
PROP_MODULES = ['C13', 'C13PowerLaw', 'C13Scale', 'C13Gen']
NOT_PROVED = ["pow rounding in the power-law measures (Float twin vs impl, measured)",
              "inverse relation for cut_off > 0 (approximate by construction; evaluated numerically only)"]


def tv(v):
    return sum(abs(b - a) for a, b in zip(v, v[1:]))


def run(ctx):
    from eqsig.fns import peaks_and_crossings as pc
    rng = ctx.rng
    maxlen = 6 if ctx.tier == 'quick' else 7
    n_random = 300 if ctx.tier == 'quick' else 3000
    corpus = [(0, 2, 1, 2, 0, 1, 0, -1, 0, 1, 0), (3, 3, 1, 2, 2, 0), (1, 1, 2, 1), (5, 1, 3, -1), (0, -1, -1, 2), (2, 1)]

    def one(v):
        arr = np.array(v, dtype=float)
        vv = [fr(x) for x in v]
        nonconst = len(set(v)) > 1
        ctx.count_case(tuple(v), len(v) >= 3 and nonconst,
                       sample={'fn': 'determine_peaks_only_delta_series', 'values': list(v)} if ctx.evaluations % 4001 == 0 else None)
        snap = arr.copy()
        rd = call_impl(pc.determine_peaks_only_delta_series, arr)
        rp = call_impl(pc.determine_pseudo_cyclic_peak_only_series, arr)
        ctx.oracle('input array unchanged', np.array_equal(arr, snap), inputs={'values': list(v)})
        ctx.corr('determine_peaks_only_delta_series', f"delta_series|{w_rats(v)}", rd,
                 lambda outs, val: cmp_exact(list(val), p_rats(outs[0])), inputs={'values': list(v)})
        ctx.corr('determine_pseudo_cyclic_peak_only_series', f"pseudo_cyclic|{w_rats(v)}", rp,
                 lambda outs, val: cmp_exact(list(val), p_rats(outs[0])), inputs={'values': list(v)})
        if not nonconst or rd[0] != 'ok' or rp[0] != 'ok':
            return
        P = [int(p) for p in pc.get_peak_array_indices(arr)]
        d = [fr(x) for x in rd[1]]
        p = [fr(x) for x in rp[1]]
        inputs = {'values': list(v)}
        ctx.oracle('C13.a delta series has the record length and is zero away from peaks',
                   len(d) == len(v) and all(d[i] == 0 for i in range(len(v)) if i not in set(P)), inputs, detail={'delta': rd[1], 'peaks': P})
        ctx.oracle('C13.a |delta| at the k-th peak == |change between consecutive peak values|',
                   all(abs(d[P[k]]) == abs(vv[P[k]] - vv[P[k - 1]]) for k in range(1, len(P))) and d[0] == 0, inputs,
                   detail={'delta': rd[1], 'peaks': P})
        ctx.oracle('C13.a sum|delta| == total variation', sum(abs(x) for x in d) == tv(vv), inputs, detail={'delta': rd[1]})
        ctx.oracle('C13.a |sum delta| == |x[-1]-x[0]|', abs(sum(d)) == abs(vv[-1] - vv[0]), inputs, detail={'delta': rd[1]})
        last_dir = 1 if vv[P[-1]] > vv[P[-2]] else -1
        want = tv(vv) / 2 + (vv[-1] - vv[0]) * last_dir / 2
        ctx.oracle('C13.b sum(pseudo-cyclic) == TV/2 + (x[-1]-x[0])*dir/2', sum(p) == want, inputs,
                   detail={'series': rp[1], 'sum': float(sum(p)), 'want': float(want)})
        ctx.oracle('C13.b pseudo-cyclic series is zero away from peaks', all(p[i] == 0 for i in range(len(v)) if i not in set(P)), inputs)
        c = rng.choice([-3.0, 0.5, 2.0, 7.0])
        sh = arr + c
        if all(fr(x) == fr(y) + fr(c) for x, y in zip(sh, arr)):
            d2 = pc.determine_peaks_only_delta_series(sh)
            p2 = pc.determine_pseudo_cyclic_peak_only_series(sh)
            ctx.oracle('C13.c both series invariant under a constant shift',
                       [fr(x) for x in d2] == d and [fr(x) for x in p2] == p, {'values': list(v), 'shift': c})

    for v in corpus:
        ctx.hist('corpus')
        one(v)
    for n in range(2, maxlen + 1):
        for v in itertools.product(range(-2, 3), repeat=n):
            ctx.hist(f'exhaustive/5-level/len={n}')
            one(v)
    ctx.flush()
    for i in range(n_random):
        n = gen.log_int(rng, 2, 300 if ctx.tier == 'quick' else 2000)
        kind = rng.choice(['plateau', 'int', 'dyadic', 'offset-plateau', 'tiny-scale', 'near-tie'])
        if kind == 'tiny-scale':
            # exact power-of-two scaling keeps the record dyadic-safe: steps far below any absolute tolerance must still count
            v = gen.dyadic_record(rng, n) * 2.0 ** -rng.choice([30, 40, 60])
        elif kind == 'near-tie':
            v = gen.int_record(rng, n) + np.array([rng.choice([0, 1, -1, 2]) * 2.0 ** -rng.choice([28, 34, 40]) for _ in range(n)])
        elif kind == 'plateau':
            v = gen.plateau_record(rng, n)
        elif kind == 'offset-plateau':
            v = gen.plateau_record(rng, n, levels=(3, 4, 5, 7), p_repeat=0.6)
        elif kind == 'int':
            v = gen.int_record(rng, n)
        else:
            v = gen.dyadic_record(rng, n)
        ctx.hist('random/' + kind)
        one(tuple(float(x) for x in v))
    ctx.flush()
    power_law(ctx)
    ctx.flush()


def power_law(ctx):
    """C13.d — evaluated on the impl (metamorphic relations, budget 1e-9) and against the Float twin of the model."""
    from eqsig import im
    rng = ctx.rng
    n_cases = 60 if ctx.tier == 'quick' else 600
    rel = 1e-9
    for i in range(n_cases):
        n = gen.log_int(rng, 8, 400)
        kind, v = gen.any_record(rng, n)
        if kind in ('spike', 'step') or len(set(v.tolist())) < 3:
            v = gen.noise_record(rng, n)
            kind = 'noise'
        b = rng.choice([0.05001, 0.1, 0.25, 0.34, 0.5, 1.0]) if rng.random() < 0.6 else rng.uniform(0.0501, 1.0)
        cut = rng.choice([0.0, 0.0, 0.01, 0.05, 0.1])
        peak = float(np.max(np.abs(v)))
        a_ref = peak * rng.choice([0.3, 0.65, 1.0, 2.0])
        n_cyc = rng.choice([1, 5, 15, 2.5])
        ctx.hist('powerlaw/' + kind)
        ctx.hist(f'powerlaw/cut_off={"0" if cut == 0 else ">0"}')
        ctx.count_case(('pl', v.tobytes(), b, cut, a_ref, n_cyc), True,
                       sample={'fn': 'calc_n_cyc_array_w_power_law', 'n': n, 'b': b, 'cut_off': cut, 'a_ref': a_ref} if i < 2 else None)
        inputs = {'values': v, 'b': b, 'cut_off': cut, 'a_ref': a_ref, 'n_cyc': n_cyc}
        rn = call_impl(im.calc_n_cyc_array_w_power_law, v, a_ref, b, cut_off=cut)
        ra = call_impl(im.calc_cyc_amp_array_w_power_law, v, n_cyc, b)
        ctx.corr('calc_n_cyc_array_w_power_law', f"n_cyc_power|{w_float(a_ref)}|{w_float(b)}|{w_float(cut)}|{w_floats(v)}|{w_rats(v)}", rn,
                 lambda outs, val: _cmpf(ctx, 'calc_n_cyc_array_w_power_law', np.asarray(val).reshape(-1), p_floats(outs[0])), inputs=inputs)
        ctx.corr('calc_cyc_amp_array_w_power_law', f"cyc_amp_power|{w_float(n_cyc)}|{w_float(b)}|{w_floats(v)}|{w_rats(v)}", ra,
                 lambda outs, val: _cmpf(ctx, 'calc_cyc_amp_array_w_power_law', np.asarray(val).reshape(-1), p_floats(outs[0])), inputs=inputs)
        if rn[0] != 'ok' or ra[0] != 'ok':
            continue
        ns = np.asarray(rn[1]).reshape(-1)
        am = np.asarray(ra[1]).reshape(-1)
        ctx.oracle('C13.d series have the record length', len(ns) == n and len(am) == n, inputs)
        ctx.oracle('C13.d equivalent cycles non-decreasing', bool(np.all(np.diff(ns) >= 0)), inputs)
        ctx.oracle('C13.d equivalent amplitude non-decreasing', bool(np.all(np.diff(am) >= -1e-12 * max(1.0, am.max()))), inputs)
        if cut == 0.0:
            # mutually inverse: amplitude for N = cycles(a_ref)[-1] is a_ref.  The cycle series is a 'previous' step function, so its
            # value at the last sample counts every switched peak only if the last switched peak is not the last sample: use the
            # defining sums instead of the last sample when it is.
            n0 = im.calc_n_cyc_array_w_power_law(v, a_ref, b, cut_off=0.0).reshape(-1)
            pk = np.abs(np.take(v, __import__('eqsig').fns.peaks_and_crossings.get_switched_peak_array_indices(v)))
            n_tot = float(np.sum(0.5 / (a_ref / pk[pk > 0]) ** (1 / b))) if np.any(pk > 0) else 0.0
            # the cycle series is a 'previous' step function whose last knot sits at len(values): its final sample counts every
            # switched peak, including one on the final sample
            ctx.oracle('C13.d final equivalent-cycle count == sum over the switched peaks of 0.5*(|peak|/a_ref)^(1/b)',
                       abs(float(n0[-1]) - n_tot) <= 1e-9 * max(n_tot, 1e-300), inputs, detail={'series_last': float(n0[-1]), 'sum': n_tot})
            if n0[-1] > 0:
                amp = im.calc_cyc_amp_array_w_power_law(v, float(n0[-1]), b)[-1]
                ctx.oracle('C13.d mutual inverse: amplitude(N = cycles(a_ref)) == a_ref', abs(amp - a_ref) <= 1e-8 * a_ref, inputs,
                           detail={'amp': float(amp), 'a_ref': a_ref, 'n_series_last': float(n0[-1])})
        alpha = rng.choice([0.5, 2.0, 3.0, 10.0])
        am2 = im.calc_cyc_amp_array_w_power_law(alpha * v, n_cyc, b).reshape(-1)
        ctx.oracle('C13.d amplitude scales linearly with the record', bool(np.allclose(am2, alpha * am, rtol=1e-9, atol=1e-12 * peak)), inputs,
                   detail={'alpha': alpha})
        ns2 = im.calc_n_cyc_array_w_power_law(alpha * v, alpha * a_ref, b, cut_off=cut).reshape(-1)
        # peaks below the cut-off are replaced by the ABSOLUTE constant 1e-14, which does not scale with the record: their (negligible)
        # contribution 0.5*(1e-14/a_ref)^(1/b) per peak changes by the factor alpha^(-1/b); allow exactly that much
        npk = max(1, len(__import__('eqsig').fns.peaks_and_crossings.get_switched_peak_array_indices(v)))
        repl = 0.0 if cut == 0 else npk * 0.5 * max(1.0, alpha ** (-1 / b)) * (1e-14 / a_ref) ** (1 / b)
        ctx.oracle('C13.d cycles invariant when record and reference amplitude scale together',
                   bool(np.allclose(ns2, ns, rtol=1e-8, atol=2 * repl + 1e-9 * float(ns.max()) + 1e-300)), inputs, detail={'alpha': alpha})
        comb = im.calc_cyc_amp_combined_arrays_w_power_law(v, v, n_cyc, b)
        gm = im.calc_cyc_amp_gm_arrays_w_power_law(v, v, n_cyc, b)
        ctx.oracle('C13.d two identical components: combined == 2^b * single', bool(np.allclose(comb, 2 ** b * am, rtol=1e-9, atol=1e-300)), inputs)
        ctx.oracle('C13.d two identical components: geometric mean == single', bool(np.allclose(gm, am, rtol=1e-9, atol=1e-300)), inputs)
        if i % 3 == 0:
            # the same numbers in integer / single-precision / list containers: all four functions must return the same series
            vi = gen.int_record(rng, n, -9, 9)
            if len(set(vi.tolist())) >= 3 and float(np.max(np.abs(vi))) > 0:
                a_r = float(np.max(np.abs(vi))) * 0.65
                ref = [im.calc_n_cyc_array_w_power_law(vi, a_r, b, cut_off=cut), im.calc_cyc_amp_array_w_power_law(vi, n_cyc, b),
                       im.calc_cyc_amp_gm_arrays_w_power_law(vi, vi[::-1].copy(), n_cyc, b),
                       im.calc_cyc_amp_combined_arrays_w_power_law(vi, vi[::-1].copy(), n_cyc, b)]
                for lab, c in gen.container_variants(vi, floats32=False, arrays_only=True):   # float32 records are computed in single precision; calc_n_cyc_… rejects lists (TypeError from abs) on the pinned tree
                    ctx.hist('powerlaw/container/' + lab)
                    c2 = c[::-1] if not isinstance(c, np.ndarray) else c[::-1].copy()
                    got = [call_impl(im.calc_n_cyc_array_w_power_law, c, a_r, b, cut_off=cut), call_impl(im.calc_cyc_amp_array_w_power_law, c, n_cyc, b),
                           call_impl(im.calc_cyc_amp_gm_arrays_w_power_law, c, c2, n_cyc, b),
                           call_impl(im.calc_cyc_amp_combined_arrays_w_power_law, c, c2, n_cyc, b)]
                    for nm, r0, g in zip(('n_cyc', 'cyc_amp', 'gm', 'combined'), ref, got):
                        ctx.oracle('C13.d power-law series do not depend on the container / dtype holding the record (%s)' % nm,
                                   g[0] == 'ok' and np.shape(g[1]) == np.shape(r0) and bool(np.allclose(np.asarray(g[1], dtype=float), r0, rtol=1e-9, atol=1e-300)),
                                   {'values': vi, 'container': lab, 'b': b, 'cut_off': cut, 'a_ref': a_r, 'n_cyc': n_cyc},
                                   detail={'got': g[1] if g[0] != 'ok' else np.asarray(g[1], dtype=float).reshape(-1)[-3:], 'want_tail': np.asarray(r0).reshape(-1)[-3:]})
        if i % 5 == 0:
            bb = np.array([b, min(1.0, b * 1.5)])
            ra2 = im.calc_cyc_amp_array_w_power_law(v, n_cyc, bb)
            ctx.oracle('C13.d array b: column 0 equals the scalar-b series', bool(np.allclose(ra2[:, 0], am, rtol=1e-12)) and ra2.shape == (n, 2), inputs)


def _cmpf(ctx, fn, impl, model):
    msg, g = cmp_budget([float(x) for x in impl], model, Fraction(1, 10**9), abs_floor=Fraction(1, 10**300))
    ctx.gap(fn, g)
    return msg
