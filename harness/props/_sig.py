"""Defaults and parameter order of the anchored public functions (lessons of seeded round 4).

A caller may (a) omit an optional argument, (b) pass the documented default explicitly, (c) pass arguments positionally in the
documented order.  All three must give the same result -- also when ANOTHER optional argument has a non-default value (a default
that silently starts to depend on a sibling argument, a parameter inserted in front of an existing one, a default changed in a
wrapper but not in the function it wraps).  `PINNED` records, per function, the optional parameters in order with their defaults
as documented by the pinned tree; the check is behavioural: it never compares signatures, it compares results.

`run_sig(ctx, prop)` is called at the end of every property module's run for the entries of that property.
"""
import warnings

import numpy as np

from core import call_impl


def canon(r):
    """a comparable, hashable-free canonical form of a result (arrays by dtype-independent values, signal objects by values/dt/label)"""
    import eqsig
    if isinstance(r, eqsig.Signal):
        return ('signal', type(r).__name__, canon(np.asarray(r.values)), np.float64(r.dt).tobytes(), str(r.label))
    if isinstance(r, (tuple, list)):
        return ('seq', [canon(x) for x in r])
    if isinstance(r, np.ndarray):
        a = np.asarray(r)
        if a.dtype.kind == 'c':
            return ('carr', a.shape, a.real.astype(float).tobytes(), a.imag.astype(float).tobytes())
        try:
            return ('arr', a.shape, a.astype(float).tobytes())
        except (TypeError, ValueError):
            return ('obj', repr(a))
    if isinstance(r, (bool, np.bool_)):
        return ('bool', bool(r))
    if isinstance(r, (int, float, np.integer, np.floating)):
        return ('num', np.float64(r).tobytes())          # by bit pattern: NaN (mean of an empty side) must compare equal to itself
    if r is None:
        return ('none',)
    return ('repr', repr(r))


def same(a, b):
    if a[0] != b[0]:
        return False
    if a[0] == 'ok':
        return canon(a[1]) == canon(b[1])
    return a[1] == b[1]


def _rec(rng, n=60):
    return np.array([rng.randint(-24, 24) / 8 for _ in range(n)])


def entries(prop):
    """[(label, call(*args, **kw) -> result, req(rng) -> list of required positional arguments, [(optional name, pinned default)…],
        {name: [non-default values]})]"""
    import eqsig
    from eqsig import im, sdof, displacements as sd, surface as sf, multiple, loader, stockwell
    from eqsig.fns import peaks_and_crossings as pc, frequency as fq, generic, average, time_shift as tsh, time_step as ts

    def asig(rng, n=60, dt=0.01):
        return eqsig.AccSignal(_rec(rng, n), dt)

    def meth(name, state):
        def call(obj, *a, **k):
            ret = getattr(obj, name)(*a, **k)
            return (ret, [getattr(obj, s) for s in state])
        return call
    E = {
        'C01': [('AccSignal.response_series', meth('response_series', []), lambda rng: [asig(rng)], [('response_times', None), ('xi', -1)],
                 {'response_times': [np.array([0.03, 0.3])], 'xi': [0.1, 0]})],
        'C03': [('AccSignal.gen_response_spectrum', meth('gen_response_spectrum', ['s_a', 's_v', 's_d', 'response_times']), lambda rng: [asig(rng)],
                 [('response_times', None), ('xi', -1), ('min_dt_ratio', 4)], {'response_times': [np.array([0.045, 0.3]), np.array([0.0, 0.042, 1.0])], 'xi': [0.1], 'min_dt_ratio': [1, 8]}),
                ('AccSignal.generate_response_spectrum', meth('generate_response_spectrum', ['s_a', 's_v', 's_d', 'response_times']), lambda rng: [asig(rng)],
                 [('response_times', None), ('xi', -1), ('min_dt_ratio', 4)], {'response_times': [np.array([0.045, 0.3])], 'xi': [0.1], 'min_dt_ratio': [8]}),
                ('sdof.calc_input_energy_spectrum', sdof.calc_input_energy_spectrum, lambda rng: [asig(rng)], [('periods', None), ('xi', None), ('series', False)],
                 {'periods': [np.array([0.2, 0.5])], 'xi': [0.1, 0], 'series': [True]}),
                ('sdof.calc_resp_uke_spectrum', sdof.calc_resp_uke_spectrum, lambda rng: [asig(rng)], [('periods', None), ('xi', None)], {'periods': [np.array([0.2, 0.5])], 'xi': [0.1]}),
                ('im.calc_asi', im.calc_asi, lambda rng: [asig(rng)], [('xi', 0.05), ('periods', None)], {'xi': [0.1], 'periods': [np.array([0.2, 0.5, 0.9])]})],
        'C04': [('AccSignal.gen_response_spectrum [object state]', meth('gen_response_spectrum', ['s_a', 's_v', 's_d']), lambda rng: [asig(rng)],
                 [('response_times', None), ('xi', -1), ('min_dt_ratio', 4)], {'response_times': [np.array([0.045, 0.3])]})],
        'C06': [('fq.calc_fa_spectrum', fq.calc_fa_spectrum, lambda rng: [asig(rng, 50)], [('n', None), ('p2_plus', None)], {'n': [51, 80], 'p2_plus': [2]}),
                ('fq.generate_fa_spectrum', fq.generate_fa_spectrum, lambda rng: [asig(rng, 50)], [('n_pad', True)], {'n_pad': [False]}),
                ('Signal.gen_fa_spectrum', meth('gen_fa_spectrum', ['fa_spectrum', 'fa_frequencies']), lambda rng: [asig(rng, 50)], [('p2_plus', 0), ('n', None)], {'p2_plus': [1, 3], 'n': [51, 64]})],
        'C07': [('fq.calc_smooth_fa_spectrum', fq.calc_smooth_fa_spectrum, lambda rng: [np.arange(33) / 0.66, np.abs(_rec(rng, 33)) + 0.1], [('smooth_fa_frequencies', None), ('band', 40)],
                 {'smooth_fa_frequencies': [np.array([1.0, 5.0, 20.0])], 'band': [20]}),
                ('fq.calc_smoothing_matrix_konno_1998', fq.calc_smoothing_matrix_konno_1998, lambda rng: [np.arange(33) / 0.66], [('smooth_fa_frequencies', None), ('band', 40)],
                 {'smooth_fa_frequencies': [np.array([1.0, 5.0, 20.0])], 'band': [20]}),
                ('Signal.gen_smooth_fa_spectrum', meth('gen_smooth_fa_spectrum', ['smooth_fa_spectrum', 'smooth_fa_freqs']), lambda rng: [asig(rng)], [('smooth_fa_freqs', None), ('band', 40)],
                 {'smooth_fa_freqs': [np.array([1.0, 5.0, 20.0])], 'band': [20]}),
                ('im.calc_bandwidth_freqs', im.calc_bandwidth_freqs, lambda rng: [asig(rng)], [('ratio', 0.707)], {'ratio': [0.5]})],
        'C08': [('sd.calc_velo_and_disp_from_accel_arr', sd.calc_velo_and_disp_from_accel_arr, lambda rng: [_rec(rng), 0.01], [('trap', True)], {'trap': [False]}),
                ('sd.velocity_and_displacement_from_acceleration', sd.velocity_and_displacement_from_acceleration, lambda rng: [_rec(rng), 0.01], [('trap', True)], {'trap': [False]}),
                ('AccSignal.generate_displacement_and_velocity_series', meth('generate_displacement_and_velocity_series', ['velocity', 'displacement']), lambda rng: [asig(rng)],
                 [('trap', True)], {'trap': [False]})],
        'C10': [('im.calc_sig_dur_vals', im.calc_sig_dur_vals, lambda rng: [_rec(rng), 0.5], [('start', 0.05), ('end', 0.95), ('se', False)], {'start': [0.25], 'end': [0.75], 'se': [True]}),
                ('im.calc_sig_dur', im.calc_sig_dur, lambda rng: [asig(rng, 60, 0.5)], [('start', 0.05), ('end', 0.95), ('im', None), ('se', False)],
                 {'start': [0.25], 'end': [0.75], 'se': [True]}),
                ('im.calc_brac_dur', im.calc_brac_dur, lambda rng: [asig(rng, 60, 0.5), 1.0], [('se', False)], {'se': [True]})],
        'C11': [('pc.get_peak_array_indices', pc.get_peak_array_indices, lambda rng: [_rec(rng)], [('ptype', 'all')], {'ptype': ['max', 'min']}),
                ('pc.get_n_cyc_array', pc.get_n_cyc_array, lambda rng: [_rec(rng)], [('opt', 'all'), ('start', 'origin')], {'opt': ['switched'], 'start': ['peak']})],
        'C12': [('pc.get_zero_crossings_array_indices', pc.get_zero_crossings_array_indices, lambda rng: [np.round(_rec(rng))], [('keep_adj_zeros', False), ('tol', 0.0)],
                 {'keep_adj_zeros': [True], 'tol': [0.5]}),
                ('pc.get_switched_peak_array_indices', pc.get_switched_peak_array_indices, lambda rng: [_rec(rng)], [('tol', 0.0)], {'tol': [0.5]})],
        'C13': [('im.calc_n_cyc_array_w_power_law', im.calc_n_cyc_array_w_power_law, lambda rng: [_rec(rng), 1.5, 0.3], [('cut_off', 0.01)], {'cut_off': [0.0, 0.1]})],
        'C14': [('ts.interp_array_to_approx_dt', ts.interp_array_to_approx_dt, lambda rng: [_rec(rng, 61), 0.03], [('target_dt', 0.01), ('even', True)], {'target_dt': [0.02, 0.06], 'even': [False]}),
                ('ts.interp_to_approx_dt', ts.interp_to_approx_dt, lambda rng: [asig(rng, 61, 0.03)], [('target_dt', 0.01), ('even', True)], {'target_dt': [0.02, 0.06], 'even': [False]}),
                ('ts.resample_to_approx_dt', ts.resample_to_approx_dt, lambda rng: [asig(rng, 60, 0.02)], [('target_dt', 0.01), ('even', True)], {'target_dt': [0.005, 0.04], 'even': [False]})],
        'C15': [('stockwell.transform', stockwell.transform, lambda rng: [_rec(rng, 32)], [('interp', False)], {}),
                ('stockwell.transform_w_scipy_fft', stockwell.transform_w_scipy_fft, lambda rng: [_rec(rng, 32)], [('interp', False)], {})],
        'C17': [('Signal.remove_poly', meth('remove_poly', ['values']), lambda rng: [eqsig.Signal(_rec(rng), 0.01)], [('poly_fit', 0)], {'poly_fit': [2]}),
                ('generic.remove_poly', generic.remove_poly, lambda rng: [_rec(rng)], [('poly_fit', 0)], {'poly_fit': [2]}),
                ('Signal.running_average', meth('running_average', ['values']), lambda rng: [eqsig.Signal(_rec(rng), 0.01)], [('width', 1)], {'width': [4]}),
                ('Signal.remove_average', meth('remove_average', ['values']), lambda rng: [eqsig.Signal(_rec(rng), 0.01)], [('section', -1)], {'section': [10]}),
                ('Signal.butter_pass', meth('butter_pass', ['values']), lambda rng: [eqsig.Signal(_rec(rng, 400), 0.01)], [('cut_off', (0.1, 15))], {'cut_off': [(None, 10.0)]})],
        'C18': [('multiple.compute_rotated', multiple.compute_rotated, lambda rng: [asig(rng), asig(rng)], [('angle_off_ns', 0.0), ('parameter', None)], {'parameter': ['pga'], 'angle_off_ns': [30.0]}),
                ('Signal.get_section_average', meth('get_section_average', []), lambda rng: [eqsig.Signal(_rec(rng), 0.01)], [('start', 0), ('end', -1), ('index', False)],
                 {'start': [0.1], 'end': [0.4]})],
        'C19': [(nm, getattr(sf, nm), lambda rng: [asig(rng, 80), np.array([0.0, 0.013, 0.05])],
                 [('nodal', True), ('up_red', 1.0), ('down_red', 1.0), ('stt', 0.0), ('trim', False), ('start', False)],
                 {'nodal': [False], 'up_red': [0.8], 'down_red': [0.6], 'stt': [0.02], 'trim': [True], 'start': [True]})
                for nm in ('calc_surface_energy', 'calc_cum_abs_surface_energy', 'get_time_shift_motions')] +
               [('tsh.put_array_in_2d_array', tsh.put_array_in_2d_array, lambda rng: [_rec(rng, 12), np.array([0, 2, 3])], [('clip', 'none')], {'clip': ['end', 'start', 'both']}),
                ('tsh.join_values_w_shifts', tsh.join_values_w_shifts, lambda rng: [_rec(rng, 12), np.array([0, 2, 3])], [('jtype', 'add')], {'jtype': ['sub']})],
        'C20': [('average.calc_roll_av_vals', average.calc_roll_av_vals, lambda rng: [_rec(rng, 20), 3], [('mode', 'forward')], {'mode': ['backward', 'centre', 'center']}),
                ('average.calc_step_fn_vals_error', average.calc_step_fn_vals_error, lambda rng: [_rec(rng, 12)], [('pow', 1), ('dir', None)], {'pow': [2], 'dir': ['down', 'up']}),
                ('average.calc_step_fn_steps_vals', average.calc_step_fn_steps_vals, lambda rng: [_rec(rng, 12)], [('ind', None)], {'ind': [4]}),
                ('generic.interp_left', generic.interp_left, lambda rng: [np.array([0.5, 1.5, 2.0]), np.array([0.0, 1.0, 2.0])], [('y', None)], {'y': [np.array([3.0, 5.0, 4.0])]})],
    }
    if prop == 'C16':
        import os
        from core import WORK
        os.makedirs(WORK, exist_ok=True)
        path = os.path.join(WORK, 'c16-sig-defaults.txt')
        loader.save_signal(path, eqsig.AccSignal(np.array([0.5, -1.25, 2.0, 0.125]), 0.02, label='my label 7'))
        E['C16'] = [('loader.load_asig', loader.load_asig, lambda rng: [path], [('load_label', False), ('m', 1.0)], {'load_label': [True], 'm': [0.5, 9.8]}),
                    ('loader.load_sig', loader.load_sig, lambda rng: [path], [('m', 1.0)], {'m': [0.5]}),
                    ('loader.load_signal', loader.load_signal, lambda rng: [path], [('astype', 'sig')], {'astype': ['acc_sig', 'signal']})]
    return E.get(prop, [])


def run_sig(ctx, prop):
    import random
    for label, f, req, opts, alts in entries(prop):
        seed = ctx.rng.randint(0, 2 ** 30)

        def call(pos=(), kw=None, f=f, req=req, seed=seed):
            with warnings.catch_warnings():
                warnings.simplefilter('ignore')
                return call_impl(lambda: f(*req(random.Random(seed)), *pos, **(kw or {})))
        base = call()
        if base[0] != 'ok':
            ctx.hist(f'defaults/{label}: base call raises {base[1]} - skipped')
            continue
        names = [n for n, _ in opts]
        defs = [d for _, d in opts]
        clause = f"{prop} {label}: omitting an optional argument == passing its documented default == passing it positionally in the documented order"
        for i, (n, d) in enumerate(opts):
            ctx.hist(f'defaults/{label}')
            r_kw = call(kw={n: d})
            r_pos = call(pos=tuple(defs[:i + 1]))
            ok = same(base, r_kw) and same(base, r_pos)
            ctx.oracle(clause, ok, {'function': label, 'optional': n, 'documented_default': repr(d), 'other_arguments': 'defaults'},
                       detail=None if ok else {'keyword_differs': not same(base, r_kw), 'positional_differs': not same(base, r_pos),
                                               'outcomes': (base[0], r_kw[0] if r_kw[0] == 'ok' else r_kw[1], r_pos[0] if r_pos[0] == 'ok' else r_pos[1])})
        for j, nj in enumerate(names):
            for a in alts.get(nj, []):
                r1 = call(kw={nj: a})
                r1p = call(pos=tuple(defs[:j]) + (a,))
                okp = same(r1, r1p)
                ctx.oracle(clause, okp, {'function': label, 'optional': nj, 'value': repr(a), 'passed': 'positionally after the documented defaults of the preceding parameters'},
                           detail=None if okp else {'outcomes': (r1[0] if r1[0] == 'ok' else r1[1], r1p[0] if r1p[0] == 'ok' else r1p[1])})
                for i, (n, d) in enumerate(opts):
                    if i == j:
                        continue
                    r2 = call(kw={nj: a, n: d})
                    ok = same(r1, r2)
                    ctx.oracle(clause, ok, {'function': label, 'optional': n, 'documented_default': repr(d), 'other_arguments': {nj: repr(a)}},
                               detail=None if ok else {'outcomes': (r1[0] if r1[0] == 'ok' else r1[1], r2[0] if r2[0] == 'ok' else r2[1])})
