"""C20 — interpolation, averaging, step-fit and design-spectrum helpers match their definitions."""
import itertools
import math
from fractions import Fraction

import numpy as np

import gen
from core import fr, w_rat, w_rats, w_float, w_floats, w_bool, p_rats, p_floats, cmp_exact, cmp_budget, call_impl

RULE = ("interp2d: strictly increasing node sets (1..12 nodes; dyadic gaps 2^k for the exact third, random gaps >= 1e-6 otherwise), "
        "tables of width 1..4, queries on a node / exactly midway (argmin tie) / between / below / above; "
        "interp_left: sorted node arrays with ties, scalar and array queries, y given or None, queries below the first node (AssertionError); "
        "calc_roll_av_vals: every window 1..len for short series (exhaustive over steps and the 3 modes), random windows for long ones; "
        "step fit: exhaustive over all series over {-2..2} up to length 4 (quick) / {-2..3} up to length 5 (thorough) as float arrays, "
        "integer arrays and Python int lists, plus random positive / negative / mixed series, p in {1,2}, dir in {None,up,down}; "
        "design spectra: period grid on [0,6], every breakpoint and its +-1 ulp neighbours, classes C/D/E, several (Z,R,N). "
        "distinct = hash of (function, inputs); non-trivial = series/node set of length >= 3 that is not constant (periods: T > 0)")
TIE = ("translator (the c_h_factor / sd_nzs tables are regenerated from eqsig/design_spectra.py; rfl bridge Props/C20Gen to the model) + correspondence (hand models Model/Fns.lean on exact rationals, Model/DesignSpectra.lean instantiated at Float); "
       "exact comparison on dyadic-safe inputs, budget 1e-9 otherwise")
NOT_PROVED = ["IEEE rounding of the float pipelines (measured per case; budget R/T 1e-9)",
              "libm pow(x, 0.75) and x**2 in the design spectra (Float twin; x**2 vs x*x differ by 1 ulp on ~0.1 % of doubles)",
              "np.searchsorted on unsorted node arrays (outside the domain, not generated)",
              "default split of calc_step_fn_steps_vals when two split errors tie to rounding: any minimiser within the rounding budget is accepted"]
EXHAUSTIVE = True

R9 = Fraction(1, 10**9)


# ----------------------------------------------------------------------------------------------------------------------
# helpers
# ----------------------------------------------------------------------------------------------------------------------

PROP_MODULES = ['C20', 'C20Gen', 'C20GenFns', 'C20GenFns2', 'C20DirRule']

def fmean(l):
    return sum(l, Fraction(0)) / len(l)


def as_input(v, container):
    """the same numbers as a float array, an integer array or a Python list (ints stay ints)"""
    if container == 'float_array':
        return np.array(v, dtype=float)
    if container == 'int_array':
        return np.array([int(x) for x in v], dtype=np.int64)
    if container == 'int_list':
        return [int(x) for x in v]
    if container == 'float_list':
        return [float(x) for x in v]
    if container == 'float32_array':      # only for values exactly representable in single precision (dyadic / whole numbers)
        a = np.array(v, dtype=np.float32)
        assert np.array_equal(a.astype(float), np.array(v, dtype=float))
        return a
    raise ValueError(container)


def flat(val):
    return [x for x in np.asarray(val, dtype=float).ravel().tolist()]


# ----------------------------------------------------------------------------------------------------------------------
# C20.a interp2d
# ----------------------------------------------------------------------------------------------------------------------

def spec_interp_row(q, xf, f):
    """column-wise linear interpolation with end clamping, exact"""
    n = len(xf)
    if q <= xf[0]:
        return list(f[0])
    if q >= xf[n - 1]:
        return list(f[n - 1])
    i = max(j for j in range(n - 1) if xf[j] <= q)
    s = (q - xf[i]) / (xf[i + 1] - xf[i])
    return [(1 - s) * a + s * b for a, b in zip(f[i], f[i + 1])]


def do_interp2d(ctx, x, xf, f, exact, kind):
    from eqsig.fns.generic import interp2d
    nr = len(f)
    w = len(f[0]) if nr else 0
    ctx.hist('interp2d/' + kind)
    ctx.hist('interp2d/budget=' + ('E' if exact else 'R'))
    ctx.count_case(('interp2d', tuple(x), tuple(xf), tuple(map(tuple, f))), len(xf) >= 3,
                   sample={'fn': 'interp2d', 'x': list(x), 'xf': list(xf), 'f': [list(r) for r in f]} if ctx.evaluations % 997 == 0 else None)
    ax = np.array(x, dtype=float)
    axf = np.array(xf, dtype=float)
    af = np.array(f, dtype=float).reshape(nr, w)
    snap = (ax.copy(), axf.copy(), af.copy())
    res = call_impl(interp2d, ax, axf, af)
    inputs = {'x': list(x), 'xf': list(xf), 'f': [list(r) for r in f]}
    req = f"interp2d|{w_rats(x)}|{w_rats(xf)}|{nr}|{w}|{w_rats([v for r in f for v in r])}"

    def compare(outs, val, exact=exact):
        val = np.asarray(val)
        if val.shape != (len(x), w):
            return f"shape {val.shape}"
        if len(x) == 0:
            return None
        m = [v for row in outs for v in p_rats(row)]
        if exact:
            return cmp_exact(flat(val), m)
        msg, g = cmp_budget(flat(val), m, R9, scale=max(max(abs(fr(v)) for r in f for v in r), Fraction(1, 10**300)))
        ctx.gap('interp2d', g)
        return msg
    ctx.corr('interp2d', req, res, compare, inputs=inputs)
    if res[0] != 'ok':
        ctx.oracle('C20.a interp2d returns a table for strictly increasing nodes', False, inputs, detail=res)
        return
    out = np.asarray(res[1])
    ctx.oracle('C20.a interp2d output has one row per query and one column per table column', out.shape == (len(x), w), inputs,
               detail={'shape': out.shape})
    ctx.oracle('C20.a interp2d leaves its inputs unchanged',
               np.array_equal(ax, snap[0]) and np.array_equal(axf, snap[1]) and np.array_equal(af, snap[2]), inputs)
    if out.shape != (len(x), w):
        return
    fx = [fr(v) for v in xf]
    ff = [[fr(v) for v in r] for r in f]
    scale = max([abs(v) for r in ff for v in r] + [Fraction(1, 10**300)])
    for k, q in enumerate(x):
        fq = fr(q)
        want = spec_interp_row(fq, fx, ff)
        got = [fr(v) for v in out[k].tolist()]
        on_node = fq in fx
        outside = fq <= fx[0] or fq >= fx[-1]
        if exact or on_node or outside:
            ok = got == want      # s = 0 or 1 (or the clamp) gives the table row without any rounding
        else:
            ok = all(abs(a - b) <= R9 * scale for a, b in zip(got, want))
        where = 'on a node' if on_node else ('outside the node range' if outside else 'between nodes')
        ctx.oracle(f'C20.a table interpolation == column-wise linear interpolation with end clamping ({where})', ok,
                   {**inputs, 'query': q}, detail={'got': out[k].tolist(), 'want': [float(v) for v in want]})


def gen_interp2d(ctx):
    rng = ctx.rng
    # corpus: the docstring example, queries on nodes / midway / outside
    doc_f = [[0, 0, 0], [0, 1, 4], [2, 6, 2], [10, 10, 10]]
    do_interp2d(ctx, [0.5, 1, 2.2, 2.5], [0, 1, 2, 3], doc_f, False, 'corpus')
    do_interp2d(ctx, [0.5, 1, 2.5, -1, 7, 1.5, 0, 3], [0, 1, 2, 3], doc_f, True, 'corpus')
    do_interp2d(ctx, [-1.0, 2.0, 5.0], [2.0], [[1.5, -2.0]], True, 'corpus')
    do_interp2d(ctx, [], [1.0, 2.0], [[1.0], [2.0]], True, 'corpus')
    # small spacing on a huge level (epoch time stamps, absolute coordinates): spacing / magnitude far below 1e-10 although the spacing itself is
    # far above the documented absolute guard 1e-10 (round 9, seed C20-r9-2: the guard made relative); dyadic values, so everything is exact
    for level, gap in ((2.0 ** 31, 2.0 ** -7), (2.0 ** 40, 2.0 ** -6), (-2.0 ** 33, 2.0 ** -10), (2.0 ** 31, 1.0)):
        xf = [level + k * gap for k in range(9)]
        f = [[float(rng.randint(-40, 40)) / 4, float(k)] for k in range(9)]
        x = [xf[0] - gap, xf[0], xf[3], xf[3] + gap / 4, xf[4] + gap / 2, xf[7] + 3 * gap / 4, xf[8], xf[8] + 5 * gap]
        do_interp2d(ctx, x, xf, f, True, 'small spacing on a huge level')
    n_cases = 500 if ctx.tier == 'quick' else 12000
    for it in range(n_cases):
        exact = it % 3 == 0
        n = rng.choice([1, 2, 2, 3, 3, 4, 5, 7, 12])
        w = rng.choice([1, 2, 3, 4])
        if exact:
            x0 = rng.randint(-16, 16) / 4
            xf = [x0]
            for _ in range(n - 1):
                xf.append(xf[-1] + rng.choice([0.25, 0.5, 1.0, 2.0, 4.0]))
            f = [[rng.randint(-64, 64) / 8 for _ in range(w)] for _ in range(n)]
        else:
            x0 = rng.uniform(-10, 10)
            xf = [x0]
            for _ in range(n - 1):
                xf.append(xf[-1] + rng.choice([1e-6, 1e-3, 0.1, 1.0, 30.0]) * rng.uniform(1, 2))
            amp = rng.choice([1e-6, 1.0, 1.0, 1e6])
            f = [[rng.gauss(0, 1) * amp for _ in range(w)] for _ in range(n)]
        x = []
        for _ in range(rng.randint(1, 8)):
            c = rng.random()
            if c < 0.25:
                x.append(rng.choice(xf))
            elif c < 0.45 and n > 1:
                i = rng.randrange(n - 1)
                x.append((xf[i] + xf[i + 1]) / 2)
            elif c < 0.55:
                x.append(xf[0] - rng.choice([0.125, 1, 50]))
            elif c < 0.65:
                x.append(xf[-1] + rng.choice([0.125, 1, 50]))
            elif exact:
                i = rng.randrange(max(1, n - 1))
                hi = xf[min(i + 1, n - 1)]
                x.append(xf[i] + (hi - xf[i]) * rng.randint(0, 16) / 16)
            else:
                x.append(rng.uniform(xf[0] - 1, xf[-1] + 1))
        do_interp2d(ctx, x, xf, f, exact, 'dyadic' if exact else 'random')
    ctx.flush()
    # LARGE problems (queries x nodes beyond 10^5, 10^6): clamping outside the table, nodes and midpoints behave as for small tables
    for entry in ([(1000, 300)] if ctx.tier == 'quick' else [(1000, 300), (4000, 300), (300, 4000), (120, 1000)]) + \
            [(k, 300) for k in gen.hint_sizes(ctx, lo=13, hi=6000, cap=3)] + [(300, k) for k in gen.hint_sizes(ctx, lo=13, hi=6000, cap=3)] + \
            [(c // 300 + 1, 300, g) for c in gen.hint_sizes(ctx, lo=10000, hi=1500000, cap=2) for g in ('irregular', 'regular', 'nearly regular')]:      # source hints: queries, nodes, queries x nodes around every new integer constant (every grid kind)
        # node grids: irregular dyadic gaps (exact), exactly regular, and NEARLY regular (gaps within a few parts per million of their mean: clock
        # drift) — a bracket computed arithmetically from the mean spacing is wrong only on the last kind, for queries next to a node
        nq, nn = entry[0], entry[1]
        grid = entry[2] if len(entry) > 2 else rng.choice(['irregular', 'irregular', 'regular', 'nearly regular', 'nearly regular'])
        xf = [0.0]
        for _ in range(nn - 1):
            xf.append(xf[-1] + (rng.choice([0.25, 0.5, 1.0]) if grid == 'irregular' else (0.5 if grid == 'regular' else 0.5 * (1 + rng.uniform(-6e-6, 6e-6)))))
        f = [[rng.randint(-64, 64) / 8 for _ in range(2)] for _ in range(nn)]
        x = []
        for _ in range(nq):
            c = rng.random()
            if grid == 'nearly regular' and c < 0.6:
                i = rng.randrange(nn)
                x.append(xf[i] + rng.choice([-1, 1]) * rng.choice([1e-7, 1e-6, 3e-6, 1e-5]) * rng.random())      # in the sliver next to a node
                continue
            if c < 0.1:
                x.append(xf[0] - rng.choice([0.125, 1, 50]))
            elif c < 0.2:
                x.append(xf[-1] + rng.choice([0.125, 1, 50]))
            elif c < 0.5:
                x.append(rng.choice(xf))
            else:
                i = rng.randrange(nn - 1)
                x.append(xf[i] + (xf[i + 1] - xf[i]) * rng.randint(0, 16) / 16)
        do_interp2d(ctx, x, xf, f, grid != 'nearly regular', 'large/' + grid)
    ctx.flush()


# ----------------------------------------------------------------------------------------------------------------------
# C20.b interp_left
# ----------------------------------------------------------------------------------------------------------------------

def do_interp_left(ctx, x0, x, y, scalar, container, kind):
    from eqsig.fns.generic import interp_left
    ctx.hist('interp_left/' + kind + ('/scalar' if scalar else '/array') + ('/y=None' if y is None else ''))
    ctx.count_case(('interp_left', repr(x0), tuple(x), None if y is None else tuple(y), scalar), len(x) >= 3 and len(set(x)) > 1,
                   sample={'fn': 'interp_left', 'x0': x0, 'x': list(x), 'y': y} if ctx.evaluations % 997 == 0 else None)
    xa = np.array(x, dtype=float) if container == 'array' else list(x)
    ya = None if y is None else (np.array(y, dtype=float) if container == 'array' else list(y))
    if scalar:
        q0 = float(x0)
        res = call_impl(interp_left, q0, xa, ya)
        qs = [q0]
        req = f"interp_left_scalar|{w_rat(q0)}|{w_rats(x)}|{w_bool(y is not None)}|{w_rats(y or [])}"
    else:
        qa = np.array(x0, dtype=float) if container == 'array' else list(x0)
        res = call_impl(interp_left, qa, xa, ya)
        qs = list(x0)
        req = f"interp_left|{w_rats(x0)}|{w_rats(x)}|{w_bool(y is not None)}|{w_rats(y or [])}"
    inputs = {'x0': x0, 'x': list(x), 'y': y, 'scalar': scalar}

    def compare(outs, val):
        got = [val] if scalar else list(np.asarray(val).tolist())
        return cmp_exact(got, p_rats(outs[0]))
    ctx.corr('interp_left', req, res, compare, inputs=inputs)
    below = min(fr(q) for q in qs) < fr(x[0])
    ctx.oracle('C20.b interp_left raises AssertionError iff a query lies below the first node',
               (res == ('err', 'AssertionError')) == below, inputs, detail=res if res[0] == 'err' else None)
    if below:
        return
    if res[0] != 'ok':
        ctx.oracle('C20.b interp_left returns a value for every query at or above the first node', False, inputs, detail=res)
        return
    got = [res[1]] if scalar else list(np.asarray(res[1]).tolist())
    ctx.oracle('C20.b interp_left returns one value per query (a scalar for a scalar query)',
               len(got) == len(qs) and (not scalar or np.ndim(res[1]) == 0), inputs)
    fx = [fr(v) for v in x]
    yy = list(range(len(x))) if y is None else y
    for q, g in zip(qs, got):
        j = max(i for i in range(len(x)) if fx[i] <= fr(q))
        ctx.oracle('C20.b left-interpolation returns the value at the greatest node not exceeding the query',
                   fr(g) == fr(yy[j]), {**inputs, 'query': q}, detail={'got': g, 'want': yy[j], 'node_index': j})


def gen_interp_left(ctx):
    rng = ctx.rng
    do_interp_left(ctx, [1.0, 2.5], [1.0, 2.0, 3.0], [5.0, 6.0, 7.0], False, 'list', 'corpus')
    do_interp_left(ctx, 2.0, [1.0, 2.0, 2.0, 3.0], None, True, 'list', 'corpus')
    do_interp_left(ctx, 0.5, [1.0, 2.0, 3.0], [5.0, 6.0, 7.0], True, 'array', 'corpus')
    do_interp_left(ctx, [3.0, 9.0, 1.0], [1.0, 2.0, 3.0], None, False, 'array', 'corpus')
    n_cases = 500 if ctx.tier == 'quick' else 12000
    for it in range(n_cases):
        n = rng.choice([1, 2, 3, 4, 6, 10, 40])
        if it % 3 == 0:
            x = sorted(rng.randint(-16, 16) / 4 for _ in range(n))      # ties likely
            kind = 'dyadic'
        else:
            x = sorted(rng.uniform(-5, 5) for _ in range(n))
            kind = 'random'
        y = None if rng.random() < 0.3 else [rng.gauss(0, 1) * rng.choice([1, 1e6]) for _ in range(n)]
        qs = []
        for _ in range(rng.randint(1, 6)):
            c = rng.random()
            if c < 0.35:
                qs.append(rng.choice(x))
            elif c < 0.42:
                qs.append(x[0] - rng.choice([1e-9, 0.25, 10]))
            elif c < 0.55:
                qs.append(x[-1] + rng.choice([0, 0.25, 1e3]))
            elif c < 0.65:
                qs.append(float(np.nextafter(rng.choice(x), rng.choice([-np.inf, np.inf]))))
            else:
                qs.append(rng.uniform(x[0], x[-1] + 1))
        scalar = rng.random() < 0.4
        do_interp_left(ctx, qs[0] if scalar else qs, x, y, scalar, rng.choice(['list', 'array']), kind)
    ctx.flush()


# ----------------------------------------------------------------------------------------------------------------------
# C20.c calc_roll_av_vals
# ----------------------------------------------------------------------------------------------------------------------

def spec_roll(v, steps, mode):
    """mean over the window of `steps` samples of the edge-replicated series, exact"""
    n = len(v)
    off = {'forward': 0, 'backward': steps - 1}.get(mode, steps // 2)
    if n * steps <= 20000:
        out = []
        for i in range(n):
            tot = Fraction(0)
            for j in range(steps):
                k = min(max(i + j - off, 0), n - 1)
                tot += v[k]
            out.append(tot / steps)
        return out
    # long records: the same sums through exact prefix sums of the edge-replicated series
    ext = [v[0]] * off + list(v) + [v[-1]] * (steps - 1 - off)
    pre = [Fraction(0)]
    for x in ext:
        pre.append(pre[-1] + x)
    return [(pre[i + steps] - pre[i]) / steps for i in range(n)]


def do_roll(ctx, v, steps, mode, exact, kind, container='float_array'):
    from eqsig.fns.average import calc_roll_av_vals
    n = len(v)
    ctx.hist(f'roll_av/{kind}/{mode}')
    ctx.hist('roll_av/budget=' + ('E' if exact else 'R'))
    ctx.count_case(('roll', tuple(v), steps, mode, container), n >= 3 and len(set(v)) > 1,
                   sample={'fn': 'calc_roll_av_vals', 'values': list(v)[:8], 'n': n, 'steps': steps, 'mode': mode} if ctx.evaluations % 997 == 0 else None)
    arg = as_input(v, container)
    snap = np.array(arg, copy=True)
    res = call_impl(calc_roll_av_vals, arg, steps, mode=mode)
    inputs = {'values': list(v), 'steps': steps, 'mode': mode, 'container': container}
    fv = [fr(x) for x in v]
    vmax = max([abs(x) for x in fv] + [Fraction(1, 10**300)])
    model_mode = mode if mode in ('forward', 'backward') else 'centre'

    def compare(outs, val, exact=exact):
        if exact:
            return cmp_exact(flat(val), p_rats(outs[0]))
        msg, g = cmp_budget(flat(val), p_rats(outs[0]), R9, scale=vmax)
        ctx.gap('calc_roll_av_vals', g)
        return msg
    ctx.corr('calc_roll_av_vals', f"roll_av|{w_rats(v)}|{steps}|{model_mode}", res, compare, inputs=inputs)
    if res[0] != 'ok':
        ctx.oracle('C20.c calc_roll_av_vals returns a series for 1 <= steps', False, inputs, detail=res)
        return
    out = np.asarray(res[1])
    ctx.oracle('C20.c rolling average keeps the length', out.shape == (n,), inputs, detail={'shape': out.shape})
    ctx.oracle('C20.c rolling average leaves its input unchanged', np.array_equal(np.asarray(arg), snap), inputs)
    if out.shape != (n,):
        return
    want = spec_roll(fv, steps, mode)
    got = [fr(x) for x in out.tolist()]
    tol = Fraction(0) if exact else R9 * vmax
    bad = next((i for i in range(n) if abs(got[i] - want[i]) > tol), None)
    ctx.oracle(f'C20.c rolling average == mean over the {model_mode} window of the edge-replicated series', bad is None, inputs,
               detail=None if bad is None else {'index': bad, 'got': float(got[bad]), 'want': float(want[bad])})
    if len(set(v)) == 1:
        ctx.oracle('C20.c constants are preserved', all(abs(g - fv[0]) <= tol for g in got), inputs, detail={'got': out.tolist()[:5]})
    if steps == 1:
        ctx.oracle('C20.c a window of one sample is the identity', all(abs(g - a) <= tol for g, a in zip(got, fv)), inputs)


def gen_roll(ctx):
    rng = ctx.rng
    do_roll(ctx, [1.0, 2.0, 4.0], 5, 'centre', False, 'corpus')
    do_roll(ctx, [1.0, 2.0, 4.0], 2, 'forward', True, 'corpus')
    do_roll(ctx, [1.0, 2.0, 4.0], 2, 'backward', True, 'corpus')
    do_roll(ctx, [-3.5] * 5, 4, 'center', True, 'corpus')
    do_roll(ctx, [1, 2, 4, 7], 3, 'forward', False, 'corpus', container='int_list')
    # every window size 1..len (and a little beyond), three modes, short series
    nmax = 6 if ctx.tier == 'quick' else 10
    for n in range(1, nmax + 1):
        for rep in range(2 if ctx.tier == 'quick' else 6):
            v = gen.dyadic_record(rng, n).tolist() if rep % 2 == 0 else gen.noise_record(rng, n).tolist()
            for steps in range(1, n + 3):
                for mode in ('forward', 'backward', 'centre'):
                    exact = rep % 2 == 0 and steps & (steps - 1) == 0
                    do_roll(ctx, v, steps, mode, exact, 'all-windows')
    ctx.flush()
    n_cases = 300 if ctx.tier == 'quick' else 5000
    for it in range(n_cases):
        if it % 3 == 0:
            n = gen.log_int(rng, 1, 64)
            kind = rng.choice(['dyadic', 'int', 'plateau', 'const'])
            v = ([rng.randint(-40, 40) / 8] * n if kind == 'const' else
                 {'dyadic': gen.dyadic_record, 'int': gen.int_record, 'plateau': gen.plateau_record}[kind](rng, n).tolist())
            steps = rng.choice([1, 2, 4, 8, 16, 32, 64])
            exact = True
        else:
            n = gen.log_int(rng, 1, 300 if ctx.tier == 'quick' else 3000)
            kind, a = gen.any_record(rng, n)
            v = a.tolist()
            if rng.random() < 0.1:
                v = [v[0]] * n
                kind = 'const'
            steps = rng.choice([1, 2, 3, 5, n, max(1, n // 2), rng.randint(1, n + 3)])
            exact = False
        mode = rng.choice(['forward', 'backward', 'centre', 'center'])
        cont = 'float_array'
        if kind in ('int', 'plateau') and rng.random() < 0.4:
            cont = rng.choice(['int_array', 'int_list'])
        elif kind in ('dyadic', 'const') and exact and rng.random() < 0.4:
            cont = 'float32_array'
        do_roll(ctx, v, steps, mode, exact, kind, cont)
    # long single-precision / integer records with an offset: the running sums must be accumulated in double precision whatever
    # the dtype of the input (the values are whole numbers + eighths, exact in float32; the exact spec is compared at 1e-9)
    fixed = [(5000, 1000, 5, 'forward', 'float32_array'), (3000, 250, 50, 'centre', 'float32_array'), (5000, 1000, 16, 'backward', 'float32_array'),
             (3000, 1000, 2, 'centre', 'float_array')]
    # source hints: series lengths and window sizes around every new integer constant of the anchored files
    fixed += [(k, 250, 5, 'forward', 'float_array') for k in gen.hint_sizes(ctx, lo=301, hi=20000, cap=4)] + [(3000, 0, k, 'centre', 'float_array') for k in gen.hint_sizes(ctx, lo=2, hi=400, cap=4)]
    for it in range(len(fixed) + (2 if ctx.tier == 'quick' else 40)):
        if it < len(fixed):
            n, off, steps, mode, cont = fixed[it]
        else:
            n, off, steps, mode = rng.choice([1000, 3000, 5000]), rng.choice([0, 250, 1000]), rng.choice([2, 5, 16, 50]), rng.choice(['forward', 'backward', 'centre'])
            cont = rng.choice(['float32_array', 'float32_array', 'float_array'])
        v = [off + rng.randint(-8, 8) / 8 for _ in range(n)]
        do_roll(ctx, v, steps, mode, False, 'long-offset', cont)
    ctx.flush()


# ----------------------------------------------------------------------------------------------------------------------
# C20.d / C20.e step fit
# ----------------------------------------------------------------------------------------------------------------------

def spec_step_err(fv, p):
    n = len(fv)
    out = []
    for k in range(n):
        pre, post = fv[:k + 1], fv[k + 1:]
        mp = fmean(pre)
        e = sum((abs(x - mp) ** p for x in pre), Fraction(0))
        if post:
            mq = fmean(post)
            e += sum((abs(x - mq) ** p for x in post), Fraction(0))
        out.append(e)
    return out


INT_CONTAINERS = ('int_array', 'int_list')


def do_step(ctx, v, kind, container, pows=(1, 2), dirs=(None,), inds=()):
    from eqsig.fns.average import calc_step_fn_vals_error, calc_step_fn_steps_vals
    rng = ctx.rng
    n = len(v)
    fv = [fr(x) for x in v]
    vmax = max([abs(x) for x in fv] + [Fraction(1, 10**300)])
    ctx.hist(f'step/{kind}/{container}')
    ctx.hist('step/sign=' + ('neg' if all(x <= 0 for x in fv) else 'pos' if all(x >= 0 for x in fv) else 'mixed'))
    ctx.count_case(('step', tuple(v), container), n >= 3 and len(set(v)) > 1,
                   sample={'fn': 'calc_step_fn_vals_error / calc_step_fn_steps_vals', 'values': list(v)[:8], 'n': n,
                           'container': container} if ctx.evaluations % 1499 == 0 else None)
    base_inputs = {'values': list(v), 'container': container}
    spec1 = None
    for p in pows:
        scale = max(n * vmax ** p, Fraction(1, 10**300))
        want = spec_step_err(fv, p)
        if p == 1:
            spec1 = want
        for d in dirs:
            arg = as_input(v, container)
            snap = np.array(arg, copy=True)
            res = call_impl(calc_step_fn_vals_error, arg, pow=p, dir=d)
            inputs = {**base_inputs, 'pow': p, 'dir': d}

            def compare(outs, val, scale=scale):
                msg, g = cmp_budget(flat(val), p_rats(outs[0]), R9, scale=scale)
                ctx.gap('calc_step_fn_vals_error', g)
                return msg
            if container in INT_CONTAINERS:
                # open finding F20-2: for integer-dtype input the impl truncates the errors (np.ones_like(values)); the Lean model is
                # about float arrays, so no correspondence is claimed for integer containers (the spec oracle below still judges them)
                ctx.hist('step/int-container: correspondence not claimed (F20-2)')
            else:
                ctx.corr('calc_step_fn_vals_error', f"step_err|{w_rats(v)}|{p}|{d or 'none'}", res, compare, inputs=inputs)
            if res[0] != 'ok':
                ctx.oracle('C20.d calc_step_fn_vals_error returns a series for a non-empty input', False, inputs, detail=res)
                continue
            out = np.asarray(res[1])
            ctx.oracle('C20.d step-fit error keeps the length', out.shape == (n,), inputs, detail={'shape': out.shape})
            ctx.oracle('C20.d step-fit error leaves its input unchanged', np.array_equal(np.asarray(arg), snap), inputs)
            if d is None and out.shape == (n,):
                got = [fr(x) for x in out.tolist()]
                bad = next((k for k in range(n) if abs(got[k] - want[k]) > R9 * scale), None)
                ctx.oracle(f'C20.d step-function error at each split == summed |deviation|^p of both sides from their own means (p={p})',
                           bad is None, inputs,
                           detail=None if bad is None else {'split': bad, 'got': float(got[bad]), 'want': float(want[bad]),
                                                            'got_all': out.tolist()[:12], 'want_all': [float(x) for x in want[:12]]},
                           facts=None if bad is None else {
                               'fn': 'calc_step_fn_vals_error', 'pow': p, 'container': container,
                               'negative_side_mean': any(fmean(fv[:k + 1]) < 0 or (fv[k + 1:] and fmean(fv[k + 1:]) < 0) for k in range(n))})
    # ---- levels
    if spec1 is None:
        spec1 = spec_step_err(fv, 1)
    tol1 = R9 * max(n * vmax, Fraction(1, 10**300))
    emin = min(spec1)
    near = [k for k in range(n) if spec1[k] <= emin + 2 * tol1]
    def level_ok(g, part):
        g = float(g)
        if not part:
            return math.isnan(g)
        return (not math.isnan(g)) and abs(fr(g) - fmean(part)) <= R9 * vmax

    def cmp_levels(outs, val):
        for name, tok, g in (('pre', outs[0][0], val[0]), ('post', outs[1][0], val[1])):
            g = float(g)
            if tok == 'nan' or math.isnan(g):
                if not (tok == 'nan' and math.isnan(g)):
                    return f"{name}: impl={g!r} model={tok}"
                continue
            m = fr(p_rats([tok])[0])
            if abs(fr(g) - m) > R9 * vmax:
                return f"{name}: impl={g!r} model={float(m)!r}"
        return None

    for ind in (None,) + tuple(inds):
        arg = as_input(v, container)
        res = call_impl(calc_step_fn_steps_vals, arg, ind) if ind is not None else call_impl(calc_step_fn_steps_vals, arg)
        inputs = {**base_inputs, 'ind': ind}
        if res[0] != 'ok':
            ctx.corr('calc_step_fn_steps_vals', f"step_levels|{w_rats(v)}|{'F|' if ind is None else 'T|' + str(ind)}", res, cmp_levels, inputs=inputs)
            ctx.oracle('C20.e calc_step_fn_steps_vals returns two levels for a non-empty input', False, inputs, detail=res)
            continue
        if ind is None:
            # default split: the reported levels must be the side means of SOME split sample that minimises the exact p=1 error
            # (`near`: the minimisers, including splits that tie with the minimum to within the rounding budget)
            hits = [k for k in near if level_ok(res[1][0], fv[:k]) and level_ok(res[1][1], fv[k + 1:])]
            ctx.oracle('C20.e default: reported levels are the means of the samples strictly before / after a split sample that minimises '
                       'the p=1 step-function error', bool(hits), inputs,
                       detail={'got': [float(res[1][0]), float(res[1][1])], 'exact_minimisers': near[:10],
                               'exact_errors': [float(x) for x in spec1[:12]]},
                       facts={'fn': 'calc_step_fn_steps_vals', 'container': container})
            if len(near) > 1:
                # exact tie (or one within rounding): the model's first minimiser need not be the float one; the correspondence is
                # then made at the minimiser the implementation's levels belong to
                ctx.hist('step/default-split-tie')
                req = f"step_levels|{w_rats(v)}|T|{hits[0]}" if hits else f"step_levels|{w_rats(v)}|F|"
            else:
                req = f"step_levels|{w_rats(v)}|F|"
            if container not in INT_CONTAINERS:
                ctx.corr('calc_step_fn_steps_vals', req, res, cmp_levels, inputs=inputs)
            continue
        ctx.corr('calc_step_fn_steps_vals', f"step_levels|{w_rats(v)}|T|{ind}", res, cmp_levels, inputs=inputs)
        if not (0 <= ind < n):
            continue       # explicit out-of-range / negative ind: Python slicing, covered by the correspondence only
        for name, g, part in (('before', res[1][0], fv[:ind]), ('after', res[1][1], fv[ind + 1:])):
            ctx.oracle(f'C20.e reported step level == mean of the samples strictly {name} the split sample', level_ok(g, part),
                       {**inputs, 'split': ind}, detail={'got': float(g), 'want': float(fmean(part)) if part else 'nan'})


def gen_step(ctx):
    rng = ctx.rng
    # corpus: witness of F20-1 (mean**pow instead of |mean|**pow), of the integer-dtype truncation, docstring-like data
    for cont in ('float_array', 'int_array', 'int_list'):
        do_step(ctx, [-1, -2, -3, 4, 5, 6], 'corpus', cont, pows=(1, 2), dirs=(None, 'up', 'down'), inds=(2, 0, 5))
        do_step(ctx, [-2, -2, -1, -2], 'corpus', cont, inds=(1,))
        do_step(ctx, [1, 2, 4, 4], 'corpus', cont, inds=(1,))
        do_step(ctx, [-2, -1, -1, 0], 'corpus', cont)
    do_step(ctx, [4.0, 4.5, 4.25, 1.0, 0.5, 1.5, 1.0], 'corpus', 'float_array', dirs=(None, 'up', 'down'), inds=(3,))
    do_step(ctx, [2.5], 'corpus', 'float_array', inds=(0,))
    # exhaustive over a small alphabet, three containers
    levels, maxlen = (range(-2, 3), 4) if ctx.tier == 'quick' else (range(-2, 4), 5)
    for n in range(1, maxlen + 1):
        for v in itertools.product(levels, repeat=n):
            for cont in ('float_array', 'int_array', 'int_list'):
                do_step(ctx, list(v), f'exhaustive/len={n}', cont, pows=(1, 2), inds=())
        ctx.flush()
    n_cases = 400 if ctx.tier == 'quick' else 5000
    for it in range(n_cases):
        n = gen.log_int(rng, 1, 40 if ctx.tier == 'quick' else 100)
        sign = rng.choice(['neg', 'pos', 'mixed', 'mixed'])
        if it % 3 == 0:
            kind = rng.choice(['int', 'plateau', 'dyadic', 'twolevel'])
            if kind == 'twolevel':
                k = rng.randrange(n)
                a, b = rng.randint(-5, 5), rng.randint(-5, 5)
                v = [a + rng.choice([-0.25, 0, 0.25]) for _ in range(k)] + [b + rng.choice([-0.25, 0, 0.25]) for _ in range(n - k)]
            else:
                v = {'int': gen.int_record, 'plateau': gen.plateau_record, 'dyadic': gen.dyadic_record}[kind](rng, n).tolist()
            dirs = (None, rng.choice(['up', 'down']))
        else:
            kind = rng.choice(['noise', 'big', 'tiny', 'step+noise'])
            amp = {'noise': 1.0, 'big': 1e6, 'tiny': 1e-6, 'step+noise': 1.0}[kind]
            v = [rng.gauss(0, 1) * amp for _ in range(n)]
            if kind == 'step+noise':
                k = rng.randrange(n)
                v = [x * 0.1 + (3.0 if i >= k else -1.0) for i, x in enumerate(v)]
            dirs = (None,)
        if sign == 'neg':
            v = [-abs(x) for x in v]
        elif sign == 'pos':
            v = [abs(x) for x in v]
        cont = 'float_array'
        if kind in ('int', 'plateau') and rng.random() < 0.5:
            cont = rng.choice(['int_array', 'int_list'])
        elif rng.random() < 0.15:
            cont = 'float_list'
        inds = tuple(rng.randrange(n) for _ in range(2)) + ((rng.randint(-n - 2, n + 2),) if rng.random() < 0.3 else ())
        do_step(ctx, v, kind, cont, pows=(1, 2), dirs=dirs, inds=inds)
    ctx.flush()


# ----------------------------------------------------------------------------------------------------------------------
# C20.f design spectra
# ----------------------------------------------------------------------------------------------------------------------

BREAKS = {'C': [0.0, 0.1, 0.3, 1.5, 3.0], 'D': [0.0, 0.1, 0.56, 1.5, 3.0], 'E': [0.0, 0.1, 1.0, 1.5, 3.0]}
G = 9.81


def quiet(f, *a, **k):
    """call_impl with the implementation's print() calls (design_spectra prints before raising) swallowed"""
    import contextlib
    import io
    with contextlib.redirect_stdout(io.StringIO()):
        return call_impl(f, *a, **k)


def cmp_float_T(fn, ctx):
    def compare(outs, val):
        m = p_floats(outs[0])
        got = flat(val)
        if any(math.isnan(a) or math.isinf(a) for a in got + m):
            return None if [repr(a) for a in got] == [repr(b) for b in m] else f"non-finite impl={got[:3]} model={m[:3]}"
        msg, g = cmp_budget(got, m, R9)
        ctx.gap(fn, g)
        return msg
    return compare


def gen_spectra(ctx):
    from eqsig import design_spectra as ds
    rng = ctx.rng
    quick = ctx.tier == 'quick'
    factors = [(1.0, 1.0, 1.0), (0.4, 1.3, 1.1), (0.13, 0.25, 1.0)] if quick else \
        [(1.0, 1.0, 1.0), (0.4, 1.3, 1.1), (0.13, 0.25, 1.0), (0.6, 1.8, 1.2), (0.3, 0.5, 1.05), (0.25, 1.0, 1.0)]
    grid = [6.0 * i / (400 if quick else 2000) for i in range((400 if quick else 2000) + 1)]
    grid += [rng.uniform(0, 6) for _ in range(60 if quick else 600)] + [1e-12, 5e-324, 10.0, 123.456, 1e6]
    # source hints: periods at / around (and one ulp either side of) every new float constant of the anchored files
    grid += [float(t) for c in gen.hint_values(ctx, 0.0, 1e6, cap=40) for t in (c, np.nextafter(c, np.inf), np.nextafter(c, -np.inf)) if t >= 0]
    for cls in ('C', 'D', 'E'):
        periods = list(grid)
        for b in BREAKS[cls]:
            periods += [b, float(np.nextafter(b, np.inf))] + ([float(np.nextafter(b, -np.inf))] if b > 0 else [])
        for T in periods:
            ctx.hist('spectra/class=' + cls)
            ctx.count_case(('spectra', cls, T), T > 0,
                           sample={'fn': 'c_h_factor / sd_nzs', 'period': T, 'site_class': cls} if ctx.evaluations % 1499 == 0 else None)
            z, r, nf = factors[rng.randrange(len(factors))]
            rc = call_impl(ds.c_h_factor, float(T), cls)
            ctx.corr('c_h_factor', f"c_h_factor|{w_float(T)}|{cls}", rc, cmp_float_T('c_h_factor', ctx), inputs={'period': T, 'site_class': cls})
            rs = call_impl(ds.sd_nzs, float(T), cls, z, r, nf)
            inputs = {'period': T, 'site_class': cls, 'z_factor': z, 'r_factor': r, 'n_factor': nf}
            ctx.corr('sd_nzs', f"sd_nzs|{w_float(T)}|{cls}|{w_float(z)}|{w_float(r)}|{w_float(nf)}", rs, cmp_float_T('sd_nzs', ctx), inputs=inputs)
            if rc[0] != 'ok' or rs[0] != 'ok':
                ctx.oracle('C20.f c_h_factor and sd_nzs return a value for every period T >= 0 and site class C, D, E', False, inputs,
                           detail={'c_h_factor': rc, 'sd_nzs': rs})
                continue
            ch, sd = float(rc[1]), float(rs[1])
            want = ch * T * T * z * nf * r
            # two float evaluations of the same real expression in different association: a few ulp; 1e-12 relative allowed
            ctx.oracle('C20.f S_d == C_h(T) * T^2 * Z * N * R', abs(sd - want) <= 1e-12 * abs(want) + 1e-300, inputs,
                       detail={'sd_nzs': sd, 'c_h*T^2*Z*N*R': want, 'c_h': ch})
            ctx.oracle('C20.f spectral shape factor is positive and at most 3.0', 0 < ch <= 3.0, inputs, detail={'c_h': ch})
        # continuity to table precision across every segment boundary
        for b in BREAKS[cls][1:]:
            lo = float(np.nextafter(b, -np.inf))
            c_lo, c_b = float(ds.c_h_factor(lo, cls)), float(ds.c_h_factor(float(b), cls))
            ctx.oracle('C20.f spectral shape is continuous to table precision (jump <= 0.5 %) across segment boundaries',
                       abs(c_lo - c_b) <= 0.005 * c_b, {'site_class': cls, 'breakpoint': b}, detail={'left': c_lo, 'at': c_b})
            s_lo, s_b = float(ds.sd_nzs(lo, cls, 1.0, 1.0, 1.0)), float(ds.sd_nzs(float(b), cls, 1.0, 1.0, 1.0))
            ctx.oracle('C20.f spectral displacement is continuous to table precision (jump <= 0.5 %) across segment boundaries',
                       abs(s_lo - s_b) <= 0.005 * s_b, {'site_class': cls, 'breakpoint': b}, detail={'left': s_lo, 'at': s_b})
        tiny = 1e-9
        ctx.oracle('C20.f spectral shape is continuous at T = 0', abs(float(ds.c_h_factor(tiny, cls)) - float(ds.c_h_factor(0.0, cls))) <= 1e-6,
                   {'site_class': cls, 'breakpoint': 0.0})
        # array form
        arr = [rng.choice(periods) for _ in range(40)]
        for container in ('array', 'list'):
            ra = call_impl(ds.c_h_factor, np.array(arr) if container == 'array' else list(arr), cls)
            ctx.corr('c_h_factor(array)', f"c_h_factor_arr|{w_floats(arr)}|{cls}", ra, cmp_float_T('c_h_factor', ctx),
                     inputs={'period': arr, 'site_class': cls})
            if ra[0] == 'ok':
                ok = all(float(a) == float(ds.c_h_factor(float(t), cls)) for a, t in zip(ra[1], arr)) and len(ra[1]) == len(arr)
                ctx.oracle('C20.f c_h_factor of an array == element-wise scalar calls', ok, {'period': arr, 'site_class': cls})
        # whole-number periods held as integers (int ndarray, list of ints, scalar int): the same values as for the floats
        iarr = [rng.choice([0, 1, 2, 3, 4, 5]) for _ in range(12)]
        for label, cont in (('int64', np.array(iarr, dtype=np.int64)), ('int32', np.array(iarr, dtype=np.int32)), ('list-int', list(iarr))):
            ra = call_impl(ds.c_h_factor, cont, cls)
            ctx.hist('c_h_factor/integer periods/' + label)
            ok = ra[0] == 'ok' and len(ra[1]) == len(iarr) and all(float(a) == float(ds.c_h_factor(float(t), cls)) for a, t in zip(ra[1], iarr))
            ctx.oracle('C20.f c_h_factor of integer-typed periods == the values for the same periods as floats', ok, {'period': iarr, 'container': label, 'site_class': cls},
                       detail=ra if ra[0] != 'ok' else {'got': [float(x) for x in ra[1]], 'want': [float(ds.c_h_factor(float(t), cls)) for t in iarr]})
        # (a scalar Python int is rejected with TypeError by the pinned code -- `len(period)` -- a loud restriction of the domain, not demanded)
        # negative periods and unknown classes raise ValueError
        for T in (-1e-9, -0.5, -3.0):
            rc = quiet(ds.c_h_factor, T, cls)
            rs = quiet(ds.sd_nzs, T, cls, 1.0, 1.0, 1.0)
            ctx.corr('c_h_factor', f"c_h_factor|{w_float(T)}|{cls}", rc, cmp_float_T('c_h_factor', ctx), inputs={'period': T, 'site_class': cls})
            ctx.corr('sd_nzs', f"sd_nzs|{w_float(T)}|{cls}|{w_float(1.0)}|{w_float(1.0)}|{w_float(1.0)}", rs, cmp_float_T('sd_nzs', ctx),
                     inputs={'period': T, 'site_class': cls})
            ctx.oracle('C20.f a negative period raises ValueError', rc == ('err', 'ValueError') and rs == ('err', 'ValueError'),
                       {'period': T, 'site_class': cls}, detail={'c_h_factor': rc, 'sd_nzs': rs})
        # t_eff: linear in the displacement, corner period 3 at the corner displacement, raises above it
        for (z, r, nf) in factors:
            inputs = {'site_class': cls, 'z_factor': z, 'r_factor': r, 'n_factor': nf}
            d_c = float(ds.sd_nzs(3.0, cls, z, r, nf)) * G / (2 * math.pi) ** 2     # corner-period displacement relation
            for frac in (0.0, 0.125, 0.5, rng.uniform(0, 1), 1 - 1e-9, 1 + 1e-9, 1.5, 10.0):
                d = d_c * frac
                ctx.hist('t_eff/' + ('above' if frac > 1 else 'below'))
                ctx.count_case(('t_eff', cls, z, r, nf, d), d > 0)
                rt = call_impl(ds.t_eff, d, cls, z, r, nf)
                ctx.corr('t_eff', f"t_eff|{w_float(d)}|{cls}|{w_float(z)}|{w_float(r)}|{w_float(nf)}", rt, cmp_float_T('t_eff', ctx),
                         inputs={**inputs, 'displacement': d})
                if frac > 1:
                    ctx.oracle('C20.f t_eff raises ValueError above the corner displacement', rt == ('err', 'ValueError'),
                               {**inputs, 'displacement': d, 'd_c': d_c}, detail=rt)
                    continue
                if rt[0] != 'ok':
                    ctx.oracle('C20.f t_eff returns a period up to the corner displacement', False, {**inputs, 'displacement': d, 'd_c': d_c}, detail=rt)
                    continue
                t = float(rt[1])
                # the effective period inverts d = d_c * T / 3 (few float operations each side: 1e-12 relative)
                ctx.oracle('C20.f effective period inverts the corner-period displacement relation (t_eff(d) * d_c / 3 == d, t_eff(d_c) == 3)',
                           abs(t * d_c / 3.0 - d) <= 1e-12 * d_c and abs(t - 3.0 * frac) <= 1e-8,
                           {**inputs, 'displacement': d, 'd_c': d_c}, detail={'t_eff': t, 'want': 3.0 * frac})
        for bad_cls in ('A', 'c', 'CD'):
            rc = quiet(ds.c_h_factor, 0.5, bad_cls)
            rs = quiet(ds.sd_nzs, 0.5, bad_cls, 1.0, 1.0, 1.0)
            rt = quiet(ds.t_eff, 0.01, bad_cls, 1.0, 1.0, 1.0)
            ctx.corr('c_h_factor', f"c_h_factor|{w_float(0.5)}|{bad_cls}", rc, cmp_float_T('c_h_factor', ctx), inputs={'site_class': bad_cls})
            ctx.corr('sd_nzs', f"sd_nzs|{w_float(0.5)}|{bad_cls}|{w_float(1.0)}|{w_float(1.0)}|{w_float(1.0)}", rs, cmp_float_T('sd_nzs', ctx),
                     inputs={'site_class': bad_cls})
            ctx.corr('t_eff', f"t_eff|{w_float(0.01)}|{bad_cls}|{w_float(1.0)}|{w_float(1.0)}|{w_float(1.0)}", rt, cmp_float_T('t_eff', ctx),
                     inputs={'site_class': bad_cls})
        ctx.flush()


def run(ctx):
    gen_interp2d(ctx)
    gen_interp_left(ctx)
    gen_roll(ctx)
    gen_step(ctx)
    gen_spectra(ctx)
    ctx.flush()


# ---- known findings -------------------------------------------------------------------------------------------------

def _m_f20_2(f):
    fa = f.get('facts') or {}
    return fa.get('container') in INT_CONTAINERS and fa.get('fn') in ('calc_step_fn_vals_error', 'calc_step_fn_steps_vals') and \
        (f['clause'].startswith('C20.d step-function error at each split') or f['clause'].startswith('C20.e default'))


KNOWN_MATCHERS = {'F20-2': _m_f20_2}


def known_witness(fid):
    if fid == 'F20-2':
        from eqsig.fns.average import calc_step_fn_vals_error
        out = calc_step_fn_vals_error([1, 2, 4, 4])
        return not np.allclose(np.asarray(out, dtype=float), [8 / 3, 1.0, 10 / 3, 5.0])
    return True


# ---- extras2 (harness extension hx_b): exact covariance under scaling by powers of two ---------------------------------------------------------

def _x2_scale(ctx, cur):
    """(2) interp2d / interp_left are of degree 1 in the tabulated values and of degree 0 under a joint scaling of nodes and queries; the rolling
    average, the step levels and the p=1 step-fit error are of degree 1 in the series, the p=2 error of degree 2; S_d is linear in Z. All exact
    for power-of-two factors (2^+-600 for degree 1, 2^+-350 / 2^+-200 for degree 2). interp2d's node gaps must stay above its documented 1e-10
    guard, so nodes are only scaled UP or mildly down (2^-20 with gaps >= 1e-2)."""
    from eqsig.fns import generic, average
    from eqsig import design_spectra as ds
    from _hxb_common import same, val
    rng = ctx.rng
    for it in range(40 if ctx.tier == 'quick' else 400):
        m = rng.randint(2, 12)
        xf = np.cumsum([rng.uniform(0.01, 2.0) for _ in range(m)]) + rng.uniform(-3, 3)
        f = np.array([[rng.gauss(0, 1) for _ in range(3)] for _ in range(m)])
        x = np.array([rng.choice([rng.uniform(xf[0] - 1, xf[-1] + 1), float(rng.choice(list(xf)))]) for _ in range(6)])
        y = np.array([rng.gauss(0, 1) for _ in range(m)])
        x0 = np.array([max(rng.uniform(xf[0], xf[-1] + 1), xf[0]) for _ in range(5)])
        v = gen.any_record(rng, rng.randint(3, 40))[1]
        steps = rng.randint(1, len(v))
        mode = rng.choice(['forward', 'backward', 'centre'])
        T, site = rng.choice([0.0, 0.05, 0.3, 0.7, 1.5, 3.0, 4.5, rng.uniform(0, 5)]), rng.choice(['C', 'D', 'E'])
        inputs = {'xf': xf, 'f': f, 'x': x, 'y': y, 'x0': x0, 'values': v, 'steps': steps, 'mode': mode, 'period': T, 'site_class': site}
        cur.clear()
        cur.update(inputs)
        ctx.hist('extras2/scale')
        ctx.count_case(('x2s', xf.tobytes(), f.tobytes(), x.tobytes(), v.tobytes(), steps, mode), True)
        import warnings
        with np.errstate(all='ignore'), warnings.catch_warnings():
            warnings.simplefilter('ignore')
            I, L = generic.interp2d(x, xf, f), generic.interp_left(x0, xf, y)
            R = average.calc_roll_av_vals(v, steps, mode=mode)
            E1, E2 = average.calc_step_fn_vals_error(v, pow=1), average.calc_step_fn_vals_error(v, pow=2)
            SV = np.array(average.calc_step_fn_steps_vals(v), dtype=float)
            SD = val(quiet(ds.sd_nzs, T, site, 0.3, 1.0, 1.0))
        for k in gen.EXTREME_POW2 + (200, -200, 40, -20):
            F = 2.0 ** k
            sc = {**inputs, 'scale': '2**%d' % k}
            with np.errstate(all='ignore'):
                ctx.oracle('C20.a interp2d is linear in the table: scaling f by a power of two scales the result exactly', gen.scaled_exactly(val(call_impl(generic.interp2d, x, xf, f * F)), I, F), sc)
                if k >= -20:
                    ctx.oracle('C20.a interp2d: scaling nodes and queries by the same power of two (gaps above the 1e-10 guard) leaves the result unchanged',
                               same(val(call_impl(generic.interp2d, x * F, xf * F, f)), I), sc)
                ctx.oracle('C20.b interp_left is linear in y: scaling y by a power of two scales the result exactly', gen.scaled_exactly(val(call_impl(generic.interp_left, x0, xf, y * F)), L, F), sc)
                ctx.oracle('C20.b interp_left: scaling nodes and queries by the same power of two leaves the result unchanged', same(val(call_impl(generic.interp_left, x0 * F, xf * F, y)), L), sc)
                ctx.oracle('C20.c the rolling average scales exactly with the series (power of two)', gen.scaled_exactly(val(call_impl(average.calc_roll_av_vals, v * F, steps, mode=mode)), R, F), sc)
                ctx.oracle('C20.d the p=1 step-fit error scales exactly with the series (power of two)', gen.scaled_exactly(val(call_impl(average.calc_step_fn_vals_error, v * F, pow=1)), E1, F), sc)
                if abs(k) <= 350:
                    ctx.oracle('C20.d the p=2 step-fit error scales exactly with the square of a power-of-two factor', gen.scaled_exactly(val(call_impl(average.calc_step_fn_vals_error, v * F, pow=2)), E2, F * F), sc)
                g = val(call_impl(average.calc_step_fn_steps_vals, v * F))
                ctx.oracle('C20.e the step levels scale exactly with the series (power of two)', g is not None and gen.scaled_exactly(np.array(g, dtype=float), SV, F), sc)
                g = val(quiet(ds.sd_nzs, T, site, 0.3 * F, 1.0, 1.0))
                ctx.oracle('C20.f S_d is linear in Z: scaling Z by a power of two scales it exactly', g is not None and SD is not None and gen.scaled_exactly(np.asarray(g, dtype=float), np.asarray(SD, dtype=float), F), sc)


def extras2(ctx):
    from _hxb_common import guarded_sections
    guarded_sections(ctx, 'C20', [('scale', _x2_scale)])


_run_main2 = run


def run(ctx):
    _run_main2(ctx)
    extras2(ctx)
    ctx.flush()


# evidence: how the model is tied to the source on every run (as built, supersedes the value above)
TIE = 'translator (design tables -> Gen/DesignSpectra, roll/step/interp functions -> Gen/GenericFns, Gen/GenericFns2; Props/C20Gen, C20GenFns, C20GenFns2) + correspondence'


# ---- round-7 deliveries (lw_small / tw_single3): further correspondences of models with new theorems -------------------------
import _lw_small as _LW  # noqa: E402
from _single3_corr import corr_single3  # noqa: E402
_run_main_r7 = run


def run(ctx):
    _run_main_r7(ctx)
    _LW.corr_step_dir(ctx)
    ctx.flush()


# ---- extras3 (hx_r7d, round 7): nodes and queries held in DIFFERENT precisions / number types; consecutive step fits of rearranged series -------
# The property quantifies over "all monotone node sets and query points (inside, on nodes, outside)".  A float32 / float16 / integer node IS an
# exact rational, and so is a float64 / float32 / integer query: the specification is evaluated on the exact values of the arrays AS GIVEN.  The
# telling queries sit just below / exactly on / just above a node -- one step of the QUERY's precision away, or within half a step of the NODE's
# (coarser) precision, where converting the query to the node type (or the node to the query type) moves it across the node.

_X3_NODE_DTYPES = ('float32', 'float32', 'float16', 'int64', 'int32', 'int16', 'uint8', 'float64')


def _x3_nodes(rng, dtype, n, strict):
    """sorted node array of the given dtype (label, array); strict: strictly increasing (interp2d), otherwise ties may occur"""
    dt = np.dtype(dtype)
    if dt.kind in 'iu':
        lo = 0 if dt.kind == 'u' else -40
        vals = sorted(rng.sample(range(lo, 120), n)) if strict or rng.random() < 0.6 else sorted(rng.randint(lo, 30) for _ in range(n))
        return 'whole numbers', np.array(vals, dtype=dt)
    style = rng.choice(['decimal grid', 'decimal grid', 'random', 'dyadic'])
    if style == 'decimal grid':
        step = rng.choice([0.1, 0.01, 0.05, 0.3, 0.002] if dtype != 'float16' else [0.1, 0.3, 0.05])
        k0 = rng.randint(-5, 30)
        raw = [step * (k0 + k) for k in range(n)]                         # 0.1*k: almost never representable in single / half precision
    elif style == 'random':
        raw = sorted(rng.uniform(-5, 5) for _ in range(n))
    else:
        raw = sorted(rng.sample(range(-64, 200), n))
        raw = [v / 8 for v in raw]
    a = np.array(raw, dtype=float).astype(dt)
    if strict:
        a = np.unique(a)
    return style, np.sort(a)


def _x3_query_values(rng, nodes, qdtype, how_many, allow_below_first, near_first_ok):
    """exact query values (Python floats, each representable in qdtype) clustered around the nodes"""
    qt = np.dtype(qdtype)
    exact_nodes = [float(v) for v in nodes]
    node_step = (lambda v: 1.0) if nodes.dtype.kind in 'iu' else (lambda v: abs(float(np.spacing(nodes.dtype.type(v)))))
    out = []
    for _ in range(how_many):
        v = rng.choice(exact_nodes)
        c = rng.random()
        if qt.kind in 'iu':
            q = float(int(round(v)) + rng.choice([0, 0, -1, 1, 2]))
        else:
            vq = qt.type(v)                                                  # the node rounded to the query's precision (== v when that is finer)
            if c < 0.2:
                q = float(vq)
            elif c < 0.4:
                q = float(np.nextafter(vq, qt.type(-np.inf)))                # one step of the query's precision below ...
            elif c < 0.55:
                q = float(np.nextafter(vq, qt.type(np.inf)))                 # ... and above
            elif c < 0.75:
                q = float(qt.type(v + rng.choice([-0.49, -0.25, -0.5, 0.25, 0.49, -0.01]) * node_step(v)))   # within half a step of the NODE's precision
            elif c < 0.85:
                q = float(qt.type(round(v, rng.choice([1, 2, 3]))))          # the decimal the node was meant to be
            elif c < 0.95:
                w = rng.choice(exact_nodes)
                q = float(qt.type((v + w) / 2))
            else:
                q = float(qt.type(exact_nodes[-1] + rng.choice([0.0, 0.5, 1000.0])))
        if q < exact_nodes[0]:
            if not allow_below_first and qt.kind in 'iu':
                q = float(math.ceil(exact_nodes[0]))
            elif not allow_below_first:
                q = exact_nodes[0] if float(qt.type(exact_nodes[0])) == exact_nodes[0] else float(np.nextafter(qt.type(exact_nodes[0]), qt.type(np.inf)))
                if q < exact_nodes[0]:
                    continue
            elif not near_first_ok and q > exact_nodes[0] - 4 * node_step(exact_nodes[0]):
                q = float(qt.type(math.floor(exact_nodes[0]) - 1.0))         # clearly below (see NOTES: weakly typed queries next to a narrow first node)
        out.append(q)
    return out


def _x3_interp_left(ctx, cur):
    from eqsig.fns.generic import interp_left
    rng = ctx.rng
    for it in range(260 if ctx.tier == 'quick' else 4000):
        ndt = _X3_NODE_DTYPES[it % len(_X3_NODE_DTYPES)]
        n = rng.choice([1, 2, 3, 5, 8, 20, 40])
        if ndt in ('int16', 'uint8', 'int32', 'int64'):
            n = min(n, 40)
        style, xa = _x3_nodes(rng, ndt, n, strict=False)
        n = len(xa)
        # query precision: the other side of the pair
        if xa.dtype.kind in 'iu':
            qdt = rng.choice(['float64', 'float64', 'float32', 'int64'])
        elif ndt == 'float64':
            qdt = rng.choice(['float32', 'float32', 'float16', 'int64'])
        else:
            qdt = rng.choice(['float64', 'float64', 'float64', 'float32' if ndt == 'float16' else 'float16'])
        form = rng.choice(['array', 'array', 'array', 'numpy scalar', 'list of Python numbers', 'Python scalar'])
        if qdt != 'float64' and form in ('list of Python numbers', 'Python scalar') and qdt != 'int64':
            form = 'array'                                                   # a Python float IS a double
        weak = form in ('list of Python numbers', 'Python scalar')
        narrow_first = xa.dtype.kind == 'f' and xa.dtype.itemsize < 8
        qs = _x3_query_values(rng, xa, qdt, 1 if 'scalar' in form else rng.randint(1, 7), allow_below_first=rng.random() < 0.15,
                              near_first_ok=not (weak and narrow_first))
        if not qs:
            continue
        scalar = 'scalar' in form
        if form == 'array':
            q = np.array(qs, dtype=qdt)
        elif form == 'numpy scalar':
            q = np.dtype(qdt).type(qs[0])
        elif form == 'Python scalar':
            q = int(qs[0]) if qdt == 'int64' else float(qs[0])
        else:
            q = [int(v) for v in qs] if qdt == 'int64' else [float(v) for v in qs]
        ymode = rng.choice(['None', 'float64', 'float32', 'int'])
        if ymode == 'None':
            ya, yy = None, list(range(n))
        elif ymode == 'int':
            yy = [rng.randint(-50, 50) for _ in range(n)]
            ya = np.array(yy, dtype=np.int64)
        else:
            yy = [rng.randint(-4000, 4000) / 8 for _ in range(n)]           # exact in every float type used
            ya = np.array(yy, dtype=ymode)
        xs = [float(v) for v in xa]
        label = f'{ndt} nodes x {qdt} queries'
        inputs = {'x0': qs, 'x0_held_as': f'{form} ({qdt})', 'x': xs, 'x_dtype': ndt, 'y': None if ya is None else yy, 'y_dtype': ymode, 'nodes': style}
        cur.clear()
        cur.update(inputs)
        ctx.hist('extras3/interp_left/' + label)
        ctx.hist('extras3/interp_left/queries held as ' + form)
        ctx.count_case(('x3il', tuple(qs), tuple(xs), ndt, qdt, form, ymode), n >= 3 and len(set(xs)) > 1)
        snap = xa.copy()
        res = call_impl(interp_left, q, xa, ya)
        ctx.corr('interp_left', (f"interp_left_scalar|{w_rat(qs[0])}" if scalar else f"interp_left|{w_rats(qs)}") + f"|{w_rats(xs)}|{w_bool(ya is not None)}|{w_rats([float(v) for v in yy] if ya is not None else [])}",
                 res, lambda outs, val, scalar=scalar: cmp_exact([float(val)] if scalar else [float(v) for v in np.asarray(val).tolist()], p_rats(outs[0])), inputs=inputs)
        below = min(qs) < xs[0]
        ctx.oracle('C20.b interp_left raises AssertionError iff a query lies below the first node', (res == ('err', 'AssertionError')) == below, inputs,
                   detail=res if res[0] == 'err' else None)
        if below:
            continue
        if res[0] != 'ok':
            ctx.oracle('C20.b interp_left returns a value for every query at or above the first node', False, inputs, detail=res)
            continue
        got = [res[1]] if scalar else list(np.asarray(res[1]).tolist())
        ctx.oracle('C20.b interp_left returns one value per query (a scalar for a scalar query)', len(got) == len(qs) and (not scalar or np.ndim(res[1]) == 0), inputs)
        ctx.oracle('C20.b interp_left leaves the node array unchanged (values and dtype)', xa.dtype == snap.dtype and np.array_equal(xa, snap), inputs)
        fx = [fr(v) for v in xs]
        for qv, g in zip(qs, got):
            j = max(i for i in range(n) if fx[i] <= fr(qv))
            ctx.oracle('C20.b left-interpolation returns the value at the greatest node not exceeding the query', fr(float(g)) == fr(float(yy[j])),
                       {**inputs, 'query': qv}, detail={'got': float(g), 'want': yy[j], 'node_index': j, 'node': xs[j], 'next_node': xs[j + 1] if j + 1 < n else None})


def _x3_interp2d(ctx, cur):
    from eqsig.fns.generic import interp2d
    rng = ctx.rng
    for it in range(120 if ctx.tier == 'quick' else 2000):
        ndt = ('float32', 'float16', 'int64', 'int32', 'float64', 'float32', 'int16')[it % 7]
        # node gaps exactly representable in the node type (whole numbers / eighths): the arithmetic the code does in that type is then exact, and the
        # 1e-9 budget of the float64 pipeline applies; decimal float64 nodes for the float32-query direction
        if ndt == 'float64':
            n = rng.choice([2, 3, 5, 9])
            k0 = rng.randint(-5, 20)
            step = rng.choice([0.1, 0.3, 0.01])
            axf = np.array([step * (k0 + k) for k in range(n)])
            qdt = rng.choice(['float32', 'float32', 'int64'])
        elif np.dtype(ndt).kind == 'i':
            axf = np.array(sorted(rng.sample(range(-30, 60), rng.choice([1, 2, 3, 5, 9]))), dtype=ndt)
            qdt = rng.choice(['float64', 'float64', 'float32', 'int64'])
        else:
            axf = np.array(sorted(rng.sample(range(-64, 200), rng.choice([1, 2, 3, 5, 9]))), dtype=float) / 8
            axf = axf.astype(ndt)
            qdt = 'float64'
        n = len(axf)
        w = rng.choice([1, 2, 3])
        fdt = rng.choice(['float64', 'float64', 'float32', 'int64'])
        f = [[(rng.randint(-64, 64) if fdt == 'int64' else rng.randint(-512, 512) / 8) for _ in range(w)] for _ in range(n)]
        af = np.array(f, dtype=fdt).reshape(n, w)
        xs = [float(v) for v in axf]
        qs = []
        for _ in range(rng.randint(1, 8)):
            c = rng.random()
            if c < 0.45:
                qs += _x3_query_values(rng, axf, qdt, 1, allow_below_first=True, near_first_ok=True)
            elif c < 0.8:
                q = rng.uniform(xs[0] - 0.5, xs[-1] + 0.5)
                q = round(q, rng.choice([1, 2, 3])) if rng.random() < 0.6 else q       # a decimal: not representable in single / half precision
                qs.append(float(np.dtype(qdt).type(q)) if qdt != 'int64' else float(round(q)))
            else:
                qs.append(float(rng.choice(xs)) if qdt != 'int64' else float(round(rng.choice(xs))))
        ax = np.array(qs, dtype=qdt)
        qs = [float(v) for v in ax]
        inputs = {'x': qs, 'x_dtype': qdt, 'xf': xs, 'xf_dtype': ndt, 'f': [list(r) for r in f], 'f_dtype': fdt}
        cur.clear()
        cur.update(inputs)
        ctx.hist(f'extras3/interp2d/{ndt} nodes x {qdt} queries')
        ctx.count_case(('x3i2', tuple(qs), tuple(xs), ndt, qdt, fdt, repr(f)), n >= 3)
        snap = (ax.copy(), axf.copy(), af.copy())
        res = call_impl(interp2d, ax, axf, af)
        ff = [[fr(float(v)) for v in r] for r in af.tolist()]
        scale = max([abs(v) for r in ff for v in r] + [Fraction(1, 10**300)])
        # NumPy evaluates float32 queries against float32 / float16 / int16 / uint8 nodes in SINGLE precision (its promotion rule for the
        # arguments as given): the rounding budget is then that of a single-precision pipeline (1e-6), on-node / clamped rows stay exact
        bud = Fraction(1, 10**6) if np.result_type(ax.dtype, axf.dtype) == np.float32 else R9
        ctx.hist('extras3/interp2d/arithmetic in ' + ('single' if bud != R9 else 'double') + ' precision')

        def compare(outs, val, nq=len(qs), w=w, scale=scale, bud=bud):
            val = np.asarray(val)
            if val.shape != (nq, w):
                return f"shape {val.shape}"
            msg, g = cmp_budget(flat(val), [v for row in outs for v in p_rats(row)], bud, scale=scale)
            if bud == R9:
                ctx.gap('interp2d', g)
            return msg
        ctx.corr('interp2d', f"interp2d|{w_rats(qs)}|{w_rats(xs)}|{n}|{w}|{w_rats([float(v) for r in af.tolist() for v in r])}", res, compare, inputs=inputs)
        if res[0] != 'ok':
            ctx.oracle('C20.a interp2d returns a table for strictly increasing nodes', False, inputs, detail=res)
            continue
        out = np.asarray(res[1])
        ctx.oracle('C20.a interp2d output has one row per query and one column per table column', out.shape == (len(qs), w), inputs, detail={'shape': out.shape})
        ctx.oracle('C20.a interp2d leaves its inputs unchanged', all(a.dtype == b.dtype and np.array_equal(a, b) for a, b in zip((ax, axf, af), snap)), inputs)
        if out.shape != (len(qs), w):
            continue
        fx = [fr(v) for v in xs]
        for k, qv in enumerate(qs):
            fq = fr(qv)
            want = spec_interp_row(fq, fx, ff)
            got = [fr(float(v)) for v in out[k].tolist()]
            on_node = fq in fx
            outside = fq <= fx[0] or fq >= fx[-1]
            ok = (got == want) if (on_node or outside) else all(abs(a - b) <= bud * scale for a, b in zip(got, want))
            where = 'on a node' if on_node else ('outside the node range' if outside else 'between nodes')
            ctx.oracle(f'C20.a table interpolation == column-wise linear interpolation with end clamping ({where})', ok, {**inputs, 'query': qv},
                       detail={'got': out[k].tolist(), 'want': [float(v) for v in want]})


def _x3_step_sequences(ctx, cur):
    """consecutive step fits of DIFFERENT series that agree in everything cheap to look at (length, dtype, first and last sample, sum, multiset of
    values): interior samples permuted / two samples exchanged / a +d -d pair moved -- each fit must be that of its own series (existing do_step
    correspondence and C20.d / C20.e oracles; float arrays and float lists)"""
    rng = ctx.rng
    for it in range(40 if ctx.tier == 'quick' else 600):
        n = rng.choice([4, 5, 6, 8, 12, 20])
        kind = rng.choice(['counts', 'plateau', 'twolevel', 'dyadic'])
        if kind == 'counts':
            v = [float(rng.randint(0, 6)) for _ in range(n)]
        elif kind == 'plateau':
            v = gen.plateau_record(rng, n).tolist()
        elif kind == 'dyadic':
            v = gen.dyadic_record(rng, n).tolist()
        else:
            k = rng.randrange(1, n)
            v = [rng.choice([0.0, 0.25, -0.25]) + (3.0 if i >= k else -1.0) for i in range(n)]
        chain = [v]
        for _ in range(rng.choice([1, 2, 3])):
            u = list(chain[-1])
            op = rng.choice(['permute interior', 'exchange two', 'move a pair'])
            if op == 'permute interior':
                mid = u[1:-1]
                rng.shuffle(mid)
                u = [u[0]] + mid + [u[-1]]
            elif op == 'exchange two':
                i, j = rng.sample(range(1, n - 1), 2) if n >= 4 else (1, 1)
                u[i], u[j] = u[j], u[i]
            else:
                i, j = rng.sample(range(1, n - 1), 2) if n >= 4 else (1, 1)
                d = rng.choice([0.5, 1.0, 2.0])
                u[i], u[j] = u[i] + d, u[j] - d                       # same ends and (exactly) the same sum, another multiset
            chain.append(u)
        cont = rng.choice(['float_array', 'float_array', 'float_list'])
        cur.clear()
        cur.update({'series fitted one after the other': chain, 'container': cont})
        pows = rng.choice([(1,), (2,), (1, 2)])
        for u in chain:
            do_step(ctx, u, 'consecutive rearranged series/' + kind, cont, pows=pows, dirs=(None,), inds=())
    ctx.flush()


def extras3(ctx):
    from _hxb_common import guarded_sections
    guarded_sections(ctx, 'C20', [('mixed-precision interp_left', _x3_interp_left), ('mixed-precision interp2d', _x3_interp2d), ('step sequences', _x3_step_sequences)])
    ctx.flush()


_run_main3 = run


def run(ctx):
    _run_main3(ctx)
    extras3(ctx)
    ctx.flush()
