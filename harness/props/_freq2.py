"""_freq2 — correspondence + spec oracles for the Fourier / smoothing leftovers of C06 and C07 (agent tw_freq2).

    corr_freq2_c06(ctx)   calc_fourier_moment, get_bandwidth_boore_2003, fas2signal                       (call from props/c06.py)
    corr_freq2_c07(ctx)   get_sig_freq_range, generate_smooth_fa_spectrum (alias), Signal smoothing-frequency setters /
                          gen_smooth_fa_spectrum (object level)                                            (call from props/c07.py)
    corr_freq2(ctx)       both

Driver handlers: lean/EqsigVerif/Handlers/Freq2.lean.  `np.trapz` does not exist in NumPy >= 2.4 (the pinned 2.5.3): every call of
calc_fourier_moment / get_bandwidth_boore_2003 raises AttributeError there.  Both situations are compared with the model (flag
`hasTrapz`): the unmodified NumPy (AttributeError on both sides) and, inside `trapz_shim()`, a NumPy where `np.trapz` is
`np.trapezoid` (what the function computed before the removal).  /repo is never modified; the shim is an attribute of the numpy module
set and removed around each call.
"""
import contextlib
import math
from fractions import Fraction

import numpy as np

from core import call_impl, cmp_budget, cmp_exact, fr, p_floats, p_rats, w_bool, w_float, w_floats, w_rat, w_rats

R9 = Fraction(1, 10 ** 9)


@contextlib.contextmanager
def trapz_shim():
    """np.trapz = np.trapezoid for the duration of the block, when the installed NumPy has no np.trapz"""
    missing = not hasattr(np, 'trapz')
    if missing:
        np.trapz = np.trapezoid
    try:
        yield missing
    finally:
        if missing:
            del np.trapz


class Duck:
    """what calc_fourier_moment / get_sig_freq_range read of `asig`"""

    def __init__(self, **kw):
        self.__dict__.update(kw)


def w_cx(z):
    out = []
    for c in np.asarray(z, dtype=complex).tolist():
        out += [c.real, c.imag]
    return w_rats(out)


def w_cxf(z):
    out = []
    for c in np.asarray(z, dtype=complex).tolist():
        out += [c.real, c.imag]
    return w_floats(out)


def dy(rng, lo=-8, hi=8, k=2):
    return rng.randint(lo * 2 ** k, hi * 2 ** k) / 2 ** k


def freq_grid(rng, n, kind):
    if kind == 'uniform':
        df = rng.choice([0.25, 0.5, 1.0, 2.0])
        return [i * df for i in range(n)]
    if kind == 'ascending':
        f, out = rng.choice([0.0, 0.25, 1.0]), []
        for _ in range(n):
            out.append(f)
            f += rng.choice([0.25, 0.5, 0.75, 1.0, 2.0])
        return out
    if kind == 'ties':
        f, out = 0.0, []
        for _ in range(n):
            out.append(f)
            f += rng.choice([0.0, 0.5, 1.0])
        return out
    return [dy(rng, -4, 4) for _ in range(n)]          # 'any': not monotone, negative entries


def spectrum(rng, n, kind):
    if kind == 'real+':
        return [abs(dy(rng)) for _ in range(n)]
    if kind == 'real':
        return [dy(rng) for _ in range(n)]
    if kind == 'zero':
        return [0.0] * n
    return [complex(dy(rng), dy(rng)) for _ in range(n)]


def _cx_of(toks):
    v = p_rats(toks)
    return v


def moment_scale(freqs, fas, n):
    """a magnitude for rounding budgets: 2*trapezoid of |integrand| with |d| (float arithmetic is good enough for a scale)"""
    f = np.asarray(freqs, dtype=float)
    if len(f) < 2 or len(fas) != len(f):
        return 1.0
    g = np.abs((2 * np.pi * f) ** n) * np.abs(np.asarray(fas)) ** 2
    return float(2 * np.sum(np.abs(np.diff(f)) * (g[1:] + g[:-1]) / 2.0)) or 1.0


def exact_moment(freqs, fas, n, pi):
    """the property's formula in exact arithmetic: 2 * sum_i (f[i+1]-f[i]) * (g[i+1]+g[i]) / 2, g = (2 pi f)^n A^2 (complex as pairs)"""
    f = [fr(x) for x in freqs]
    re, im = [], []
    for x, a in zip(f, fas):
        a = complex(a)
        ar, ai = fr(a.real), fr(a.imag)
        w = (2 * pi * x) ** n
        re.append(w * (ar * ar - ai * ai))
        im.append(w * (2 * ar * ai))
    sr = sum(((f[i + 1] - f[i]) * (re[i + 1] + re[i]) / 2 for i in range(len(f) - 1)), Fraction(0))
    si = sum(((f[i + 1] - f[i]) * (im[i + 1] + im[i]) / 2 for i in range(len(f) - 1)), Fraction(0))
    return 2 * sr, 2 * si


def cmp_cx_budget(ctx, fn, toks, val, scale, rel=R9):
    m = p_rats(toks)
    v = complex(val)
    if not (math.isfinite(v.real) and math.isfinite(v.imag)):
        return f"impl value not finite: {v}"
    msg, g = cmp_budget([v.real, v.imag], m, rel, scale=scale)
    ctx.gap(fn, g)
    return msg


def cmp_cxf_budget(ctx, fn, toks, val, rel=R9, scale=None):
    m = p_floats(toks)
    v = complex(val)
    if any(x != x for x in m) or v != v:
        return None if (any(x != x for x in m) and (v.real != v.real or v.imag != v.imag)) else f"nan mismatch impl={v} model={m}"
    sc = scale if scale is not None else max(abs(v), math.hypot(*m), 1e-300)
    msg, g = cmp_budget([v.real, v.imag], m, rel, scale=sc)
    ctx.gap(fn, g)
    return msg


# ------------------------------------------------------------------------------------------------
# C06: Fourier moments, Boore bandwidth
# ------------------------------------------------------------------------------------------------

def moment_case(ctx, fq, freqs, fas, kind, inputs):
    PI = fr(np.pi)
    fa = np.array(freqs, dtype=float)
    A = np.array(fas)
    duck = Duck(fa_frequencies=fa, fa_spectrum=A)
    real = not np.iscomplexobj(A)
    wire_A = w_rats(fas) if real else w_cx(fas)
    h = 'fmoment_real_q' if real else 'fmoment_q'
    ctx.hist('moment/' + kind)
    ctx.count_case(('moment', tuple(freqs), tuple(map(complex, fas))), len(freqs) >= 3, sample=None)
    # (1) the installed NumPy as it is
    has = hasattr(np, 'trapz')
    res = call_impl(fq.calc_fourier_moment, duck, 2)
    ctx.corr('calc_fourier_moment (installed NumPy)', f"{h}|{w_bool(has)}|{w_rat(PI)}|2|{w_rats(freqs)}|{wire_A}", res,
             lambda outs, val: None if has else 'impl returned a value although np.trapz is missing', inputs=inputs)
    # (2) with np.trapz available
    with trapz_shim():
        moms = {}
        for n in (0, 1, 2, 3, 4, ctx.rng.choice([5, 6])):
            res = call_impl(fq.calc_fourier_moment, duck, n)
            moms[n] = res
            sc = moment_scale(freqs, fas, n)
            exact = (n == 0)
            def cmp(outs, val, n=n, sc=sc, exact=exact):
                m = p_rats(outs[0])
                v = complex(val)
                if real:
                    m = m + [Fraction(0)]
                if exact:
                    return cmp_exact([v.real, v.imag], m)
                return cmp_cx_budget(ctx, 'calc_fourier_moment', [str(x) for x in m], val, sc)
            ctx.corr('calc_fourier_moment', f"{h}|T|{w_rat(PI)}|{n}|{w_rats(freqs)}|{wire_A}", res, cmp, inputs={**inputs, 'n': n})
            if res[0] == 'ok' and len(freqs) == len(fas):
                er, ei = exact_moment(freqs, fas, n, PI)
                v = complex(res[1])
                tol = 0 if n == 0 else R9 * fr(sc)
                ctx.oracle('C06.m calc_fourier_moment(n) == 2*trapezoid((2*pi*f)^n * A^2) on the frequency grid',
                           abs(fr(v.real) - er) <= tol and abs(fr(v.imag) - ei) <= tol, {**inputs, 'n': n},
                           detail={'impl': [v.real, v.imag], 'want': [float(er), float(ei)]})
                asc = all(freqs[i] <= freqs[i + 1] for i in range(len(freqs) - 1))
                if real and asc and (n % 2 == 0 or all(x >= 0 for x in freqs)):
                    ctx.oracle('C06.m moments of a real spectrum on an ascending grid are >= 0', v.imag == 0 and v.real >= -1e-12 * sc, {**inputs, 'n': n},
                               detail={'impl': v.real})
                # amplitude scaling by a power of two is exact: m(2A) = 4 m(A)
                r2 = call_impl(fq.calc_fourier_moment, Duck(fa_frequencies=fa, fa_spectrum=2 * A), n)
                ctx.oracle('C06.m moment scales with alpha^2 under amplitude scaling (alpha = 2, exact)', r2[0] == 'ok' and complex(r2[1]) == 4 * v,
                           {**inputs, 'n': n}, detail={'m(2A)': str(r2[1]), '4m(A)': str(4 * v)})
        # Boore bandwidth
        rb = call_impl(fq.get_bandwidth_boore_2003, duck)
        okm = all(moms[k][0] == 'ok' for k in (0, 2, 4))
        cond = False
        if okm:
            m0, m2, m4 = (complex(moms[k][1]) for k in (0, 2, 4))
            den = abs(m0 * m4)
            cond = den > 1e-6 * moment_scale(freqs, fas, 0) * moment_scale(freqs, fas, 4)
        ctx.hist('boore/' + ('well-conditioned' if cond else 'ill-conditioned or raising'))
        hb = 'boore_real_f' if real else 'boore_f'
        wf = w_floats(fas) if real else w_cxf(fas)
        if cond or rb[0] == 'err':
            def cmpb(outs, val):
                toks = outs[0] if not real else outs[0] + [w_float(0.0)]
                return cmp_cxf_budget(ctx, 'get_bandwidth_boore_2003', toks, val, rel=Fraction(1, 10 ** 8))
            ctx.corr('get_bandwidth_boore_2003 (Float twin)', f"{hb}|T|{w_floats(freqs)}|{wf}", rb, cmpb, inputs=inputs)
            hr = 'boore_real_ratio_q' if real else 'boore_ratio_q'
            def cmpr(outs, val):
                m = p_rats(outs[0]) + ([Fraction(0)] if real else [])
                if outs[1] != ['T']:
                    return 'model says m0*m4 == 0 on a well-conditioned case'
                if complex(val) != complex(val):
                    # np.sqrt of a negative real number (real spectrum on a non-monotone grid): nan, no exception
                    return None if (real and m[0] < 0) else f"impl is nan, model ratio {[float(x) for x in m]}"
                b2 = complex(val) ** 2
                msg, g = cmp_budget([b2.real, b2.imag], m, Fraction(1, 10 ** 7), scale=max(abs(b2), 1e-300))
                ctx.gap('boore ratio', g)
                return msg
            ctx.corr('get_bandwidth_boore_2003 ** 2 (exact ratio)', f"{hr}|T|{w_rat(PI)}|{w_rats(freqs)}|{wire_A}", rb, cmpr, inputs=inputs)
        elif okm and all(complex(a) == 0 for a in fas):
            ctx.corr('get_bandwidth_boore_2003 (zero spectrum: nan)', f"{'boore_real_ratio_q' if real else 'boore_ratio_q'}|T|{w_rat(PI)}|{w_rats(freqs)}|{wire_A}",
                     rb, lambda outs, val: None if (outs[1] == ['F'] and complex(val) != complex(val)) else f"impl={val} model defined={outs[1]}", inputs=inputs)
        if rb[0] == 'ok' and cond and complex(rb[1]) == complex(rb[1]):
            b = complex(rb[1])
            asc = all(freqs[i] <= freqs[i + 1] for i in range(len(freqs) - 1))
            if real and asc:
                ctx.oracle('C06.m Boore bandwidth of a real spectrum on an ascending grid lies in [0, 1]', b.imag == 0 and -1e-12 <= b.real <= 1 + 1e-9, inputs,
                           detail={'bandwidth': [b.real, b.imag]})
            elif not real and not (b.imag == 0 and 0 <= b.real <= 1 + 1e-9):
                ctx.hist('boore/complex spectrum: value outside the real interval [0,1] (recorded, not claimed)')
            r2 = call_impl(fq.get_bandwidth_boore_2003, Duck(fa_frequencies=fa, fa_spectrum=4 * A))
            ctx.oracle('C06.m Boore bandwidth is invariant under amplitude scaling (alpha = 4, bit-exact)', r2[0] == 'ok' and complex(r2[1]) == b, inputs,
                       detail={'b': str(b), 'b(4A)': str(r2[1])})
            r3 = call_impl(fq.get_bandwidth_boore_2003, Duck(fa_frequencies=2 * fa, fa_spectrum=A))
            ctx.oracle('C06.m Boore bandwidth is invariant under frequency scaling (c = 2, bit-exact)', r3[0] == 'ok' and complex(r3[1]) == b, inputs,
                       detail={'b': str(b), 'b(2f)': str(r3[1])})


def signal_moment_case(ctx, fq, eqsig, v, dt, cls_name):
    """object level: a real record; its Fourier spectrum is complex, the moments are taken of A^2 (not |A|^2)"""
    asig = getattr(eqsig, cls_name)(np.array(v), dt)
    inputs = {'values': v, 'dt': dt, 'cls': cls_name}
    fa = np.array(asig.fa_frequencies)
    A = np.array(asig.fa_spectrum)
    PI = fr(np.pi)
    ctx.hist('moment/object ' + cls_name)
    ctx.count_case(('moment-object', tuple(v), dt, cls_name), len(v) >= 4)
    with trapz_shim():
        for n in (0, 2, 4):
            res = call_impl(fq.calc_fourier_moment, asig, n)
            sc = moment_scale(fa, A, n)
            ctx.corr('calc_fourier_moment (Signal object)', f"fmoment_q|T|{w_rat(PI)}|{n}|{w_rats(fa)}|{w_cx(A)}", res,
                     lambda outs, val, sc=sc: cmp_cx_budget(ctx, 'calc_fourier_moment(object)', outs[0], val, sc), inputs={**inputs, 'n': n})
        rb = call_impl(fq.get_bandwidth_boore_2003, asig)
        if rb[0] == 'ok':
            b = complex(rb[1])
            if b == b and not (b.imag == 0 and 0 <= b.real <= 1):
                ctx.hist('boore/Signal object: bandwidth not a real number in [0,1] (recorded, not claimed)')


def fas2signal_case(ctx, fq, eqsig, fas, dt, stype, inputs):
    ctx.hist('fas2signal/stype=' + repr(stype))
    ctx.count_case(('fas2signal', tuple(map(complex, fas)), dt, stype), len(fas) >= 2)
    A = np.array(fas, dtype=complex)
    res = call_impl(fq.fas2signal, A, dt, stype) if stype is not None else call_impl(fq.fas2signal, A, dt)
    rv = call_impl(fq.fas2values, A, dt)
    is_sig = stype in (None, 'signal')
    def cmp(outs, val):
        name = 'Signal' if type(val) is eqsig.Signal else ('AccSignal' if type(val) is eqsig.AccSignal else type(val).__name__)
        if outs[0] != [name]:
            return f"class impl={name} model={outs[0]}"
        m = p_floats(outs[1])
        z = np.asarray(val.values, dtype=complex)
        flat = []
        for c in z.tolist():
            flat += [c.real, c.imag]
        sc = max(float(np.max(np.abs(A))) / abs(dt) if len(A) and dt else 1.0, 1e-300)
        msg, g = cmp_budget(flat, m, R9, scale=sc)
        ctx.gap('fas2signal', g)
        if msg:
            return msg
        return cmp_exact([val.dt], p_floats(outs[2]))
    ctx.corr('fas2signal (Float twin)', f"fas2signal|{w_bool(is_sig)}|{w_float(dt)}|{w_cxf(fas)}", res, cmp, inputs=inputs)
    if res[0] == 'ok':
        s = res[1]
        ctx.oracle('C06.g fas2signal returns Signal iff stype == "signal" (AccSignal otherwise), with the given dt',
                   (type(s) is eqsig.Signal) == is_sig and (type(s) is eqsig.AccSignal) == (not is_sig) and s.dt == dt, inputs, detail={'type': type(s).__name__})
        ctx.oracle('C06.g fas2signal(...).values == fas2values(...) (bit-exact), 2*len(fas) samples',
                   rv[0] == 'ok' and np.array_equal(np.asarray(s.values), np.asarray(rv[1])) and len(s.values) == 2 * len(fas) == s.npts, inputs)
    else:
        ctx.oracle('C06.g fas2signal raises exactly when fas2values raises (same kind)', rv == res, inputs, detail={'fas2values': str(rv), 'fas2signal': str(res)})


def corr_freq2_c06(ctx):
    import eqsig
    from eqsig.fns import frequency as fq
    rng = ctx.rng
    big = ctx.tier != 'quick'
    # fixed corpus: edge cases and raising inputs
    corpus = [([], []), ([1.0], [2.0]), ([0.0, 1.0], [1.0, 1.0]), ([0.0, 0.5, 1.0], [1.0, 2.0, 3.0]), ([0.0, 1.0, 2.0], [1.0]), ([1.0], [1.0, 2.0, 3.0]),
              ([0.0, 1.0, 2.0], [1.0, 2.0]), ([0.0, 1.0], [1.0, 2.0, 3.0, 4.0]), ([0.0, 0.25], [1.0, -1j]), ([0.0, 0.25, 0.5, 0.75], [1, -1j, -1, 1j]),
              ([0.0, 1.0, 2.0, 3.0], [0.0, 0.0, 0.0, 0.0]), ([0.0, 1.0, 1.0, 2.0], [1.0, 2.0, 2.0, 1.0]), ([2.0, 1.0, 0.0], [1.0, 2.0, 3.0]),
              ([-1.0, 0.0, 1.0], [1.0, 1.0, 1.0]), ([0.0, 1.0, 2.0], [1j, 1j, 1j]), ([0.0, 1.0, 2.0], [1.0, 1j, 1.0]), ([0.0, 1.0, 2.0], [0.0, 0.0, 1.0])]
    for fs, A in corpus:
        moment_case(ctx, fq, fs, A, 'corpus', {'fa_frequencies': fs, 'fa_spectrum': [str(a) for a in A], 'kind': 'corpus'})
    ctx.flush()
    n_rand = 260 if big else 60
    for i in range(n_rand):
        n = rng.choice([2, 3, 3, 4, 5, 6, 8, 12, 16 if big else 9])
        gk = rng.choice(['uniform', 'ascending', 'ascending', 'ties', 'any'])
        sk = rng.choice(['real+', 'real+', 'real', 'complex', 'complex', 'zero' if i % 20 == 0 else 'real+'])
        fs, A = freq_grid(rng, n, gk), spectrum(rng, n, sk)
        moment_case(ctx, fq, fs, A, gk + '/' + sk, {'fa_frequencies': fs, 'fa_spectrum': [str(a) for a in A], 'kind': gk + '/' + sk})
        if i % 50 == 49:
            ctx.flush()
    ctx.flush()
    # object level: Signal / AccSignal records
    recs = [([0, 1, 0, 0], 1.0), ([1, 2, -1, 3, 0, 1, 2, 1], 0.5), ([1, 0, 0, 0, 0, 0, 0, 0], 0.25), ([1, 1, 1, 1], 0.5), ([1, -1, 1, -1, 1, -1], 0.125)]
    for _ in range(24 if big else 8):
        recs.append(([dy(rng) for _ in range(rng.choice([3, 4, 5, 8, 11, 16]))], rng.choice([0.5, 0.25, 0.125, 1.0])))
    for v, dt in recs:
        signal_moment_case(ctx, fq, eqsig, v, dt, rng.choice(['Signal', 'AccSignal']))
    ctx.flush()
    # fas2signal
    cases = [([], 0.5, 'signal'), ([1.0], 0.5, 'signal'), ([1.0], 0.5, 'acc'), ([3, -1 - 1j], 0.5, None), ([3, -1 - 1j], 0.5, 'signal'),
             ([3, -1 - 1j], 0.5, 'Signal'), ([3, -1 - 1j], 0.5, ''), ([0, 1, 2j, 3], 0.25, 'accsig')]
    for _ in range(60 if big else 16):
        L = rng.choice([1, 2, 3, 4, 5, 7, 8, 16])
        cases.append(([complex(dy(rng), dy(rng)) for _ in range(L)], rng.choice([0.5, 0.25, 0.01, 1.0, 2.0]), rng.choice(['signal', 'acc', 'accsig', None, 'SIGNAL'])))
    for fas, dt, st in cases:
        fas2signal_case(ctx, fq, eqsig, fas, dt, st, {'fas': [str(complex(a)) for a in fas], 'dt': dt, 'stype': st})
    ctx.flush()


# ------------------------------------------------------------------------------------------------
# C07: get_sig_freq_range, alias, smoothing-frequency bookkeeping of Signal
# ------------------------------------------------------------------------------------------------

def cmp_f(ctx, fn, toks, val, rel=R9, scale=None):
    m = p_floats(toks)
    v = [float(x) for x in np.asarray(val, dtype=float).ravel()]
    if len(m) != len(v):
        return f"length impl={len(v)} model={len(m)}"
    if any(x != x or abs(x) == float('inf') for x in m + v):
        return None if [repr(x) for x in m] == [repr(x) for x in v] else f"non-finite mismatch impl={v[:4]} model={m[:4]}"
    msg, g = cmp_budget(v, m, rel, scale=scale)
    ctx.gap(fn, g)
    return msg


def freq_range_case(ctx, fq, smooth, freqs, ratio, inputs):
    duck = Duck(smooth_fa_spectrum=np.array(smooth, dtype=float), smooth_fa_frequencies=np.array(freqs, dtype=float))
    ctx.hist('get_sig_freq_range/ratio=' + str(ratio))
    ctx.count_case(('sfr', tuple(smooth), tuple(freqs), ratio), len(smooth) >= 3)
    res = call_impl(fq.get_sig_freq_range, duck, ratio) if ratio is not None else call_impl(fq.get_sig_freq_range, duck)
    rq = 15 if ratio is None else ratio
    ctx.corr('get_sig_freq_range', f"sig_freq_range_q|{w_rat(rq)}|{w_rats(smooth)}|{w_rats(freqs)}", res,
             lambda outs, val: cmp_exact([float(x) for x in val], p_rats(outs[0])), inputs=inputs)
    ri = call_impl(fq.get_sig_array_indexes_range, duck.smooth_fa_spectrum, rq)
    if res[0] == 'ok':
        lim = fr(max(smooth)) / fr(rq) if smooth else None
        idx = [i for i, x in enumerate(smooth) if fr(x) > lim] if smooth else []
        want = [freqs[idx[0]], freqs[idx[-1]]] if idx and idx[-1] < len(freqs) else None
        got = [float(x) for x in np.asarray(res[1]).ravel()]
        ctx.oracle('C07.d get_sig_freq_range == the smoothing frequencies at the first and last index where smooth > max/ratio',
                   want is not None and got == want, inputs, detail={'impl': got, 'want': want})
        if want is not None and len(got) == 2 and all(freqs[i] <= freqs[i + 1] for i in range(len(freqs) - 1)) and smooth.index(max(smooth)) < len(freqs):
            pk = freqs[smooth.index(max(smooth))]
            ctx.oracle('C07.d get_sig_freq_range is ordered and brackets the peak on an ascending frequency array (ratio > 1, max > 0)',
                       not (rq > 1 and max(smooth) > 0) or got[0] <= pk <= got[1], inputs)
    else:
        ctx.oracle('C07.d get_sig_freq_range raises exactly when the index function raises or an index is outside the frequency array',
                   ri[0] == 'err' and ri[1] == res[1] or (ri[0] == 'ok' and res[1] == 'IndexError' and max(int(ri[1][0]), int(ri[1][1])) >= len(freqs)), inputs,
                   detail={'indexes': str(ri), 'freq_range': str(res)})


def alias_case(ctx, fq, fa_f, A, sm, band, inputs):
    ctx.hist('generate_smooth_fa_spectrum alias')
    ctx.count_case(('alias', tuple(fa_f), tuple(A), None if sm is None else tuple(sm), band), len(fa_f) >= 3)
    fa = np.array(fa_f, dtype=float)
    Aa = np.array(A, dtype=float)
    sma = None if sm is None else np.array(sm, dtype=float)
    res = call_impl(fq.generate_smooth_fa_spectrum, sma, fa, Aa, band) if band is not None else call_impl(fq.generate_smooth_fa_spectrum, sma, fa, Aa)
    b = 40 if band is None else band
    ref = call_impl(fq.calc_smooth_fa_spectrum, fa, Aa, sma, band=b)
    sc = max(float(np.max(np.abs(Aa))) if len(Aa) else 0.0, 1e-300)
    ctx.corr('generate_smooth_fa_spectrum (Float twin)', f"gen_smooth_alias_f|{w_float(b)}|{'-' if sm is None else w_floats(sm)}|{w_floats(fa_f)}|{w_floats(A)}", res,
             lambda outs, val: cmp_f(ctx, 'generate_smooth_fa_spectrum', outs[0], val, scale=sc), inputs=inputs)
    same = res[0] == ref[0] and (res[1] == ref[1] if res[0] == 'err' else np.array_equal(np.asarray(res[1]), np.asarray(ref[1]), equal_nan=True))
    ctx.oracle('C07 generate_smooth_fa_spectrum(sm, f, A, band) == calc_smooth_fa_spectrum(f, A, sm, band) (bit-exact; default band 40)', same, inputs)


def setters_case(ctx, eqsig, fq, v, dt, cls_name, script, inputs):
    """object history on the smoothing frequencies: each step is compared with the model's prediction of the new `smooth_fa_freqs`"""
    cls = getattr(eqsig, cls_name)
    ctx.count_case(('setters', tuple(v), dt, cls_name, repr(script)), True)
    s = cls(np.array(v, dtype=float), dt)
    cur = np.array(s.smooth_fa_freqs)
    ctx.corr('Signal.__init__ default smoothing frequencies', f"set_by_range_f|{w_floats([0.1, 30])}|50", ('ok', cur),
             lambda outs, val: cmp_f(ctx, 'logspace', outs[0], val, rel=Fraction(1, 10 ** 12)), inputs=inputs)
    ctx.oracle('C07 default smoothing frequencies: 50 points from 0.1 to 30 (log-spaced, endpoints to 1e-12)',
               len(cur) == 50 and abs(cur[0] - 0.1) <= 1e-13 and abs(cur[-1] - 30) <= 3e-11 and bool(np.all(np.diff(np.log10(cur)) > 0)), inputs)
    for step in script:
        op = step[0]
        ctx.hist('setters/' + op)
        cur = np.array(s.smooth_fa_freqs, dtype=float)
        if op == 'by_range':
            _, lim, n = step
            res = call_impl(s.set_smooth_fa_frequecies_by_range, lim, n)
            res = ('ok', np.array(s.smooth_fa_freqs)) if res[0] == 'ok' else res
            ctx.corr('Signal.set_smooth_fa_frequecies_by_range', f"set_by_range_f|{w_floats(lim)}|{n}", res,
                     lambda outs, val: cmp_f(ctx, 'logspace', outs[0], val, rel=Fraction(1, 10 ** 12)), inputs={**inputs, 'step': step})
            if res[0] == 'ok':
                new = res[1]
                ctx.oracle('C07 set_smooth_fa_frequecies_by_range(limits, n): n log-spaced points from limits[0] to limits[1]',
                           len(new) == n and (n == 0 or abs(new[0] - lim[0]) <= 1e-12 * abs(lim[0])) and (n < 2 or abs(new[-1] - lim[1]) <= 1e-12 * abs(lim[1])),
                           {**inputs, 'step': step})
        elif op == 'range_set':
            _, lim = step
            def do():
                s.smooth_freq_range = lim
                return np.array(s.smooth_fa_freqs)
            res = call_impl(do)
            ctx.corr('Signal.smooth_freq_range setter', f"freq_range_set_f|{w_floats(cur)}|{w_floats(lim)}", res,
                     lambda outs, val: cmp_f(ctx, 'logspace', outs[0], val, rel=Fraction(1, 10 ** 12)), inputs={**inputs, 'step': step})
            if res[0] == 'ok':
                ctx.oracle('C07 smooth_freq_range = limits keeps the current number of smoothing frequencies', len(res[1]) == len(cur), {**inputs, 'step': step},
                           detail={'before': len(cur), 'after': len(res[1])})
        elif op == 'points_set':
            _, n = step
            def do():
                s.smooth_freq_points = n
                return np.array(s.smooth_fa_freqs)
            res = call_impl(do)
            ctx.corr('Signal.smooth_freq_points setter', f"freq_points_set_f|{w_floats(cur)}|{int(n)}", res,
                     lambda outs, val: cmp_f(ctx, 'logspace', outs[0], val, rel=Fraction(1, 10 ** 12)), inputs={**inputs, 'step': step})
            if res[0] == 'ok' and len(cur):
                new = res[1]
                ctx.oracle('C07 smooth_freq_points = n: n log-spaced points between the current first and last smoothing frequency',
                           len(new) == int(n) and (int(n) < 2 or (abs(new[0] - cur[0]) <= 1e-12 * abs(cur[0]) and abs(new[-1] - cur[-1]) <= 1e-12 * abs(cur[-1]))),
                           {**inputs, 'step': step})
        elif op == 'range_get':
            res = call_impl(lambda: s.smooth_freq_range)
            ctx.corr('Signal.smooth_freq_range getter', f"freq_range_get_f|{w_floats(cur)}", res,
                     lambda outs, val: cmp_exact([float(val[0]), float(val[1])], p_floats(outs[0])), inputs={**inputs, 'step': step})
            rp = call_impl(lambda: s.smooth_freq_points)
            ctx.oracle('C07 smooth_freq_points == len(smooth_fa_freqs)', rp == ('ok', len(cur)), {**inputs, 'step': step})
        elif op == 'assign':
            _, arr = step
            s.smooth_fa_freqs = np.array(arr)
        elif op == 'gen':
            _, given, band = step
            fa_f = np.array(s.fa_freqs)
            fa_s = np.array(s.fa_spectrum)
            kw = {}
            if given is not None:
                kw['smooth_fa_freqs'] = np.array(given, dtype=float)
            if band is not None:
                kw['band'] = band
            def do():
                s.gen_smooth_fa_spectrum(**kw)
                return np.array(s.smooth_fa_spectrum), np.array(s.smooth_fa_freqs)
            res = call_impl(do)
            b = 40 if band is None else band
            sc = max(float(np.max(np.abs(fa_s[1:]))) if len(fa_s) > 1 else 0.0, 1e-300)
            def cmp(outs, val, sc=sc):
                m = cmp_f(ctx, 'Signal.gen_smooth_fa_spectrum', outs[0], val[0], scale=sc)
                return m or cmp_exact([float(x) for x in val[1]], p_floats(outs[1]))
            ctx.corr('Signal.gen_smooth_fa_spectrum (object level, Float twin)',
                     f"signal_gen_smooth_f|{w_float(b)}|{w_floats(fa_f)}|{w_floats(np.abs(fa_s))}|{'-' if given is None else w_floats(given)}|{w_floats(cur)}", res, cmp,
                     inputs={**inputs, 'step': step})
            if res[0] == 'ok':
                tg = cur if given is None else np.array(given, dtype=float)
                want = call_impl(fq.calc_smooth_fa_spectrum, fa_f, fa_s, tg, band=b)
                ctx.oracle('C07 object level = array level: gen_smooth_fa_spectrum(given, band) stores calc_smooth_fa_spectrum(fa_freqs, fa_spectrum, '
                           'given-or-current targets, band) and leaves exactly those targets in smooth_fa_freqs (bit-exact)',
                           want[0] == 'ok' and np.array_equal(res[1][0], np.asarray(want[1]), equal_nan=True) and np.array_equal(res[1][1], tg)
                           and np.array_equal(np.asarray(s.smooth_fa_spectrum), res[1][0], equal_nan=True), {**inputs, 'step': step})


def corr_freq2_c07(ctx):
    import eqsig
    from eqsig.fns import frequency as fq
    rng = ctx.rng
    big = ctx.tier != 'quick'
    # ---- get_sig_freq_range
    corpus = [([], [], 2), ([1.0], [0.5], 2), ([0.0, 0.0], [1.0, 2.0], 2), ([1.0, 4.0, 2.0, 1.0], [0.5, 1.0, 2.0, 4.0], 2), ([1.0, 4.0, 2.0, 1.0], [0.5, 1.0], 4),
              ([15.0, 30.0, 45.0, 3.0, 1.0], [1.0, 2.0, 3.0, 4.0, 5.0], None), ([15.0, 30.0, 45.0, 3.0, 15.0], [1.0, 2.0, 3.0], None),
              ([-1.0, -2.0], [1.0, 2.0], 2), ([1.0, 2.0, 4.0], [3.0, 2.0, 1.0], 2)]
    for sm, fs, ratio in corpus:
        freq_range_case(ctx, fq, sm, fs, ratio, {'smooth': sm, 'freqs': fs, 'ratio': ratio})
    for _ in range(150 if big else 40):
        n = rng.choice([1, 2, 3, 4, 6, 9, 14])
        ratio = rng.choice([None, 2, 4, 8, 16, 0.5, 1])
        mult = 15.0 if ratio is None else 1.0
        sm = [mult * rng.choice([0, 1, 1, 2, 3, 5, 8, 13, 0.5, 0.25]) for _ in range(n)]
        nf = n if rng.random() < 0.85 else rng.choice([max(n - 1, 0), n + 1, 1])
        fs = freq_grid(rng, nf, rng.choice(['ascending', 'uniform', 'any']))
        freq_range_case(ctx, fq, sm, fs, ratio, {'smooth': sm, 'freqs': fs, 'ratio': ratio})
    ctx.flush()
    # ---- alias
    for _ in range(60 if big else 16):
        n = rng.choice([2, 3, 5, 8, 12])
        zero = rng.random() < 0.5
        fa_f = [(i if zero else i + 1) * 0.25 for i in range(n)]
        A = [dy(rng) for _ in range(n)]
        smk = rng.choice(['none', 'grid', 'off', 'mixed'])
        sm = None if smk == 'none' else ([f for f in fa_f if f > 0][:3] if smk == 'grid' else ([0.3, 0.7, 1.9] if smk == 'off' else [0.25, 0.3, 1.0, 5.0]))
        band = rng.choice([None, 5, 20, 40, 100])
        alias_case(ctx, fq, fa_f, A, sm, band, {'fa_frequencies': fa_f, 'fa_spectrum': A, 'smooth_fa_frequencies': sm, 'band': band})
    for fa_f, A, sm, band in [([], [], None, 40), ([0.0], [1.0], None, 40), ([0.0, 1.0], [1.0, 2.0], None, None), ([1.0, 2.0], [1.0, 2.0, 3.0], None, 40)]:
        alias_case(ctx, fq, fa_f, A, sm, band, {'fa_frequencies': fa_f, 'fa_spectrum': A, 'smooth_fa_frequencies': sm, 'band': band})
    ctx.flush()
    # ---- smoothing-frequency bookkeeping of Signal
    scripts = [
        [('range_get',), ('gen', None, None), ('range_set', [0.5, 10.0]), ('range_get',), ('gen', None, 20)],
        [('points_set', 7), ('range_get',), ('gen', None, None), ('points_set', 1), ('range_get',), ('points_set', 3)],
        [('by_range', [0.2, 20.0], 5), ('gen', [0.5, 1.0, 2.0], 40), ('range_get',), ('points_set', 4), ('gen', None, 10)],
        [('by_range', [1.0, 1.0], 3), ('range_get',), ('by_range', [2.0, 8.0], 1), ('range_get',), ('by_range', [2.0, 8.0], 0), ('range_get',), ('points_set', 2)],
        [('by_range', [2.0], 3)], [('by_range', [], 3)], [('range_set', [3.0])], [('assign', [1.0, 2.0, 4.0]), ('range_set', [0.5, 8.0]), ('points_set', 5), ('gen', None, None)],
        [('assign', []), ('range_get',), ('points_set', 3)], [('assign', [2.0]), ('range_get',), ('points_set', 3), ('range_get',)],
        [('by_range', [0.1, 30.0], 2), ('gen', None, 40), ('by_range', (0.25, 4.0), 6), ('gen', None, 40)],
    ]
    for _ in range(30 if big else 6):
        sc = []
        for _ in range(rng.randint(2, 6)):
            op = rng.choice(['by_range', 'range_set', 'points_set', 'range_get', 'gen', 'gen', 'assign'])
            lim = sorted([rng.choice([0.05, 0.1, 0.25, 0.5, 1.0, 2.0]), rng.choice([4.0, 8.0, 10.0, 25.0, 30.0])])
            if op == 'by_range':
                sc.append((op, lim, rng.choice([1, 2, 3, 5, 10, 30, 61])))
            elif op == 'range_set':
                sc.append((op, lim))
            elif op == 'points_set':
                sc.append((op, rng.choice([1, 2, 3, 7, 20, 61])))
            elif op == 'range_get':
                sc.append((op,))
            elif op == 'assign':
                sc.append((op, sorted(rng.choice([0.1, 0.2, 0.5, 1.0, 2.0, 3.0, 7.0]) * (k + 1) for k in range(rng.randint(1, 5)))))
            else:
                sc.append((op, rng.choice([None, None, [0.5, 1.0, 2.0], [0.3, 3.0], [1.0]]), rng.choice([None, 5, 20, 40, 100])))
        scripts.append(sc)
    for sc in scripts:
        n = rng.choice([4, 8, 16, 23, 32])
        v = [dy(rng) for _ in range(n)]
        dt = rng.choice([0.5, 0.25, 0.125, 0.01])
        cls_name = rng.choice(['Signal', 'AccSignal'])
        setters_case(ctx, eqsig, fq, v, dt, cls_name, sc, {'values': v, 'dt': dt, 'cls': cls_name, 'script': repr(sc)})
    ctx.flush()


def corr_freq2(ctx):
    corr_freq2_c06(ctx)
    corr_freq2_c07(ctx)


# ------------------------------------------------------------------------------------------------
# prelude check of the new NumPy combinators (Prelude/NpF.lean): np.trapezoid, np.linspace, np.logspace, np.take, x ** n, broadcasting
# ------------------------------------------------------------------------------------------------

def prelude_freq2(ctx):
    rng = ctx.rng
    for _ in range(120):
        n = rng.choice([0, 1, 2, 3, 5, 8])
        m = n if rng.random() < 0.7 else rng.choice([0, 1, 2, 3, 4])
        y = [dy(rng) for _ in range(n)]
        x = [dy(rng) for _ in range(m)]
        ctx.corr('PRELUDE np.trapezoid(y, x=x)', f"np_trapz_q|{w_rats(y)}|{w_rats(x)}", call_impl(np.trapezoid, np.array(y), x=np.array(x)),
                 lambda outs, val: cmp_exact([float(val)], p_rats(outs[0])), inputs={'y': y, 'x': x})
        a = [dy(rng) for _ in range(rng.choice([0, 1, 2, 3]))]
        b = [dy(rng) for _ in range(rng.choice([0, 1, 2, 3]))]
        ctx.corr('PRELUDE a * b (1-D broadcasting)', f"np_mul_bcast_q|{w_rats(a)}|{w_rats(b)}", call_impl(lambda: np.array(a) * np.array(b)),
                 lambda outs, val: cmp_exact([float(v) for v in val], p_rats(outs[0])), inputs={'a': a, 'b': b})
        idx = [rng.randint(0, max(n, 1)) for _ in range(rng.choice([0, 1, 2, 3]))]
        ctx.corr('PRELUDE np.take', f"np_take_q|{w_rats(y)}|{' '.join(map(str, idx))}", call_impl(np.take, np.array(y), tuple(idx)),
                 lambda outs, val: cmp_exact([float(v) for v in val], p_rats(outs[0])), inputs={'x': y, 'idx': idx})
        xx, k = dy(rng, -3, 3, 1), rng.randint(0, 6)
        ctx.corr('PRELUDE x ** n', f"np_pown_q|{w_rat(xx)}|{k}", call_impl(lambda: (np.array([xx]) ** k)[0]),
                 lambda outs, val: cmp_exact([float(val)], p_rats(outs[0])), inputs={'x': xx, 'n': k})
        a0, b0, num = dy(rng, -4, 4), dy(rng, -4, 4), rng.choice([0, 1, 2, 3, 5, 9, 17])
        ctx.corr('PRELUDE np.linspace (dyadic, exact)', f"np_linspace_q|{w_rat(a0)}|{w_rat(b0)}|{num}", call_impl(np.linspace, a0, b0, num),
                 lambda outs, val: cmp_exact([float(v) for v in val], p_rats(outs[0])), inputs={'start': a0, 'stop': b0, 'num': num})
        a1, b1, num = rng.uniform(-3, 3), rng.uniform(-3, 3), rng.choice([0, 1, 2, 3, 7, 50, 61])
        ctx.corr('PRELUDE np.linspace (Float, bit-exact)', f"np_linspace_f|{w_float(a1)}|{w_float(b1)}|{num}", call_impl(np.linspace, a1, b1, num),
                 lambda outs, val: cmp_exact([float(v) for v in val], p_floats(outs[0])), inputs={'start': a1, 'stop': b1, 'num': num})
        ctx.corr('PRELUDE np.logspace (Float)', f"np_logspace_f|{w_float(a1)}|{w_float(b1)}|{num}", call_impl(np.logspace, a1, b1, num, base=10),
                 lambda outs, val: cmp_f(ctx, 'np.logspace', outs[0], val, rel=Fraction(1, 10 ** 13)), inputs={'start': a1, 'stop': b1, 'num': num})
    ctx.flush()
