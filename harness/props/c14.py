"""C14 — resampling keeps the record: bounded step, retained samples, band-limited exact."""
import math
from fractions import Fraction

import numpy as np

import gen
import core
from core import fr, w_rat, w_rats, w_bool, p_rats, cmp_exact, cmp_budget, call_impl, w_floats, p_floats

PROP_MODULES = ['C14', 'C14Gen', 'C14GenInterp', 'C14Resample', 'C14GenObject']
EXHAUSTIVE = True
RULE = ("corpus (F14-1 witness n=33/.01/.09/even, decimal pairs .3/.1 .06/.02 .07/.01 .01/.07, dt==target, 1/49) ; exhaustive: all ratios "
        "dt:target = p:q with p,q <= 12 on a dyadic base (1/64) and a decimal base (.01) x n in a small set x even in {T,F}; binary64 "
        "quotients one ulp either side of the integers 1..20 (and of their reciprocals); random: n in 2..400 (quick) / 2..3000, record "
        "kinds dyadic/int/plateau/spike/step (dyadic dt and target: exact comparison, one third of the inputs) and noise/sine/big/tiny "
        "(budget 1e-9), n just above 2*max(dt,target)/dt; array level, object level, resample_to_approx_dt (step rule, length, "
        "band-limited periodic signals), the gen_response_spectrum consumer. The impl decides factor==1/ceil/floor on the binary64 "
        "quotient: that decision is replicated on the same float operations and handed to the model; histogram counts the pairs whose "
        "float and exact decisions differ. distinct = hash of (record, dt, target, even); non-trivial = length >= 3 and not constant")
TIE = ('translator (factor rule, refined grid / point count and resampled length regenerated from eqsig/fns/time_step.py, bridged to the model) + correspondence (incl. the model of scipy.signal.resample)')
NOT_PROVED = ["C14.f is PROVED about the executable model of scipy.signal.resample (Props/C14Resample: resample_bandlimited, _closed, "
              "resample_nyquist_cosine, resample_retains_samples, …); what remains assumed: that SciPy's fft/ifft/rfft/irfft compute the DFT "
              "sums the model is written with (the model is compared with scipy.signal.resample at 1e-9 of the amplitude on every run, "
              "observed gap ~1e-14) and rounding",
              "rounding of np.interp's slope form (values may leave the input range by an ulp; budget R) and of the abscissae i/factor: for "
              "1/factor = 49 the binary64 quotients i/fl(1/49) are not the integers 49*i, so decimation is a subsequence only to within "
              "rounding there (counted in the histogram, compared with slack 1e-12)",
              "the binary64 products factor*npts and new_npts/2 next to an integer (e.g. fl(1/49)*98 = 1.9999999999999998): when the float "
              "and the exact output length differ the case is counted ('length decided by rounding') and only the tolerant clauses are evaluated",
              "C14.d for decimation with even=True: the '< 2 steps' statement is false (open finding F14-1); proved and checked: < 3 new steps"]

EPS50 = Fraction(1, 2 ** 50)


# ---------------------------------------------------------------------------------------------------------------------
# the rule, replicated on the impl's float operations and on exact rationals
# ---------------------------------------------------------------------------------------------------------------------

def float_decision(dt, target):
    """(factor as the exact rational it means, the float/int object the impl computes with)"""
    factor = dt / target
    if factor == 1:
        return Fraction(1), factor
    elif factor > 1:
        k = int(np.ceil(factor))
        return Fraction(k), k
    else:
        f = 1 / np.floor(1 / factor)
        return Fraction(1, int(np.floor(1 / factor))), f


def exact_decision(dt, target):
    q = fr(dt) / fr(target)
    if q == 1:
        return Fraction(1)
    if q > 1:
        return Fraction(math.ceil(q))
    return Fraction(1, math.floor(1 / q))


def exact_len(n, factor, even):
    x = factor * n
    if even:
        x = Fraction(2 * int(x / 2))          # int(): truncation toward zero
    return max(0, math.ceil(x))


def float_len(n, f_obj, even):
    new_npts = f_obj * n
    if even:
        new_npts = 2 * int(new_npts / 2)
    return len(np.arange(new_npts)), new_npts


def near_integer(dt, target):
    """the binary64 quotient (or its reciprocal) is within one ulp of an integer, or exact and float decisions differ"""
    q = dt / target
    for v in (q, 1 / q):
        r = round(v)
        if r >= 1 and abs(v - r) <= 2 * np.spacing(float(r)):
            return True
    return False


def is_pow2(fq):
    return fq.denominator == 1 and fq.numerator & (fq.numerator - 1) == 0


DYADIC_DTS = (2.0, 1.0, 0.5, 0.25, 0.125, 0.0625, 0.75, 1.5, 0.375)


def dyadic_small(x):
    q = fr(x)
    return q.denominator & (q.denominator - 1) == 0 and q.denominator <= 1024 and abs(q) <= 4096


# ---------------------------------------------------------------------------------------------------------------------

def run(ctx):
    import eqsig
    import eqsig.single
    import eqsig.sdof as dh
    from eqsig.fns import time_step as ts
    rng = ctx.rng
    quick = ctx.tier == 'quick'

    def one(a, dt, target, even, kind, do_obj=True, do_resample=True):
        a = np.asarray(a, dtype=float)
        n = len(a)
        dt = float(dt)
        target = float(target)
        inputs = {'values': a if n <= 80 else {'n': n, 'head': a[:8], 'kind': kind}, 'n': n, 'dt': dt, 'target_dt': target, 'even': even}
        full_inputs = {'values': a, 'dt': dt, 'target_dt': target, 'even': even}
        ctx.count_case((a.tobytes(), dt, target, even), gen.nontrivial_record(a),
                       sample={'fn': 'interp_array_to_approx_dt', **inputs} if ctx.evaluations % 499 == 0 else None)
        ctx.hist('kind=' + kind)
        ctx.hist('even=' + w_bool(even))
        fdec, fobj = float_decision(dt, target)
        edec = exact_decision(dt, target)
        if fdec != edec:
            ctx.hist('decision: float != exact (quotient within one ulp of an integer)')
        else:
            ctx.hist('decision: float == exact')
        branch = 'equal' if fdec == 1 and dt == target else ('refinement' if fdec >= 1 else 'decimation')
        ctx.hist('branch=' + branch + ('' if fdec != 1 or dt == target else '(factor 1)'))
        decim = fdec < 1
        snap = a.copy()
        res = call_impl(ts.interp_array_to_approx_dt, a, dt, target, even=even)
        ctx.oracle('C14 interp_array_to_approx_dt leaves its input array unchanged', np.array_equal(a, snap), full_inputs)
        ctx.oracle('C14 interp_array_to_approx_dt returns on its domain (dt, target > 0)', res[0] == 'ok', full_inputs, detail=res)
        L_f, _ = float_len(n, fobj, even)
        L_e = exact_len(n, fdec, even)
        len_exact = L_f == L_e
        if not len_exact:
            ctx.hist('length decided by rounding of factor*npts (float != exact)')
        # are all abscissae i/factor exact doubles?
        if fdec >= 1:
            abscissae_exact = is_pow2(fdec)
        else:
            m = int(1 / fdec)
            abscissae_exact = bool(np.all(np.arange(L_f) / fobj == np.arange(L_f) * float(m)))
            if not abscissae_exact:
                ctx.hist('decimation abscissae i/fl(1/m) rounded (m=%d)' % m)
        dyadic_rec = kind in gen.DYADIC_KINDS or kind in ('corpus-dyadic', 'exhaustive')
        exact = dyadic_rec and n <= 400 and abscissae_exact and dyadic_small(dt) and bool(np.all(np.abs(a) < 2 ** 20))
        newdt_exact = fr(float(dt / fobj)) == fr(dt) / fdec      # the impl's float division is exact
        ctx.hist('budget=' + ('E' if exact else 'R'))
        scale = max(1e-300, float(np.max(np.abs(a)))) if n else 1.0

        # ---- correspondence (model gets the impl's decision)
        if len_exact:
            def compare(outs, val, exact=exact, newdt_exact=newdt_exact, scale=scale):
                mv = p_rats(outs[0]) if len(outs) > 0 else []
                mdt = p_rats(outs[1]) if len(outs) > 1 else []
                iv = list(val[0])
                if exact:
                    msg = cmp_exact(iv, mv)
                else:
                    msg, g = cmp_budget(iv, mv, Fraction(1, 10 ** 9), scale=scale)
                    ctx.gap('interp_array_to_approx_dt', g)
                if msg:
                    return 'values: ' + msg
                if newdt_exact:
                    msg = cmp_exact([val[1]], mdt)
                else:
                    msg, _ = cmp_budget([val[1]], mdt, EPS50)
                return None if msg is None else 'new_dt: ' + msg
            ctx.corr('interp_array_to_approx_dt', f"interp_to_approx_dt|{w_rats(a)}|{w_rat(dt)}|{w_rat(fdec)}|{w_bool(even)}", res, compare,
                     inputs=full_inputs)
        if fdec == edec:
            ctx.corr('factor rule (exact quotient)', f"factor_rule|{w_rat(dt)}|{w_rat(target)}", ('ok', fdec),
                     lambda outs, val: cmp_exact([val], p_rats(outs[0])), inputs={'dt': dt, 'target_dt': target})
        if res[0] != 'ok':
            return
        out, new_dt = res[1]
        out = np.asarray(out)
        L = len(out)
        fdt, ftg, fnd = fr(dt), fr(target), fr(float(new_dt))
        near = near_integer(dt, target) or fdec != edec
        facts = {'function': 'interp_array_to_approx_dt', 'decimation': bool(decim), 'even': bool(even), 'branch': branch}

        # ---- C14.a step rule
        ctx.oracle('C14.a returned step does not exceed the target (to within 2^-50 relative; exactly unless the binary64 quotient is '
                   'within one ulp of an integer)', fnd <= ftg * (1 + EPS50) and (near or fnd <= ftg * (1 + Fraction(1, 2 ** 52))),
                   full_inputs, detail={'new_dt': new_dt}, facts={**facts, 'clause': 'step<=target'})
        r = fdt / fnd if fnd != 0 else Fraction(0)
        if r >= 1:
            k = round(r)
            ratio_ok = k >= 1 and abs(r - k) <= EPS50 * r
            got = Fraction(k)
        else:
            k = round(1 / r) if r > 0 else 0
            ratio_ok = k >= 1 and abs(1 / r - k) <= EPS50 / r
            got = Fraction(1, k) if k else Fraction(0)
        ctx.oracle('C14.a ratio dt/new_dt is an integer (refinement) or the reciprocal of an integer (decimation)', ratio_ok, full_inputs,
                   detail={'new_dt': new_dt, 'ratio': float(r)}, facts={**facts, 'clause': 'ratio'})
        ctx.oracle('C14.a factor = ceil(dt/target) when dt >= target, 1/floor(target/dt) otherwise (exact quotient; either neighbour when '
                   'the binary64 quotient is within one ulp of an integer)', got == edec or (near and got == fdec), full_inputs,
                   detail={'factor_from_output': [got.numerator, got.denominator], 'rule': [edec.numerator, edec.denominator]},
                   facts={**facts, 'clause': 'rule'})
        if dt == target:
            ctx.oracle('C14.a dt == target: step unchanged', new_dt == dt, full_inputs, detail={'new_dt': new_dt})

        # ---- lengths
        if even:
            ctx.oracle('C14.d length is even when requested', L % 2 == 0, full_inputs, detail={'len': L}, facts={**facts, 'clause': 'even'})
        if len_exact:
            ctx.oracle('C14.b/c length = k*n (refinement), ceil(n/m) (decimation), 2*trunc(./2) when even', L == L_e, full_inputs,
                       detail={'len': L, 'expected': L_e}, facts={**facts, 'clause': 'length'})
        else:
            ctx.oracle('C14.b/c length (rounding regime) is the float or the exact count', L in (L_e, L_f), full_inputs,
                       detail={'len': L, 'exact': L_e, 'float': L_f})

        # ---- values
        if n:
            lo, hi = float(np.min(a)), float(np.max(a))
            slack = 4 * np.finfo(float).eps * max(abs(lo), abs(hi), 1e-300)
            ctx.oracle('C14.b/c values never leave the input range (one-ulp slack for the slope form)',
                       L == 0 or (float(np.min(out)) >= lo - slack and float(np.max(out)) <= hi + slack), full_inputs,
                       detail={'min': float(np.min(out)) if L else None, 'max': float(np.max(out)) if L else None, 'range': [lo, hi]},
                       facts={**facts, 'clause': 'range'})
        if not decim:
            k = int(fdec)
            idx = np.arange(0, L, k)
            ok = len(idx) <= n and np.array_equal(out[idx], a[:len(idx)]) and (L < k * (n - 1) + 1 or len(idx) == n)
            ctx.oracle('C14.b refinement: original samples reappear unchanged at their instants (out[k*i] == x[i])', bool(ok), full_inputs,
                       detail={'k': k, 'len': L}, facts={**facts, 'clause': 'retained'})
            # independent piecewise-linear re-computation
            if exact and n <= 64:
                fa = [fr(x) for x in a]
                want = []
                for j in range(L):
                    i, rr = divmod(j, k)
                    want.append(fa[i] + (fa[i + 1] - fa[i]) * Fraction(rr, k) if i + 1 < n else fa[n - 1])
                ctx.oracle('C14.b refinement: output is the piecewise-linear interpolant, last value held (exact on dyadic-safe inputs)',
                           [fr(x) for x in out] == want, full_inputs, facts={**facts, 'clause': 'interpolant'})
            elif n >= 2:
                j = np.arange(L)
                i = np.minimum(j // k, n - 1)
                i1 = np.minimum(i + 1, n - 1)
                want = a[i] + (a[i1] - a[i]) * ((j % k) / k)
                want = np.where(j // k >= n - 1, a[n - 1], want)
                ctx.oracle('C14.b refinement: output is the piecewise-linear interpolant, last value held (1e-9 of the peak)',
                           bool(np.all(np.abs(out - want) <= 1e-9 * scale)), full_inputs, facts={**facts, 'clause': 'interpolant'})
        else:
            m = int(1 / fdec)
            idx = np.arange(L) * m
            inside = bool(np.all(idx < n)) if L else True
            if abscissae_exact:
                ok = inside and np.array_equal(out, a[idx])
            else:
                ok = inside and bool(np.all(np.abs(out - a[idx]) <= 1e-12 * scale))
            ctx.oracle('C14.c decimation: output is a subsequence of the input (out[j] == x[j*m])', bool(ok), full_inputs,
                       detail={'m': m, 'len': L}, facts={**facts, 'clause': 'subsequence', 'abscissae_exact': abscissae_exact})

        # ---- C14.d covered duration (quantifier: records with duration >= 2*max(dt, target))
        if (n - 1) * fdt >= 2 * max(fdt, ftg):
            diff = abs((L - 1) * fnd - (n - 1) * fdt)
            ctx.oracle('C14.d covered duration changes by less than two steps: |(L-1)*new_dt - (n-1)*dt| < 2*max(dt, new_dt)',
                       diff < 2 * max(fdt, fnd), full_inputs,
                       detail={'len': L, 'new_dt': new_dt, 'covered_before': float((n - 1) * fdt), 'covered_after': float((L - 1) * fnd),
                               'steps': float(diff / max(fdt, fnd))},
                       facts={**facts, 'clause': 'duration'})
            if decim and even:
                ctx.oracle('C14.d [decimation, even=True] covered duration changes by less than three new steps (the proved bound)',
                           diff < 3 * fnd * (1 + EPS50), full_inputs, detail={'steps': float(diff / fnd)}, facts={**facts, 'clause': 'duration3'})

        # ---- object level
        if do_obj and n >= 1:
            asig = ctx.aged(eqsig.AccSignal, a, dt)
            ro = call_impl(ts.interp_to_approx_dt, asig, target, even=even)
            ok = ro[0] == 'ok' and np.array_equal(ro[1].values, out) and ro[1].dt == new_dt and ro[1].npts == L
            ctx.oracle('C14 object-level interp_to_approx_dt == array-level interp_array_to_approx_dt (values, dt, npts)', bool(ok), full_inputs,
                       detail=None if ok else repr(ro)[:200])
            ctx.oracle('C14 interp_to_approx_dt leaves the signal unchanged', np.array_equal(asig.values, snap) and asig.dt == dt, full_inputs)

        # ---- resample_to_approx_dt: step rule and length
        if do_resample and n >= 2:
            asig = ctx.aged(eqsig.AccSignal, a, dt)
            rr = call_impl(ts.resample_to_approx_dt, asig, target, even=even)
            rfacts = {'function': 'resample_to_approx_dt', 'even': bool(even), 'target_ge_dt': bool(target >= dt), 'branch': branch,
                      'clause': 'returns'}
            x = fdec * n
            cnt = 2 * int(x / 2) if even else x
            _, cnt_f = float_len(n, fobj, even)
            in_domain = cnt >= 1 and cnt_f >= 1      # scipy cannot resample to zero samples (exact and binary64 count)
            if (cnt >= 1) != (cnt_f >= 1):
                ctx.hist('resample: zero-length decided by rounding')
            float_class = (not even) and fdec <= 1       # new_npts is a float there
            if in_domain:
                ctx.oracle('C14.a resample_to_approx_dt returns a signal on its domain (every dt, target > 0 and even in {True, False} '
                           'with at least one output sample)', rr[0] == 'ok', full_inputs, detail=rr if rr[0] == 'err' else None, facts=rfacts)
            if not float_class and len_exact:
                ctx.corr('resample_to_approx_dt (length)', f"resample_npts|{n}|{w_rat(fdec)}|{w_bool(even)}",
                         ('ok', rr[1].npts) if rr[0] == 'ok' else rr, lambda outs, val: cmp_exact([val], p_rats(outs[0])), inputs=full_inputs)
            if rr[0] == 'ok':
                ctx.oracle('C14.a resample_to_approx_dt follows the same step rule (its dt == the interpolation variant\'s new dt)',
                           rr[1].dt == new_dt, full_inputs, detail={'resample_dt': rr[1].dt, 'interp_dt': new_dt},
                           facts={**rfacts, 'clause': 'step'})
                lo_c, hi_c = math.floor(cnt), math.ceil(cnt)
                okl = rr[1].npts == int(cnt) if (even or fdec > 1) and len_exact else rr[1].npts in (lo_c, hi_c, L_f)
                if not okl and float_class:
                    # int(new_npts) truncates the BINARY64 product fl(1/m)*n, which can fall one ulp below an integer
                    # (fl(1/49)*98 = 1.9999999999999998 -> 1): the rounding regime, counted, as for the even branch
                    prod = float(fobj) * n
                    if abs(prod - round(prod)) < 1e-9 and rr[1].npts in (round(prod) - 1, round(prod)):
                        ctx.hist('resample: length decided by rounding of fl(factor)*npts')
                        okl = True
                ctx.oracle('C14.a resample_to_approx_dt length = factor*npts (2*trunc(./2) when even)', bool(okl), full_inputs,
                           detail={'npts': rr[1].npts, 'expected': float(cnt)}, facts={**rfacts, 'clause': 'length'})
                if even:
                    ctx.oracle('C14.d length is even when requested', rr[1].npts % 2 == 0, full_inputs, facts={**rfacts, 'clause': 'even'})
                ctx.oracle('C14 resample_to_approx_dt leaves the signal unchanged', np.array_equal(asig.values, snap), full_inputs)

    # ------------------------------------------------------------------------------------------------------------
    # C14.f band-limited periodic signals (kind S)
    # ------------------------------------------------------------------------------------------------------------
    def bandlimited(N, dt, target, even):
        fdec, fobj = float_decision(dt, target)
        x = fdec * N
        cnt = 2 * int(x / 2) if even else x
        if cnt < 2 or ((not even) and fdec <= 1):
            return            # zero samples / the TypeError class (F14-2), evaluated in one()
        M = int(cnt) if cnt == int(cnt) else None
        if M is None:
            return
        # the resampled record spans the same period N*dt iff M*new_dt == N*dt, i.e. M == factor*N
        period_preserved = (Fraction(M) == x)
        nyq = min(N, M) // 2
        # highest harmonic strictly below the Nyquist frequency of the SHORTER series: (n_min - 1) // 2 (= nyq for odd n_min, nyq - 1 for even)
        top = (min(N, M) - 1) // 2
        ncomp = rng.randint(1, 3)
        cycles = {rng.randint(0, max(0, top)) for _ in range(ncomp)}
        if top >= 1 and rng.random() < 0.4:
            cycles.add(top)                       # the highest admissible harmonic carries energy in 40 % of the cases
            ctx.hist('band-limited: with the highest admissible harmonic')
        cycles = sorted(cycles)
        if nyq < 1:
            return
        amps = [rng.choice([0.5, 1.0, 2.0, 3.0]) for _ in cycles]
        phases = [rng.uniform(0, 2 * math.pi) for _ in cycles]
        if M > N and N % 2 == 0 and rng.random() < 0.5:
            # refinement: the component AT the old Nyquist frequency, cos(pi*j) (phase 0: the sine part is invisible in the samples),
            # lies below the NEW Nyquist frequency and must be reproduced too (trigonometric interpolation through the samples)
            cycles = list(cycles) + [N // 2]
            amps.append(rng.choice([0.5, 1.0, 2.0]))
            phases.append(0.0)
            ctx.hist('band-limited: with the old-Nyquist cosine component')

        def sig(tfrac):     # tfrac: time / (N*dt)
            return sum(A * np.cos(2 * math.pi * c * tfrac + p) for A, c, p in zip(amps, cycles, phases))
        a = sig(np.arange(N) / N)
        amp = sum(amps)
        asig = ctx.aged(eqsig.AccSignal, a, dt)
        rr = call_impl(ts.resample_to_approx_dt, asig, target, even=even)
        inputs = {'npts': N, 'dt': dt, 'target_dt': target, 'even': even, 'cycles_over_record': cycles, 'amplitudes': amps, 'phases': phases}
        ctx.count_case(('bl', N, dt, target, even, tuple(cycles), tuple(phases)), True)
        ctx.hist('band-limited: period ' + ('preserved' if period_preserved else 'changed by the even rounding'))
        facts = {'function': 'resample_to_approx_dt', 'clause': 'bandlimited', 'even': bool(even), 'period_preserved': bool(period_preserved),
                 'branch': 'refinement' if fdec >= 1 else 'decimation'}
        if rr[0] != 'ok':
            ctx.oracle('C14.f resample_to_approx_dt returns for a band-limited periodic record', False, inputs, detail=rr, facts=facts)
            return
        got = rr[1].values
        # correspondence with the Lean model of scipy.signal.resample (Model/Resample.lean, the object of theorem resample_bandlimited): the
        # O(N*M) DFT model at Cx Float on the same record and output length; 1e-9 of the amplitude; imaginary parts must vanish
        if N * len(got) <= 40000 and len(got) >= 1:
            def cmp_resample(outs, val, amp=amp):
                re, imv = p_floats(outs[0]), p_floats(outs[1])
                if len(re) != len(val):
                    return f'length model={len(re)} impl={len(val)}'
                d = max([abs(x - y) for x, y in zip(re, val)] + [abs(z) for z in imv] + [0.0])
                ctx.gap('scipy.signal.resample vs Model.Resample (rel. amplitude)', d / amp)
                return None if d <= 1e-9 * amp else f'max deviation {d:.3e} > 1e-9 * {amp}'
            ctx.corr('scipy.signal.resample (through resample_to_approx_dt)', f"resample|{len(got)}|{w_floats(a)}", ('ok', [float(x) for x in got]),
                     cmp_resample, inputs=inputs)
        t = np.arange(len(got)) * rr[1].dt        # the instants the returned signal claims
        want = sig(t / (N * dt))
        err = float(np.max(np.abs(got - want))) if len(got) else 0.0
        ctx.gap('resample_to_approx_dt (band-limited, rel. amplitude)', err / amp if period_preserved else None)
        ctx.oracle('C14.f periodic resampling reproduces a signal that is periodic over the record and band-limited below the new Nyquist '
                   'frequency (1e-9 of the amplitude, at the instants j*new_dt)', len(got) == M and err <= 1e-9 * amp, inputs,
                   detail={'max_error': err, 'amplitude': amp, 'npts_out': len(got), 'new_dt': rr[1].dt}, facts=facts)

    # ------------------------------------------------------------------------------------------------------------
    # C14.e consumer
    # ------------------------------------------------------------------------------------------------------------
    def consumer(a, dt, periods):
        asig = ctx.aged(eqsig.AccSignal, a, dt)
        calls = []
        orig = eqsig.single.interp_array_to_approx_dt

        def spy(values, dt_, target_dt=0.01, even=True):
            o = orig(values, dt_, target_dt, even=even)
            calls.append((dt_, target_dt, even, o))
            return o
        eqsig.single.interp_array_to_approx_dt = spy
        try:
            with core.no_probe():      # the calls are counted below
                r = call_impl(asig.gen_response_spectrum, response_times=periods, xi=0.05)
        finally:
            eqsig.single.interp_array_to_approx_dt = orig
        inputs = {'values': a if len(a) <= 80 else {'n': len(a), 'head': a[:8]}, 'dt': dt, 'response_times': periods}
        ctx.count_case(('consumer', a.tobytes(), dt, tuple(periods)), gen.nontrivial_record(a))
        if r[0] != 'ok':
            ctx.oracle('C14.e gen_response_spectrum returns', False, inputs, detail=r)
            return
        p0 = periods[0] if periods[0] != 0 else periods[1]
        target = max(p0 / 20, dt / 4)
        if target < dt:
            ok = len(calls) == 1 and calls[0][2] is False and calls[0][1] < calls[0][0]
            ctx.hist('consumer: interpolates')
            ctx.oracle('C14.e gen_response_spectrum calls the rule with even=False and only when target < dt', ok, inputs,
                       detail=[(c[0], c[1], c[2]) for c in calls])
            if ok:
                vi, dti = calls[0][3]
                k = fr(dt) / fr(float(dti))
                ctx.oracle('C14.e the consumer refines by an integer factor >= 2', abs(k - round(k)) <= EPS50 * k and round(k) >= 2, inputs,
                           detail={'factor': float(k)})
                ctx.oracle('C14.e the consumer keeps every original sample',
                           round(k) >= 1 and np.array_equal(np.asarray(vi)[::max(1, round(k))][:len(a)], a), inputs)
                sa = dh.pseudo_response_spectra(vi, dti, np.asarray(periods), 0.05)[2]
                ctx.oracle('C14.e the spectrum is the one of the refined record', np.array_equal(np.asarray(asig.s_a), np.asarray(sa)), inputs)
        else:
            ctx.hist('consumer: no interpolation')
            ctx.oracle('C14.e gen_response_spectrum does not resample when target >= dt', len(calls) == 0, inputs)
            sa = dh.pseudo_response_spectra(a, dt, np.asarray(periods), 0.05)[2]
            ctx.oracle('C14.e the spectrum is the one of the original record', np.array_equal(np.asarray(asig.s_a), np.asarray(sa)), inputs)

    # ------------------------------------------------------------------------------------------------------------
    # corpus
    # ------------------------------------------------------------------------------------------------------------
    w33 = np.array([((7 * i) % 11) - 5 for i in range(33)], dtype=float)
    corpus = [(w33, 0.01, 0.09, True), (w33, 0.01, 0.09, False), (w33, 0.3, 0.1, True), (w33, 0.06, 0.02, False), (w33, 0.07, 0.01, True),
              (w33, 0.01, 0.07, True), (w33, 0.01, 0.07, False), (w33, 0.01, 0.01, True), (w33, 0.01, 0.01, False),
              (np.arange(98.0), 1.0, 49.0, True), (np.arange(98.0), 1.0, 49.0, False), (np.arange(49.0), 1.0, 49.0, False),
              (np.array([1.0, -2.0]), 0.5, 0.25, True), (np.array([5.0]), 1.0, 0.5, False), (np.array([5.0]), 1.0, 2.0, True),
              (np.array([]), 1.0, 0.5, True), (np.array([3.0, 0.0, -4.0]), 0.75, 0.25, False), (np.array([3.0, 0.0, -4.0]), 0.25, 0.75, True)]
    for a, dt, tg, ev in corpus:
        ctx.hist('corpus')
        one(a, dt, tg, ev, 'corpus-dyadic' if dyadic_small(dt) else 'corpus')
    ctx.flush()

    # ------------------------------------------------------------------------------------------------------------
    # exhaustive ratios p:q, p,q <= 12
    # ------------------------------------------------------------------------------------------------------------
    ns = [2, 3, 7, 24, 33] if quick else [2, 3, 4, 5, 7, 12, 24, 25, 33, 64, 100]
    for base, label in ((1 / 64, 'dyadic'), (0.01, 'decimal')):
        for p in range(1, 13):
            for q in range(1, 13):
                for n in ns:
                    a = np.array([((5 * i * i + 3 * i) % 13) - 6 for i in range(n)], dtype=float)
                    for ev in (True, False):
                        ctx.hist('exhaustive ' + label)
                        one(a, p * base, q * base, ev, 'exhaustive' if label == 'dyadic' else 'int', do_obj=(n == 7), do_resample=(n in (7, 24)))
        ctx.flush()

    # ------------------------------------------------------------------------------------------------------------
    # quotients one ulp either side of integers 1..20 and of their reciprocals
    # ------------------------------------------------------------------------------------------------------------
    for k in range(1, 21):
        for side in (-1, 0, 1):
            for inv in (False, True):
                for dt in (0.01, 1.0, 0.3):
                    qv = float(k)
                    if side:
                        qv = float(np.nextafter(qv, np.inf if side > 0 else -np.inf))
                    target = dt / qv if not inv else dt * qv
                    n = rng.choice([5, 12, 33])
                    a = gen.int_record(rng, n)
                    ctx.hist('one-ulp grid')
                    one(a, dt, target, rng.random() < 0.5, 'int', do_obj=False, do_resample=False)
    ctx.flush()

    # ------------------------------------------------------------------------------------------------------------
    # random
    # ------------------------------------------------------------------------------------------------------------
    n_random = 1500 if quick else 8000
    # source hints: the quotient dt/target_dt (and its reciprocal), the time step (and the sampling rate 1/dt) at / around every new float constant
    hv_f = gen.hint_values(ctx, 0.02, 50.0, cap=20, maps=(lambda c: c, lambda c: 1 / c))
    hv_dt = gen.hint_values(ctx, 1e-3, 1.0, cap=10, maps=(lambda c: c, lambda c: 1 / c))
    for i in range(n_random):
        if i % 3 == 0:
            kind = rng.choice(['dyadic', 'int', 'plateau', 'spike', 'step'])
            n = gen.log_int(rng, 2, 64)
            a = {'dyadic': gen.dyadic_record, 'int': gen.int_record, 'plateau': gen.plateau_record, 'spike': gen.spike_record,
                 'step': gen.step_record}[kind](rng, n)
            dt = rng.choice(DYADIC_DTS)
            target = rng.choice(DYADIC_DTS + (3.0, 0.1875, 4.0, 0.3, 0.7)) if rng.random() < 0.8 else dt * rng.choice([1, 2, 3, 4, 0.5, 0.25])
        else:
            n = gen.log_int(rng, 2, 400 if quick else 3000)
            dt = gen.any_dt(rng)
            if hv_dt and rng.random() < 0.1:
                dt = rng.choice(hv_dt)
            kind, a = gen.any_record(rng, n, dt)
            u = rng.random()
            if u < 0.3:
                target = rng.choice([0.01, 0.005, 0.02, 0.1, 0.05, 0.002, 0.09, 0.03])
            elif u < 0.6:
                target = dt * rng.choice([1, 2, 3, 5, 10, 0.5, 1 / 3, 0.2, 0.1, 7, 49])
            else:
                target = dt * 10 ** rng.uniform(-1.3, 1.3)
            if hv_f and rng.random() < 0.2:
                target = rng.choice([dt / rng.choice(hv_f)] + [t for t in hv_dt if 0.02 <= dt / t <= 50])      # the quotient, or the target step itself, at the constant
        if i % 7 == 0:      # n just above 2*max(dt,target)/dt
            n = max(2, int(2 * max(dt, target) / dt) + rng.randint(1, 3))
            a = gen.int_record(rng, n) if kind in gen.DYADIC_KINDS else gen.noise_record(rng, n)
            ctx.hist('n just above 2*max(dt,target)/dt')
        one(a, dt, target, rng.random() < 0.5, kind, do_obj=(i % 2 == 0), do_resample=(i % 2 == 1))
        if i % 400 == 399:
            ctx.flush()
    ctx.flush()

    # ------------------------------------------------------------------------------------------------------------
    # band-limited periodic signals through resample_to_approx_dt
    # ------------------------------------------------------------------------------------------------------------
    for i in range(300 if quick else 3000):
        even = rng.random() < 0.6
        dt = rng.choice([0.01, 0.02, 0.005, 0.5, 1.0])
        if rng.random() < 0.5:
            k = rng.choice([2, 3, 4, 5, 8])
            target = dt / k
            N = rng.randint(8, 120)
            if even and (k * N) % 2 and rng.random() < 0.8:
                N += 1
        else:
            m = rng.choice([1, 2, 3, 4, 5])
            target = dt * m
            N = 2 * m * rng.randint(3, 40) if (even and rng.random() < 0.85) else m * rng.randint(6, 80)
        bandlimited(N, dt, target, even)
    # LONG records of awkward (prime, non-smooth) and smooth lengths: the Fourier clause has no length limit
    for N, k_or_m, refine in ([(4999, 2, True), (8191, 2, True), (10010, 5, False)] if quick else
                              [(4999, 2, True), (8191, 2, True), (10010, 5, False), (5003, 3, True), (16384, 2, True), (12007, 1, True), (9973 * 2, 2, False)]) + \
            [(m, 2, True) for m in gen.hint_sizes(ctx, lo=121, hi=60000, cap=3)]:          # source hints: lengths around every new integer constant
        dt = rng.choice([0.01, 0.02])
        ctx.hist('band-limited: long record')
        bandlimited(N, dt, dt / k_or_m if refine else dt * k_or_m, (N * k_or_m) % 2 == 0 if refine else False)

    # ------------------------------------------------------------------------------------------------------------
    # consumer
    # ------------------------------------------------------------------------------------------------------------
    for i in range(30 if quick else 200):
        n = gen.log_int(rng, 8, 120)
        dt = rng.choice([0.01, 0.02, 0.05, 0.1, 0.005])
        a = gen.noise_record(rng, n)
        p0 = rng.choice([0.0, 0.02, 0.05, 0.1, 0.3, 1.0, 2.5])
        periods = sorted({p0, p0 + 0.1, 0.5, 1.0, 2.0} - ({0.0} if p0 != 0.0 else set()))
        consumer(a, dt, periods)
    ctx.flush()


# ---- known findings -------------------------------------------------------------------------------------------------

def _m_f14_1(f):
    fa = f['facts']
    return (fa.get('function') == 'interp_array_to_approx_dt' and fa.get('clause') == 'duration' and fa.get('decimation') is True
            and fa.get('even') is True)


def _m_f14_2(f):
    fa = f['facts']
    return (fa.get('function') == 'resample_to_approx_dt' and fa.get('clause') == 'returns' and fa.get('even') is False
            and fa.get('target_ge_dt') is True)


def _m_f14_3(f):
    fa = f['facts']
    return (fa.get('function') == 'resample_to_approx_dt' and fa.get('clause') == 'bandlimited' and fa.get('even') is True
            and fa.get('period_preserved') is False)


KNOWN_MATCHERS = {'F14-1': _m_f14_1, 'F14-2': _m_f14_2, 'F14-3': _m_f14_3}


def known_witness(fid):
    import eqsig
    from eqsig.fns import time_step as ts
    if fid == 'F14-1':
        out, ndt = ts.interp_array_to_approx_dt(np.arange(33.0), 0.01, 0.09, even=True)
        return not abs((len(out) - 1) * ndt - 32 * 0.01) < 2 * max(0.01, ndt)
    if fid == 'F14-2':
        r = call_impl(ts.resample_to_approx_dt, eqsig.AccSignal(np.arange(6.0), 1.0), 2.0, even=False)
        return r[0] != 'ok'
    if fid == 'F14-3':
        N = 33
        a = np.cos(2 * math.pi * 3 * np.arange(N) / N)
        r = call_impl(ts.resample_to_approx_dt, eqsig.AccSignal(a, 0.01), 0.01, even=True)
        if r[0] != 'ok':
            return True
        t = np.arange(r[1].npts) * r[1].dt
        return not float(np.max(np.abs(r[1].values - np.cos(2 * math.pi * 3 * t / (N * 0.01))))) <= 1e-9
    return True


# ---- extras2 (harness extension hx_b): defaults / positional forms, containers and numeric types, exact scaling of values and of time,
# ---- large interpolation instances ---------------------------------------------------------------------------------------------------

def _x2_options(ctx, cur):
    """(3) documented defaults (target_dt=0.01, even=True) and positional forms of all three entry points; (4) the record in any container /
    dtype and the two steps in any numeric type"""
    import eqsig
    from eqsig.fns import time_step as ts
    from _hxb_common import same, val, light_history
    rng = ctx.rng
    for it in range(60 if ctx.tier == 'quick' else 600):
        n = gen.log_int(rng, 2, 90)
        whole = it % 2 == 0
        a = gen.int_record(rng, n, -9, 9) if whole else gen.noise_record(rng, n)
        dt = rng.choice([0.01, 0.005, 0.02, 0.0025, 0.03, 0.07, 0.1, 0.25, 1.0])
        target = rng.choice([0.01, 0.01, dt, dt * 2, dt / 3, 0.004, 0.03, 0.5])
        even = rng.random() < 0.5
        inputs = {'values': a, 'dt': dt, 'target_dt': target, 'even': even}
        cur.clear()
        cur.update(inputs)
        ctx.hist('extras2/options')
        ctx.count_case(('x2o', a.tobytes(), dt, target, even), gen.nontrivial_record(a))
        ref = val(call_impl(ts.interp_array_to_approx_dt, a, dt, target_dt=target, even=even))
        if ref is None:
            continue
        forms = [('positional', lambda: ts.interp_array_to_approx_dt(a, dt, target, even), ref),
                 ('even omitted (default True)', lambda: ts.interp_array_to_approx_dt(a, dt, target_dt=target), ts.interp_array_to_approx_dt(a, dt, target_dt=target, even=True)),
                 ('target_dt omitted (default 0.01)', lambda: ts.interp_array_to_approx_dt(a, dt, even=even), ts.interp_array_to_approx_dt(a, dt, target_dt=0.01, even=even)),
                 ('both omitted', lambda: ts.interp_array_to_approx_dt(a, dt), ts.interp_array_to_approx_dt(a, dt, target_dt=0.01, even=True))]
        for nm, f, want in forms:
            g = val(call_impl(f))
            ctx.oracle('C14 interp_array_to_approx_dt: documented defaults / positional form give the result of the explicit call (%s)' % nm,
                       g is not None and len(g) == 2 and same(g[0], want[0]) and g[1] == want[1], inputs, detail={'new_dt': None if g is None else g[1], 'want': want[1]})
        for fn_name, fn in (('interp_to_approx_dt', ts.interp_to_approx_dt), ('resample_to_approx_dt', ts.resample_to_approx_dt)):
            mk = lambda: light_history(ctx, eqsig.AccSignal, a, dt)   # noqa: E731
            pairs = [('positional', lambda: fn(mk(), target, even), lambda: fn(mk(), target_dt=target, even=even)),
                     ('even omitted (default True)', lambda: fn(mk(), target_dt=target), lambda: fn(mk(), target_dt=target, even=True)),
                     ('target_dt omitted (default 0.01)', lambda: fn(mk(), even=even), lambda: fn(mk(), target_dt=0.01, even=even)),
                     ('both omitted', lambda: fn(mk()), lambda: fn(mk(), target_dt=0.01, even=True))]
            for nm, f, w in pairs:
                g, want = call_impl(f), call_impl(w)
                ok = g[0] == want[0] and (g[0] != 'ok' or (same(g[1].values, want[1].values) and g[1].dt == want[1].dt and g[1].npts == want[1].npts
                                                           and type(g[1]).__name__ == 'AccSignal'))
                ctx.oracle('C14 %s: documented defaults / positional form give the result of the explicit call (%s)' % (fn_name, nm), ok, inputs,
                           detail={'got': g[1] if g[0] != 'ok' else (g[1].npts, g[1].dt), 'want': want[1] if want[0] != 'ok' else (want[1].npts, want[1].dt)})
            ctx.last_object_history = None
        # Signal (not only AccSignal) objects: same record
        for fn_name, fn in (('interp_to_approx_dt', ts.interp_to_approx_dt),):
            g = call_impl(fn, light_history(ctx, eqsig.Signal, a, dt), target_dt=target, even=even)
            ctx.oracle('C14 interp_to_approx_dt(Signal) == array-level result', g[0] == 'ok' and same(g[1].values, ref[0]) and g[1].dt == ref[1], inputs)
            ctx.last_object_history = None
        if it % 2 == 0:
            for lab, c in gen.container_variants(a):
                ctx.hist('extras2/container/' + lab)
                snap = np.array(c)
                g = val(call_impl(ts.interp_array_to_approx_dt, c, dt, target_dt=target, even=even))
                ctx.oracle('C14 interp_array_to_approx_dt does not depend on the container or dtype holding the record', g is not None and same(g[0], ref[0])
                           and g[1] == ref[1] and np.asarray(g[0]).dtype == np.float64, {**inputs, 'container': lab})
                ctx.oracle('C14 interp_array_to_approx_dt leaves its input array unchanged', same(np.array(c), snap) and np.array(c).dtype == snap.dtype,
                           {**inputs, 'container': lab})
                if isinstance(c, np.ndarray):
                    go = call_impl(ts.interp_to_approx_dt, eqsig.AccSignal(c, dt), target_dt=target, even=even)
                    ctx.oracle('C14 interp_to_approx_dt does not depend on the dtype of the record the signal was built from', go[0] == 'ok' and
                               same(go[1].values, ref[0]) and go[1].dt == ref[1], {**inputs, 'container': lab})
        if it % 3 == 0:
            d2, t2 = rng.choice([(1, 2), (2, 1), (1, 1), (4, 1), (1, 3), (3, 2)])
            want = ts.interp_array_to_approx_dt(a, float(d2), target_dt=float(t2), even=even)
            for lab, conv in (('int', int), ('np.int64', np.int64), ('np.float32', np.float32), ('np.float64', np.float64), ('Fraction', Fraction)):
                g = call_impl(ts.interp_array_to_approx_dt, a, conv(d2), target_dt=conv(t2), even=even)
                if lab == 'Fraction' and g[0] == 'err':
                    continue        # exotic numeric types may be rejected loudly
                if lab == 'np.float32' and 3 in (d2, t2):
                    continue        # single-precision steps: the quotient 1/3 and the abscissae i/fl32(1/3) are rounded in single precision (rounding regime)
                ctx.oracle('C14 interp_array_to_approx_dt does not depend on the numeric type of dt and target_dt', g[0] == 'ok' and same(g[1][0], want[0])
                           and float(g[1][1]) == float(want[1]), {**inputs, 'dt': d2, 'target_dt': t2, 'numeric type': lab},
                           detail=g[1] if g[0] != 'ok' else {'new_dt': float(g[1][1]), 'want': float(want[1]), 'len': len(g[1][0]), 'want len': len(want[0])})


def _x2_scale(ctx, cur):
    """(2) the output values are of degree 1 in the record (exact for power-of-two factors up to 2^+-600), the rule depends only on dt/target
    so scaling BOTH steps by 2^k leaves the values unchanged and scales the returned step exactly ('all (dt, target_dt) pairs')"""
    import eqsig
    from eqsig.fns import time_step as ts
    from _hxb_common import same, val
    rng = ctx.rng
    for it in range(40 if ctx.tier == 'quick' else 400):
        n = gen.log_int(rng, 2, 120)
        kind, a = gen.any_record(rng, n)
        dt = gen.any_dt(rng)
        target = dt * rng.choice([1, 2, 3, 5, 0.5, 1 / 3, 0.2, 7, 0.37, 2.9, 10 ** rng.uniform(-1, 1)])
        even = rng.random() < 0.5
        inputs = {'values': a, 'dt': dt, 'target_dt': target, 'even': even}
        cur.clear()
        cur.update(inputs)
        ctx.hist('extras2/scale/' + kind)
        base = val(call_impl(ts.interp_array_to_approx_dt, a, dt, target_dt=target, even=even))
        rbase = call_impl(ts.resample_to_approx_dt, eqsig.AccSignal(a, dt), target_dt=target, even=even)
        if base is None:
            continue
        for k in gen.EXTREME_POW2:
            f = 2.0 ** k
            ctx.count_case(('x2s', k, a.tobytes(), dt, target, even), True)
            sc = {**inputs, 'scale': '2**%d' % k}
            with np.errstate(all='ignore'):
                g = val(call_impl(ts.interp_array_to_approx_dt, a * f, dt, target_dt=target, even=even))
                go = call_impl(ts.interp_to_approx_dt, eqsig.AccSignal(a * f, dt), target_dt=target, even=even)
                h = val(call_impl(ts.interp_array_to_approx_dt, a, dt * f, target_dt=target * f, even=even))
                ho = call_impl(ts.interp_to_approx_dt, eqsig.AccSignal(a, dt * f), target_dt=target * f, even=even)
            ctx.oracle('C14 interpolation is linear in the record: scaling the values by a power of two scales the output exactly, same step', g is not None and
                       gen.scaled_exactly(g[0], base[0], f) and g[1] == base[1] and go[0] == 'ok' and gen.scaled_exactly(go[1].values, base[0], f) and go[1].dt == base[1], sc)
            ctx.oracle('C14.a the rule depends on dt/target only: scaling both steps by a power of two keeps the values and scales the returned step exactly',
                       h is not None and same(h[0], base[0]) and h[1] == base[1] * f and ho[0] == 'ok' and same(ho[1].values, base[0]) and ho[1].dt == base[1] * f,
                       sc, detail={'new_dt': None if h is None else h[1], 'want': base[1] * f})
            if rbase[0] == 'ok':
                with np.errstate(all='ignore'):
                    r1 = call_impl(ts.resample_to_approx_dt, eqsig.AccSignal(a * f, dt), target_dt=target, even=even)
                    r2 = call_impl(ts.resample_to_approx_dt, eqsig.AccSignal(a, dt * f), target_dt=target * f, even=even)
                ctx.oracle('C14 Fourier resampling is linear in the record: scaling the values by a power of two scales the output exactly, same step',
                           r1[0] == 'ok' and gen.scaled_exactly(r1[1].values, rbase[1].values, f) and r1[1].dt == rbase[1].dt, sc)
                ctx.oracle('C14.a Fourier resampling: scaling both steps by a power of two keeps the values and scales the returned step exactly',
                           r2[0] == 'ok' and same(r2[1].values, rbase[1].values) and r2[1].dt == rbase[1].dt * f, sc)


def _x2_large(ctx, cur):
    """(1) records of 5 000 - 60 000 samples refined by 2..10 or decimated by 2..8 (one job with 150 000 - 600 000 output samples): all clauses with NumPy in
    O(n); the Fourier variant on long NOISE records (a record is the sampling of its own trigonometric interpolant, so an integer refinement
    that keeps the period returns the original samples at their instants)"""
    import eqsig
    from eqsig.fns import time_step as ts
    from _hxb_common import same, val, light_history
    rng = ctx.rng
    quick = ctx.tier == 'quick'
    jobs = [('refine', rng.choice([5000, 8192, 20000]), rng.choice([2, 3, 10])), ('refine', rng.choice([30000, 60000]), rng.choice([5, 10])),
            ('decimate', rng.choice([10000, 32768, 60000]), rng.choice([2, 4, 8])), ('decimate', rng.choice([5001, 20000]), rng.choice([3, 5, 7]))]
    if not quick:
        jobs += [(b, n, k) for b in ('refine', 'decimate') for n in (4096, 4097, 65536, 100000) for k in (2, 3)]
    # source hints: input lengths around every new integer constant, and refinements by 10 whose OUTPUT length lies just above it
    jobs += [(b, m, 2) for m in gen.hint_sizes(ctx, lo=401, hi=300000, cap=4) for b in ('refine', 'decimate')] + [('refine', c // 10 + 1, 10) for c in gen.hint_sizes(ctx, lo=4001, hi=3000000, cap=2)]
    for branch, n, k in jobs:
        seed = rng.randrange(2 ** 31)
        g = np.random.default_rng(seed)
        dyadic = rng.random() < 0.5
        a = g.integers(-64, 65, size=n) / 8.0 if dyadic else g.standard_normal(n)
        dt = rng.choice([0.01, 0.005, 0.02, 0.25, 1.0])
        target = dt / (k - 0.3) if branch == 'refine' else dt * (k + 0.4)
        even = rng.random() < 0.5
        desc = {'generator': 'c14._x2_large: integers(-64,65)/8 if dyadic else standard_normal', 'dyadic': dyadic, 'n': n, 'numpy_seed': seed, 'dt': dt, 'target_dt': target,
                'even': even, 'branch': branch, 'factor': k}
        cur.clear()
        cur.update(desc)
        ctx.hist('extras2/large/' + branch)
        ctx.count_case(('x2l', n, seed, dt, target, even), True, sample=desc)
        fdec, fobj = float_decision(dt, target)
        snap = a.copy()
        r = call_impl(ts.interp_array_to_approx_dt, a, dt, target_dt=target, even=even)
        if r[0] != 'ok':
            ctx.oracle('C14 (large) interp_array_to_approx_dt returns on its domain', False, desc, detail=r)
            continue
        out, new_dt = np.asarray(r[1][0]), r[1][1]
        L = len(out)
        peak = float(np.max(np.abs(a)))
        ctx.oracle('C14 (large) interp_array_to_approx_dt leaves its input array unchanged', same(a, snap), desc)
        want_dt = dt / k if branch == 'refine' else dt / (1 / np.floor(1 / (dt / target)))
        ctx.oracle('C14.a (large) returned step <= target and dt/new_dt is the integer ceil(dt/target) resp. the reciprocal of floor(target/dt)',
                   new_dt <= target and fdec == (k if branch == 'refine' else Fraction(1, k)) and new_dt == want_dt, desc, detail={'new_dt': new_dt, 'want': want_dt})
        L_e, L_f = exact_len(n, fdec, even), float_len(n, fobj, even)[0]
        ctx.oracle('C14.b/c (large) length = k*n (refinement), ceil(n/m) (decimation), 2*trunc(./2) when even', L in (L_e, L_f), desc, detail={'len': L, 'exact': L_e, 'float': L_f})
        if even:
            ctx.oracle('C14.d (large) length is even when requested', L % 2 == 0, desc)
        ctx.oracle('C14.b/c (large) values never leave the input range (one-ulp slack)', L > 0 and float(out.min()) >= float(a.min()) - 1e-15 * peak and
                   float(out.max()) <= float(a.max()) + 1e-15 * peak, desc)
        if branch == 'refine':
            m = min(n, (L + k - 1) // k)
            ctx.oracle('C14.b (large) refinement: original samples reappear unchanged at their instants (out[k*i] == x[i])', same(out[::k][:m], a[:m]), desc)
            j = np.arange(L)
            i0 = np.minimum(j // k, n - 1)
            i1 = np.minimum(i0 + 1, n - 1)
            want = a[i0] + (a[i1] - a[i0]) * ((j % k) / k)
            dev = float(np.max(np.abs(out - want)))
            # the abscissae j/k are rounded (error <= ulp(n)/2) before np.interp multiplies by the local slope (<= 2*peak per sample)
            tol = 8 * n * 2.0 ** -52 * peak + 1e-15 * peak
            ctx.oracle('C14.b (large) refinement: output is the piecewise-linear interpolant, last value held (%s)' % ('exact: multiples of 1/8, k = 2' if dyadic and k in (2,) else 'to the rounding of the abscissae j/k: 8 n 2^-52 of the peak'),
                       dev == 0.0 if dyadic and k == 2 else dev <= tol, desc, detail={'max_dev': dev, 'tol': tol})
        else:
            idx = np.arange(L) * k
            ok = bool(np.all(idx < n)) and (same(out, a[idx]) if k in (2, 4, 8) else bool(np.max(np.abs(out - a[idx])) <= 1e-9 * peak))
            ctx.oracle('C14.c (large) decimation: output is a subsequence of the input (out[j] == x[j*m]; exactly for m a power of two, to 1e-9 of the peak otherwise)', ok, desc)
        dur_change = abs((L - 1) * new_dt - (n - 1) * dt)
        if branch == 'refine' or not even:
            ctx.oracle('C14.d (large) covered duration changes by less than two steps', dur_change < 2 * max(dt, new_dt), desc, detail={'change': dur_change})
        else:
            ctx.oracle('C14.d (large) [decimation, even=True] covered duration changes by less than three new steps (the proved bound)', dur_change < 3 * new_dt * (1 + 1e-12), desc,
                       detail={'change': dur_change})
        ro = call_impl(ts.interp_to_approx_dt, light_history(ctx, eqsig.AccSignal, a, dt), target_dt=target, even=even)
        ctx.oracle('C14 (large) object-level interp_to_approx_dt == array-level interp_array_to_approx_dt (values, dt, npts)', ro[0] == 'ok' and same(ro[1].values, out) and
                   ro[1].dt == new_dt and ro[1].npts == L, desc)
        ctx.last_object_history = None
        for lab, c in gen.container_variants(a * 8 if dyadic else a, arrays_only=True):
            f = 8.0 if dyadic else 1.0
            g2 = val(call_impl(ts.interp_array_to_approx_dt, c, dt, target_dt=target, even=even))
            ctx.oracle('C14 (large) interp_array_to_approx_dt does not depend on the dtype / memory layout of the record', g2 is not None and gen.scaled_exactly(g2[0], out, f)
                       and g2[1] == new_dt, {**desc, 'container': lab, 'values multiplied by': f})
        with np.errstate(all='ignore'):
            kk = rng.choice([600, -600])
            g3 = val(call_impl(ts.interp_array_to_approx_dt, a * 2.0 ** kk, dt * 2.0 ** -kk, target_dt=target * 2.0 ** -kk, even=even))
        ctx.oracle('C14 (large) exact covariance: values x 2^k and both steps x 2^-k', g3 is not None and gen.scaled_exactly(g3[0], out, 2.0 ** kk) and g3[1] == new_dt * 2.0 ** -kk,
                   {**desc, 'k': kk})
    # Fourier variant on long noise records
    for n, k in ([(rng.choice([5000, 8192]), 2), (rng.choice([9973, 20000, 30011]), 3)] if quick else [(5000, 2), (8192, 2), (9973, 3), (20000, 3), (30011, 2), (65536, 2), (60000, 5)]) + \
            [(m, 2) for m in gen.hint_sizes(ctx, lo=401, hi=100000, cap=3)]:
        seed = rng.randrange(2 ** 31)
        a = np.random.default_rng(seed).standard_normal(n)
        dt = rng.choice([0.01, 0.02, 0.5])
        even = (n * k) % 2 == 0 and rng.random() < 0.7
        desc = {'generator': 'c14._x2_large resample: standard_normal(n)', 'n': n, 'numpy_seed': seed, 'dt': dt, 'target_dt': dt / (k - 0.3), 'even': even, 'factor': k}
        cur.clear()
        cur.update(desc)
        ctx.hist('extras2/large/resample')
        ctx.count_case(('x2lr', n, seed, dt, k, even), True, sample=desc)
        asig = light_history(ctx, eqsig.AccSignal, a, dt)
        rr = call_impl(ts.resample_to_approx_dt, asig, target_dt=dt / (k - 0.3), even=even)
        ok = rr[0] == 'ok' and rr[1].npts == k * n and rr[1].dt == dt / k
        dev = None
        if ok:
            dev = float(np.max(np.abs(np.asarray(rr[1].values)[::k] - a)))
            ok = dev <= 1e-9 * float(np.max(np.abs(a)))
        ctx.oracle('C14.f (large) integer refinement by Fourier resampling: step dt/k, k*npts samples, and the original samples (the sampling of a band-limited '
                   'periodic signal) are reproduced at their instants to 1e-9 of the peak', ok, desc,
                   detail=rr if rr[0] != 'ok' else {'npts': rr[1].npts, 'dt': rr[1].dt, 'max_dev': dev})
        ctx.oracle('C14 (large) resample_to_approx_dt leaves the signal unchanged', same(asig.values, a) and asig.dt == dt, desc)
        ctx.last_object_history = None


def extras2(ctx):
    from _hxb_common import guarded_sections
    guarded_sections(ctx, 'C14', [('options', _x2_options), ('scale', _x2_scale), ('large', _x2_large)])


_run_main2 = run


def run(ctx):
    _run_main2(ctx)
    extras2(ctx)
    ctx.flush()


# ---- round-7 deliveries (lw_small / tw_single3): further correspondences of models with new theorems -------------------------
import _lw_small as _LW  # noqa: E402
from _single3_corr import corr_single3  # noqa: E402
_run_main_r7 = run


def run(ctx):
    _run_main_r7(ctx)
    corr_single3(ctx, parts=('timestep',))
    ctx.flush()


# ---- round 8: the same OUTPUT grid reached from different inputs, in consecutive calls ---------------------------------------------
# (a memo keyed on the output sampling — output length and step — but not on the factor or the input: found by seed C14-r8-1)

def same_output_grid(ctx):
    import eqsig
    from eqsig.fns import time_step
    rng = ctx.rng
    pairs = [((300, 2), (200, 3)), ((60, 2), (30, 4)), ((90, 4), (120, 3)), ((35, 6), (105, 2)), ((64, 8), (128, 4)), ((50, 3), (30, 5))]
    for (n1, f1), (n2, f2) in pairs + [tuple(reversed(p)) for p in pairs[:3]]:
        target = 2.0 ** -rng.choice([2, 3, 6])
        recs = []
        for n, f in ((n1, f1), (n2, f2)):
            recs.append((gen.int_record(rng, n).astype(float), target * f, f))
        for even in (False, True):
            outs = [call_impl(time_step.interp_array_to_approx_dt, v, dt, target, even=even) for v, dt, f in recs]
            for (v, dt, f), r in zip(recs, outs):
                inputs = {'values': v, 'dt': dt, 'target_dt': target, 'even': even, 'called_after': 'a call with another input that gives the same output length and step'}
                ctx.count_case(('same-grid', v.tobytes(), dt, target, even), True)
                ctx.hist('same-output-grid')
                if r[0] != 'ok':
                    ctx.oracle('C14.a interp_array_to_approx_dt returns', False, inputs, detail=r)
                    continue
                out, dt_new = r[1]
                ok = abs(dt_new * f - dt) <= 1e-15 * dt and np.array_equal(np.asarray(out)[::f][:len(v)], v)
                ctx.oracle('C14.b refinement: the original samples reappear unchanged at their instants (step = dt / integer factor)', ok, inputs,
                           detail={'dt_new': dt_new, 'factor': f, 'npts_out': len(out)})
        # object level, the same way
        sigs = [eqsig.AccSignal(v, dt) for v, dt, f in recs]
        for s, (v, dt, f) in zip(sigs, recs):
            r = call_impl(time_step.interp_to_approx_dt, s, target, even=False)
            ok = r[0] == 'ok' and np.array_equal(np.asarray(r[1].values)[::f][:len(v)], v)
            ctx.oracle('C14.b (object level) refinement retains the original samples', ok,
                       {'values': v, 'dt': dt, 'target_dt': target, 'called_after': 'another object with the same output grid'}, detail=None if r[0] == 'ok' else r)
    ctx.flush()


_run_main_r8 = run


def run(ctx):
    _run_main_r8(ctx)
    same_output_grid(ctx)
    ctx.flush()


# ---- round 9: quotients dt/target_dt (and target_dt/dt) that are NEAR MISSES of a whole number -------------------------------------------------
# relative 1e-15 .. 1e-4 above and below k (targets typed to a few digits such as dt/3 = 0.0033333, k (1 +- eps)): the one-ulp grid above only reaches
# the last bit, random pairs come within 1e-5 of a whole quotient with probability ~1e-5 (a "snap to the nearest whole factor" guard: seed C03-r9-1)

def near_whole_quotients(ctx):
    import eqsig
    from eqsig.fns import time_step as ts
    rng = ctx.rng
    eps_list = [1e-15, 1e-14, 1e-12, 1e-10, 1e-9, 1e-8, 1e-7, 1e-6, 3e-6, 9e-6, 3e-5, 1e-4]
    cases = [(0.01, 0.00333333, 'typed'), (0.01, 0.00333334, 'typed'), (0.02, 0.0028571, 'typed'), (0.0099999, 0.03, 'typed'), (0.0100001, 0.03, 'typed')]
    for k in range(1, 21):
        for _ in range(2 if ctx.tier == 'quick' else 12):
            dt = rng.choice([0.01, 0.02, 0.005, 0.05, 0.004, 0.3, 1.0, 0.0078125])
            eps = rng.choice(eps_list)
            q = k * (1 + rng.choice([-1, 1]) * eps)
            if q > 1:
                cases.append((dt, dt / q, 'dt / target = k (1 +- eps)'))
            cases.append((dt, dt * q, 'target / dt = k (1 +- eps)'))
            digits = rng.randint(5, 9)
            if k >= 2:
                t0 = float(f'%.{digits}f' % (dt / k))
                cases.append((dt, t0 + rng.choice([-1, 0, 1]) * 10.0 ** -digits, 'typed'))
    for dt, target, kind in cases:
        if not (target > 0 and dt > 0):
            continue
        n = rng.choice([7, 12, 33, 60])
        a = gen.int_record(rng, n).astype(float) if rng.random() < 0.5 else gen.noise_record(rng, n)
        even = rng.random() < 0.5
        inputs = {'values': a, 'dt': dt, 'target_dt': target, 'even': even, 'family': kind}
        ctx.hist('near-whole quotient/' + kind)
        ctx.count_case(('r9near', a.tobytes(), dt, target, even), True)
        level = rng.choice(['array', 'array', 'object', 'resample'])
        if level == 'array':
            r = call_impl(ts.interp_array_to_approx_dt, a, dt, target, even=even)
            new_dt, out = (r[1][1], np.asarray(r[1][0])) if r[0] == 'ok' else (None, None)
        else:
            fn = ts.interp_to_approx_dt if level == 'object' else ts.resample_to_approx_dt
            if level == 'resample' and (not even or target >= dt * n / 2):
                fn = ts.interp_to_approx_dt       # resample_to_approx_dt: even=False / tiny outputs are open finding F14-2 territory
            r = call_impl(fn, eqsig.AccSignal(a, dt), target, even=even)
            new_dt, out = (r[1].dt, np.asarray(r[1].values)) if r[0] == 'ok' else (None, None)
        if r[0] != 'ok':
            ctx.oracle('C14 interp_array_to_approx_dt returns on its domain (dt, target > 0)', False, {**inputs, 'level': level}, detail=r)
            continue
        fdt, ftg, fnd = fr(dt), fr(target), fr(float(new_dt))
        q = fdt / ftg
        edec = exact_decision(dt, target)
        near = near_integer(dt, target) or float_decision(dt, target)[0] != edec
        ctx.oracle('C14.a returned step does not exceed the target (to within 2^-50 relative; exactly unless the binary64 quotient is '
                   'within one ulp of an integer)', fnd <= ftg * (1 + EPS50) and (near or fnd <= ftg * (1 + Fraction(1, 2 ** 52))),
                   {**inputs, 'level': level}, detail={'new_dt': new_dt, 'dt/target': float(q)})
        rr = fdt / fnd
        got = Fraction(round(rr)) if rr >= 1 else Fraction(1, round(1 / rr))
        ctx.oracle('C14.a ratio dt/new_dt is an integer (refinement) or the reciprocal of an integer (decimation)', abs(rr / got - 1) <= EPS50, {**inputs, 'level': level},
                   detail={'new_dt': new_dt, 'ratio': float(rr)})
        ctx.oracle('C14.a factor = ceil(dt/target) when dt >= target, 1/floor(target/dt) otherwise (exact quotient; either neighbour when '
                   'the binary64 quotient is within one ulp of an integer)', got == edec or (near and got == float_decision(dt, target)[0]), {**inputs, 'level': level},
                   detail={'factor_from_output': [got.numerator, got.denominator], 'rule': [edec.numerator, edec.denominator]})
        if got >= 1 and level != 'resample':
            kk = int(got)
            ctx.oracle('C14.b refinement: original samples reappear unchanged at their instants (out[k*i] == x[i])',
                       bool(np.array_equal(out[::kk][:n], a[:len(out[::kk][:n])])) and len(out) >= kk * (n - 1), {**inputs, 'level': level}, detail={'k': kk, 'len': len(out)})
    ctx.flush()


_run_main_r9 = run


def run(ctx):
    _run_main_r9(ctx)
    near_whole_quotients(ctx)
    ctx.flush()
