"""C12 — zero crossings and per-half-cycle (switched) peaks are exact."""
import itertools
from fractions import Fraction

import numpy as np

import gen
from core import fr, w_rat, w_rats, w_bool, p_ints, cmp_exact, call_impl

RULE = ("exhaustive: every sequence over {-2..2} up to length 6 (quick) / 8 (thorough) and over {-3..3} up to length 4 / 6; "
        "random series with >= 3 distinct levels per excursion up to length 5000; keep_adj_zeros in {T,F}; tol in {0, 1/2, 3/2, 1}. "
        "Index outputs compared exactly. distinct = hash of the series; non-trivial = length >= 3 and not constant")
TIE = "correspondence (hand model Model/Switched.lean on top of Model/Peaks.lean; exhaustive over small alphabets)"
NOT_PROVED = ["sign of products v[i-1]*v[i] that underflow in binary64 (not generated)",
              "C12.f: 'switched peaks with tol>0 are a subsequence of the tol=0 result' is false of code and model (known finding F12-2); "
              "proved instead: sublist of the peak list"]
EXHAUSTIVE = True
PROP_MODULES = ['C12', 'C12Discharged']


def spec_zc(v, keep):
    out = []
    for i in range(len(v)):
        if i == 0:
            out.append(0)
            continue
        if v[i] == 0 and (keep or v[i - 1] != 0):
            out.append(i)
        elif v[i - 1] * v[i] < 0:
            out.append(i)
    return out


def excursions(v):
    ex = []
    i = 0
    n = len(v)
    while i < n:
        if v[i] == 0:
            i += 1
            continue
        j = i
        while j + 1 < n and v[j + 1] * v[i] > 0:
            j += 1
        ex.append((i, j))
        i = j + 1
    return ex


def spec_switched(v, S, P):
    S = [int(s) for s in S]
    if S != sorted(set(S)):
        return 'strictly ascending'
    k = 0
    for (i, j) in excursions(v):
        ins = [s for s in S if i <= s <= j]
        if len(ins) != 1:
            return 'each excursion contains exactly one reported index'
        if abs(v[ins[0]]) != max(abs(x) for x in v[i:j + 1]):
            return 'reported index of an excursion is at its largest |value|'
    Pset = set(int(p) for p in P)
    for s in S:
        if v[s] == 0 and s not in Pset:
            return 'any other reported index is a zero-valued turning point'
    for a, b in zip(S, S[1:]):
        if v[a] * v[b] > 0:
            return 'consecutive reported indices do not share a strict sign'
    if max(abs(x) for x in v) != max(abs(v[s]) for s in S):
        return 'global absolute maximum is included'
    return None


def is_subseq(small, big):
    it = iter(big)
    return all(x in it for x in small)


def run(ctx):
    from eqsig.fns import peaks_and_crossings as pc
    rng = ctx.rng
    if ctx.tier == 'quick':
        spaces = [(range(-2, 3), 6), (range(-3, 4), 4)]
        n_random, maxlen_r = 300, 600
    else:
        spaces = [(range(-2, 3), 8), (range(-3, 4), 6)]
        n_random, maxlen_r = 3000, 5000
    corpus = [(5, 1, 3, -1), (0, 0.01, 0.1, -0.3, -0.25, -4, 1), (0, 2, 1, 2, -1, 1, 0, 0, 1, 0.3, 0, -1, 0.2, 1, 0.2),
              (0, 0, 0), (1, 0, 0, -1), (0, 1, 2), (-2, -1, 1, 2), (1, 1, 2, 1), (3, -1, 0, 0, 2)]
    tols = [Fraction(0), Fraction(1, 2), Fraction(3, 2), Fraction(1)]

    def one(v, tol_list):
        arr = np.array(v, dtype=float)
        vv = [fr(x) for x in v]
        nonconst = len(set(v)) > 1
        ctx.count_case(tuple(v), len(v) >= 3 and nonconst,
                       sample={'fn': 'zero crossings / switched peaks', 'values': list(v)} if ctx.evaluations % 20011 == 0 else None)
        z0 = {}
        for keep in (False, True):
            for tol in tol_list:
                res = call_impl(pc.get_zero_crossings_array_indices, arr, keep_adj_zeros=keep, tol=float(tol))
                ctx.corr('get_zero_crossings_array_indices', f"zc|{w_bool(keep)}|{w_rat(tol)}|{w_rats(v)}", res,
                         lambda outs, val: cmp_exact([int(x) for x in val], p_ints(outs[0])),
                         inputs={'values': list(v), 'keep_adj_zeros': keep, 'tol': float(tol)})
                if res[0] != 'ok':
                    continue
                z = [int(x) for x in res[1]]
                if tol == 0:
                    z0[keep] = z
                    want = spec_zc(vv, keep)
                    ctx.oracle('C12.a zero-crossing indices == {0} + zeros (first of each run unless keep_adj) + first sample after a strict sign change',
                               z == want, inputs={'values': list(v), 'keep_adj_zeros': keep}, detail={'got': z, 'want': want})
                elif keep in z0:
                    ctx.oracle('C12.b zero crossings with tol>0 are a subsequence of the tol=0 result', is_subseq(z, z0[keep]),
                               inputs={'values': list(v), 'keep_adj_zeros': keep, 'tol': float(tol)}, detail={'tol0': z0[keep], 'tol': z})
        s0 = None
        P = None
        for tol in tol_list:
            res = call_impl(pc.get_switched_peak_array_indices, arr, tol=float(tol))
            ctx.corr('get_switched_peak_array_indices', f"switched|{w_rat(tol)}|{w_rats(v)}", res,
                     lambda outs, val: cmp_exact([int(x) for x in val], p_ints(outs[0])),
                     inputs={'values': list(v), 'tol': float(tol)})
            if res[0] != 'ok' or not nonconst:
                continue
            S = [int(x) for x in res[1]]
            if P is None:
                P = [int(p) for p in pc.get_peak_array_indices(arr)]
            if tol == 0:
                s0 = S
                bad = spec_switched(vv, S, P)
                ctx.oracle('C12.c-e switched peaks: ' + (bad or 'ascending / one per excursion at its largest |value| / zero-valued turning points / signs / global max'),
                           bad is None, inputs={'values': list(v)}, detail={'got': S, 'peaks': P},
                           facts={'fn': 'switched', 'tol': 0.0, 'first_nonzero': bool(v[0] != 0)})
            else:
                ctx.oracle('switched peaks with tol>0 are a sublist of the peak list', is_subseq(S, P),
                           inputs={'values': list(v), 'tol': float(tol)}, detail={'got': S, 'peaks': P})
                if s0 is not None:
                    ctx.oracle('C12.f switched peaks with tol>0 are a subsequence of the tol=0 result', is_subseq(S, s0),
                               inputs={'values': list(v), 'tol': float(tol)}, detail={'tol0': s0, 'tol': S},
                               facts={'fn': 'switched', 'tol': float(tol), 'clause': 'subsequence'})

    for v in corpus:
        ctx.hist('corpus')
        one(v, tols)
    for levels, maxlen in spaces:
        levels = list(levels)
        for n in range(1, maxlen + 1):
            for v in itertools.product(levels, repeat=n):
                ctx.hist(f'exhaustive/{len(levels)}-level/len={n}')
                one(v, tols if n <= 5 else tols[:2])
        ctx.flush()
    for i in range(n_random):
        n = gen.log_int(rng, 2, maxlen_r)
        kind = rng.choice(['excursions', 'noise', 'plateau', 'dyadic', 'tiny-scale', 'near-tie'])
        if kind == 'tiny-scale':
            v = (gen.dyadic_record(rng, n) * 2.0 ** -rng.choice([30, 40, 60])).tolist()
        elif kind == 'near-tie':
            v = (gen.int_record(rng, n) + np.array([rng.choice([0, 1, -1, 2]) * 2.0 ** -rng.choice([28, 34, 40]) for _ in range(n)])).tolist()
        elif kind == 'excursions':
            # excursions with >= 3 distinct levels each, separated by sign changes or exact zeros
            v = []
            sgn = rng.choice([-1, 1])
            while len(v) < n:
                m = rng.randint(3, 8)
                v += [sgn * rng.choice([0.25, 0.5, 1, 1.5, 2, 3, 5]) for _ in range(m)]
                if rng.random() < 0.3:
                    v += [0.0] * rng.randint(1, 3)
                sgn = -sgn
            v = v[:n]
        elif kind == 'noise':
            v = gen.noise_record(rng, n).tolist()
        elif kind == 'plateau':
            v = gen.plateau_record(rng, n).tolist()
        else:
            v = gen.dyadic_record(rng, n).tolist()
        ctx.hist('random/' + kind)
        one(tuple(float(x) for x in v), tols[:3] if n <= 300 else tols[:1])
    ctx.flush()
    # LONG records (thousands of turning points) in which the series touches zero and turns back, dips to zero between excursions of
    # the same sign, or sits on zero for a while: a vectorised path for long inputs must group exactly like the loop
    for i in range(3 if ctx.tier == 'quick' else 12):
        n = rng.choice([2500, 4000, 6000])
        v = []
        sgn = rng.choice([-1, 1])
        while len(v) < n:
            v += [sgn * rng.choice([0.25, 0.5, 1, 1.5, 2, 3, 5]) for _ in range(rng.randint(2, 6))]
            r = rng.random()
            if r < 0.35:
                v += [0.0]                               # touch zero ...
            elif r < 0.45:
                v += [0.0] * rng.randint(2, 3)
            if rng.random() < 0.5:                       # ... and turn back (same sign) half of the time
                sgn = -sgn
        ctx.hist('long/zero-touches')
        one(tuple(float(x) for x in v[:n]), tols[:2])
    # narrow integer dtypes: the indices are those of the same numbers as float64
    for i in range(20 if ctx.tier == 'quick' else 200):
        n = gen.log_int(rng, 3, 40)
        v = gen.int_record(rng, n)
        if len(set(v.tolist())) < 2:
            continue
        for label, arr, f64 in gen.narrow_int_variants(v):
            ctx.hist('narrow-int/' + label)
            for nm, call in (('zero crossings', lambda x: pc.get_zero_crossings_array_indices(x)),
                             ('zero crossings/keep', lambda x: pc.get_zero_crossings_array_indices(x, keep_adj_zeros=True)),
                             ('switched peaks', lambda x: pc.get_switched_peak_array_indices(x))):
                want, got = call_impl(call, f64), call_impl(call, arr)
                ok = want[0] == got[0] and (want[0] != 'ok' or list(map(int, want[1])) == list(map(int, got[1])))
                ctx.oracle('C12 integer records of any width give the indices of the same numbers as float64 (%s)' % nm, ok,
                           {'values': arr.tolist(), 'dtype': str(arr.dtype)}, detail={'float64': want[1] if want[0] != 'ok' else list(map(int, want[1]))[:12],
                                                                                       'integer': got[1] if got[0] != 'ok' else list(map(int, got[1]))[:12]})
    ctx.flush()


# ---- known findings -------------------------------------------------------------------------------------------------

def _m_f12_2(f):
    return f['facts'].get('fn') == 'switched' and f['facts'].get('clause') == 'subsequence' and f['facts'].get('tol', 0) > 0


KNOWN_MATCHERS = {'F12-2': _m_f12_2}


def known_witness(fid):
    from eqsig.fns import peaks_and_crossings as pc
    if fid == 'F12-2':
        v = np.array([0, 0.01, 0.1, -0.3, -0.25, -4, 1])
        s0 = list(pc.get_switched_peak_array_indices(v))
        s1 = list(pc.get_switched_peak_array_indices(v, tol=0.5))
        return not is_subseq(s1, s0)
    return True
