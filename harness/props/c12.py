"""C12 — zero crossings and per-half-cycle (switched) peaks are exact."""
import itertools
from fractions import Fraction

import numpy as np

import gen
from core import fr, w_rat, w_rats, w_bool, p_ints, cmp_exact, call_impl

RULE = ("exhaustive: every sequence over {-2..2} up to length 6 (quick) / 8 (thorough) and over {-3..3} up to length 4 / 6; "
        "random series with >= 3 distinct levels per excursion up to length 5000; keep_adj_zeros in {T,F}; tol in {0, 1/2, 3/2, 1}. "
        "Index outputs compared exactly. distinct = hash of the series; non-trivial = length >= 3 and not constant")
TIE = "correspondence (hand model Model/Switched.lean on top of Model/Peaks.lean; exhaustive over small alphabets)"
NOT_PROVED = ["sign of products v[i-1]*v[i] that underflow in binary64 (not generated)",
              "C12.f unconditional 'tol>0 result is a subsequence of the tol=0 result' is false (F12-2); proved: sublist of the peak list, and the subsequence claim under three checkable conditions (boundaries of the tol run included in those of the 0 run; first peak of every excursion reaches tol if any does; every later peak reaches tol => equality) - sufficient, not necessary (Props/C12TolSublist)",
              "proved instead: sublist of the peak list"]
EXHAUSTIVE = True
PROP_MODULES = ['C12', 'C12Discharged', 'C12Repair', 'C12Gen', 'C12ZeroPeak', 'C12TolSublist', 'C12GenZeroPeak']


def spec_zc(v, keep):
    out = []
    for i in range(len(v)):
        if i == 0:
            out.append(0)
            continue
        if v[i] == 0 and (keep or v[i - 1] != 0):
            out.append(i)
        elif v[i - 1] * v[i] < 0:
            out.append(i)
    return out


def excursions(v):
    ex = []
    i = 0
    n = len(v)
    while i < n:
        if v[i] == 0:
            i += 1
            continue
        j = i
        while j + 1 < n and v[j + 1] * v[i] > 0:
            j += 1
        ex.append((i, j))
        i = j + 1
    return ex


def spec_switched(v, S, P):
    S = [int(s) for s in S]
    if S != sorted(set(S)):
        return 'strictly ascending'
    k = 0
    for (i, j) in excursions(v):
        ins = [s for s in S if i <= s <= j]
        if len(ins) != 1:
            return 'each excursion contains exactly one reported index'
        if abs(v[ins[0]]) != max(abs(x) for x in v[i:j + 1]):
            return 'reported index of an excursion is at its largest |value|'
    Pset = set(int(p) for p in P)
    for s in S:
        if v[s] == 0 and s not in Pset:
            return 'any other reported index is a zero-valued turning point'
    for a, b in zip(S, S[1:]):
        if v[a] * v[b] > 0:
            return 'consecutive reported indices do not share a strict sign'
    if max(abs(x) for x in v) != max(abs(v[s]) for s in S):
        return 'global absolute maximum is included'
    return None


import _precalls as _PRE  # noqa: E402
_PRE_SHARE_SMALL = 0.02     # per call site, exhaustive part (~20 000 short series, up to 12 call sites each)
_PRE_SHARE = 0.3            # per call site, random / corpus part


def is_subseq(small, big):
    it = iter(big)
    return all(x in it for x in small)


def run(ctx):
    from eqsig.fns import peaks_and_crossings as pc
    rng = ctx.rng
    if ctx.tier == 'quick':
        spaces = [(range(-2, 3), 6), (range(-3, 4), 4)]
        n_random, maxlen_r = 300, 600
    else:
        spaces = [(range(-2, 3), 8), (range(-3, 4), 6)]
        n_random, maxlen_r = 3000, 5000
    corpus = [(5, 1, 3, -1), (0, 0.01, 0.1, -0.3, -0.25, -4, 1), (0, 2, 1, 2, -1, 1, 0, 0, 1, 0.3, 0, -1, 0.2, 1, 0.2),
              (0, 0, 0), (1, 0, 0, -1), (0, 1, 2), (-2, -1, 1, 2), (1, 1, 2, 1), (3, -1, 0, 0, 2)]
    tols = [Fraction(0), Fraction(1, 2), Fraction(3, 2), Fraction(1)]

    def one(v, tol_list):
        arr = np.array(v, dtype=float)
        vv = [fr(x) for x in v]
        nonconst = len(set(v)) > 1
        ctx.count_case(tuple(v), len(v) >= 3 and nonconst,
                       sample={'fn': 'zero crossings / switched peaks', 'values': list(v)} if ctx.evaluations % 20011 == 0 else None)
        z0 = {}
        # round 7: before a share of the calls, public functions of the module are called on the same content with non-default options,
        # positionally / by keyword, results ignored (_precalls.py); `pre` lists them for the failing input
        share = _PRE_SHARE_SMALL if len(v) <= 8 else _PRE_SHARE
        for keep in (False, True):
            for tol in tol_list:
                pre = {}
                _PRE.before(ctx, _PRE.pc_entries, arr, pre, share=share)
                # the options by keyword, positionally or (defaults) left out: one of the documented ways of making this call
                how = _PRE.rng_of(ctx).choice(['keyword', 'keyword', 'positional', 'minimal'])
                if how == 'positional':
                    res = call_impl(pc.get_zero_crossings_array_indices, arr, keep, float(tol))
                elif how == 'minimal':
                    res = call_impl(pc.get_zero_crossings_array_indices, arr, **({'keep_adj_zeros': keep} if keep else {}), **({'tol': float(tol)} if tol != 0 else {}))
                else:
                    res = call_impl(pc.get_zero_crossings_array_indices, arr, keep_adj_zeros=keep, tol=float(tol))
                ctx.corr('get_zero_crossings_array_indices', f"zc|{w_bool(keep)}|{w_rat(tol)}|{w_rats(v)}", res,
                         lambda outs, val: cmp_exact([int(x) for x in val], p_ints(outs[0])),
                         inputs={'values': list(v), 'keep_adj_zeros': keep, 'tol': float(tol), 'options passed': how, **pre})
                if res[0] != 'ok':
                    continue
                z = [int(x) for x in res[1]]
                if tol == 0:
                    z0[keep] = z
                    want = spec_zc(vv, keep)
                    ctx.oracle('C12.a zero-crossing indices == {0} + zeros (first of each run unless keep_adj) + first sample after a strict sign change',
                               z == want, inputs={'values': list(v), 'keep_adj_zeros': keep}, detail={'got': z, 'want': want})
                elif keep in z0:
                    ctx.oracle('C12.b zero crossings with tol>0 are a subsequence of the tol=0 result', is_subseq(z, z0[keep]),
                               inputs={'values': list(v), 'keep_adj_zeros': keep, 'tol': float(tol)}, detail={'tol0': z0[keep], 'tol': z})
        s0 = None
        P = None
        for tol in tol_list:
            pre = {}
            _PRE.before(ctx, _PRE.pc_entries, arr, pre, share=share)
            how = _PRE.rng_of(ctx).choice(['keyword', 'keyword', 'positional', 'minimal'])
            if how == 'positional':
                res = call_impl(pc.get_switched_peak_array_indices, arr, float(tol))
            elif how == 'minimal' and tol == 0:
                res = call_impl(pc.get_switched_peak_array_indices, arr)
            else:
                res = call_impl(pc.get_switched_peak_array_indices, arr, tol=float(tol))
            ctx.corr('get_switched_peak_array_indices', f"switched|{w_rat(tol)}|{w_rats(v)}", res,
                     lambda outs, val: cmp_exact([int(x) for x in val], p_ints(outs[0])),
                     inputs={'values': list(v), 'tol': float(tol), 'options passed': how, **pre})
            if res[0] != 'ok' or (not nonconst and tol != 0):
                continue
            # constant series are series too (C12 says "for every series"): the tol = 0 clauses are evaluated on them as well
            S = [int(x) for x in res[1]]
            if P is None:
                P = [int(p) for p in pc.get_peak_array_indices(arr)]
            if tol == 0:
                s0 = S
                bad = spec_switched(vv, S, P)
                ctx.oracle('C12.c-e switched peaks: ' + (bad or 'ascending / one per excursion at its largest |value| / zero-valued turning points / signs / global max'),
                           bad is None, inputs={'values': list(v)}, detail={'got': S, 'peaks': P},
                           facts={'fn': 'switched', 'tol': 0.0, 'first_nonzero': bool(v[0] != 0), 'all_zero': all(x == 0 for x in v),
                                  'bad': bad})
            else:
                ctx.oracle('switched peaks with tol>0 are a sublist of the peak list', is_subseq(S, P),
                           inputs={'values': list(v), 'tol': float(tol)}, detail={'got': S, 'peaks': P})
                if s0 is not None:
                    ctx.oracle('C12.f switched peaks with tol>0 are a subsequence of the tol=0 result', is_subseq(S, s0),
                               inputs={'values': list(v), 'tol': float(tol)}, detail={'tol0': s0, 'tol': S},
                               facts={'fn': 'switched', 'tol': float(tol), 'clause': 'subsequence'})

    for v in corpus:
        ctx.hist('corpus')
        one(v, tols)
    for levels, maxlen in spaces:
        levels = list(levels)
        for n in range(1, maxlen + 1):
            for v in itertools.product(levels, repeat=n):
                ctx.hist(f'exhaustive/{len(levels)}-level/len={n}')
                one(v, tols if n <= 5 else tols[:2])
        ctx.flush()
    for i in range(n_random):
        n = gen.log_int(rng, 2, maxlen_r)
        kind = rng.choice(['excursions', 'noise', 'plateau', 'dyadic', 'tiny-scale', 'near-tie', 'wide-range', 'wide-range'])
        if kind == 'wide-range':
            # strong motion followed / preceded by a coda 2^-55 ... 2^-75 of its size, with exact zeros in it: a non-zero sample is
            # non-zero whatever the peak of the record is
            m = max(2, n // 2)
            big = gen.int_record(rng, m) * 2.0 ** rng.choice([0, 10])
            rip = gen.int_record(rng, max(2, n - m)) * 2.0 ** -rng.choice([55, 60, 75])
            v = (np.concatenate([big, rip]) if rng.random() < 0.5 else np.concatenate([rip, big])).tolist()
        elif kind == 'tiny-scale':
            v = (gen.dyadic_record(rng, n) * 2.0 ** -rng.choice([30, 40, 60])).tolist()
        elif kind == 'near-tie':
            v = (gen.int_record(rng, n) + np.array([rng.choice([0, 1, -1, 2]) * 2.0 ** -rng.choice([28, 34, 40]) for _ in range(n)])).tolist()
        elif kind == 'excursions':
            # excursions with >= 3 distinct levels each, separated by sign changes or exact zeros
            v = []
            sgn = rng.choice([-1, 1])
            while len(v) < n:
                m = rng.randint(3, 8)
                v += [sgn * rng.choice([0.25, 0.5, 1, 1.5, 2, 3, 5]) for _ in range(m)]
                if rng.random() < 0.3:
                    v += [0.0] * rng.randint(1, 3)
                sgn = -sgn
            v = v[:n]
        elif kind == 'noise':
            v = gen.noise_record(rng, n).tolist()
        elif kind == 'plateau':
            v = gen.plateau_record(rng, n).tolist()
        else:
            v = gen.dyadic_record(rng, n).tolist()
        ctx.hist('random/' + kind)
        one(tuple(float(x) for x in v), tols[:3] if n <= 300 else tols[:1])
    ctx.flush()
    # ---- round 7 (hx_r7b): ulp-extremum series (gen.ulp_extremum_series / _exhaustive): neighbouring samples that differ in the last bits AT turning
    # points, on plateaus and at the ends (the largest |value| of an excursion may exceed its neighbours by one ulp only); exact model, exact clauses
    for label, v in gen.ulp_extremum_exhaustive(max_k=3 if ctx.tier == 'quick' else 5, offsets=(-1, 0, 1) if ctx.tier == 'quick' else (-2, -1, 0, 1, 3)):
        ctx.hist(label)
        one(v, tols[:2])
        if label.endswith('rise-fall') or label.endswith('fall-rise'):       # the same crest in an excursion of the other sign / followed by a zero crossing
            one(tuple(-x for x in v) + (v[0],), tols[:1])
    ctx.flush()
    for i in range(150 if ctx.tier == 'quick' else 3000):
        kind, v = gen.ulp_extremum_series(rng, gen.log_int(rng, 4, 60 if i % 10 else 400))
        ctx.hist('ulp-extremum/' + kind)
        one(tuple(float(x) for x in v), tols[:2] if len(v) <= 100 else tols[:1])
    ctx.flush()
    # LONG records (thousands of turning points) in which the series touches zero and turns back, dips to zero between excursions of
    # the same sign, or sits on zero for a while: a vectorised path for long inputs must group exactly like the loop
    for i in range(3 if ctx.tier == 'quick' else 12):
        n = rng.choice([2500, 4000, 6000])
        v = []
        sgn = rng.choice([-1, 1])
        while len(v) < n:
            v += [sgn * rng.choice([0.25, 0.5, 1, 1.5, 2, 3, 5]) for _ in range(rng.randint(2, 6))]
            r = rng.random()
            if r < 0.35:
                v += [0.0]                               # touch zero ...
            elif r < 0.45:
                v += [0.0] * rng.randint(2, 3)
            if rng.random() < 0.5:                       # ... and turn back (same sign) half of the time
                sgn = -sgn
        ctx.hist('long/zero-touches')
        one(tuple(float(x) for x in v[:n]), tols[:2])
    # narrow integer dtypes: the indices are those of the same numbers as float64
    for i in range(20 if ctx.tier == 'quick' else 200):
        n = gen.log_int(rng, 3, 40)
        v = gen.int_record(rng, n)
        if len(set(v.tolist())) < 2:
            continue
        for label, arr, f64 in gen.narrow_int_variants(v):
            ctx.hist('narrow-int/' + label)
            for nm, call in (('zero crossings', lambda x: pc.get_zero_crossings_array_indices(x)),
                             ('zero crossings/keep', lambda x: pc.get_zero_crossings_array_indices(x, keep_adj_zeros=True)),
                             ('switched peaks', lambda x: pc.get_switched_peak_array_indices(x))):
                want, got = call_impl(call, f64), call_impl(call, arr)
                ok = want[0] == got[0] and (want[0] != 'ok' or list(map(int, want[1])) == list(map(int, got[1])))
                ctx.oracle('C12 integer records of any width give the indices of the same numbers as float64 (%s)' % nm, ok,
                           {'values': arr.tolist(), 'dtype': str(arr.dtype)}, detail={'float64': want[1] if want[0] != 'ok' else list(map(int, want[1]))[:12],
                                                                                       'integer': got[1] if got[0] != 'ok' else list(map(int, got[1]))[:12]})
    ctx.flush()


# ---- known findings -------------------------------------------------------------------------------------------------

def _m_f12_2(f):
    return f['facts'].get('fn') == 'switched' and f['facts'].get('clause') == 'subsequence' and f['facts'].get('tol', 0) > 0


def _m_f12_3(f):
    # the all-zero series only: switched peaks [0, 0] (the duplicated index of the constant-series convention of get_peak_array_indices)
    return (f['facts'].get('fn') == 'switched' and f['facts'].get('tol', 1) == 0 and f['facts'].get('all_zero') is True
            and f['facts'].get('bad') == 'strictly ascending')


KNOWN_MATCHERS = {'F12-2': _m_f12_2}     # F12-3 is fixed (95bbcf0): no matcher, a return is a violation


def known_witness(fid):
    from eqsig.fns import peaks_and_crossings as pc
    if fid == 'F12-2':
        v = np.array([0, 0.01, 0.1, -0.3, -0.25, -4, 1])
        s0 = list(pc.get_switched_peak_array_indices(v))
        s1 = list(pc.get_switched_peak_array_indices(v, tol=0.5))
        return not is_subseq(s1, s0)
    return True


# ---- extras2 (harness extension hx_b): object-level wrappers, containers, exact scaling, large instances ------------------------------------

def np_spec_zc(a, keep):
    """C12.a with NumPy comparisons of signs only (no products), O(n)"""
    a = np.asarray(a, dtype=float)
    s = np.sign(a)
    hit = np.zeros(len(a), dtype=bool)
    hit[0] = True
    z = a[1:] == 0
    hit[1:] |= z if keep else (z & (a[:-1] != 0))
    hit[1:] |= (s[1:] * s[:-1]) < 0
    return np.nonzero(hit)[0]


def np_spec_switched(a, S, P):
    """C12.c-e on a reported index array S (P = reported local peaks), vectorised; returns None or the violated clause"""
    a = np.asarray(a, dtype=float)
    S = np.asarray(S, dtype=np.int64)
    n = len(a)
    if len(S) == 0 or np.any(np.diff(S) <= 0) or S[0] < 0 or S[-1] >= n:
        return 'strictly ascending (inside the series)'
    s = np.sign(a)
    starts = np.concatenate(([0], np.nonzero(s[1:] != s[:-1])[0] + 1))
    ends = np.concatenate((starts[1:], [n]))
    ex = s[starts] != 0
    cnt = np.searchsorted(S, ends, 'left') - np.searchsorted(S, starts, 'left')
    if np.any(cnt[ex] != 1):
        return 'each excursion contains exactly one reported index'
    mx = np.maximum.reduceat(np.abs(a), starts)
    si = S[np.searchsorted(S, starts[ex], 'left')]
    if np.any(np.abs(a[si]) != mx[ex]):
        return 'reported index of an excursion is at its largest |value|'
    other = S[a[S] == 0]
    if not np.all(np.isin(other, np.asarray(P))):
        return 'any other reported index is a zero-valued turning point'
    sv = s[S]
    if np.any(sv[1:] * sv[:-1] > 0):
        return 'consecutive reported indices do not share a strict sign'
    if np.max(np.abs(a)) != np.max(np.abs(a[S])):
        return 'global absolute maximum is included'
    return None


def _same_idx(x, y):
    x, y = np.asarray(x), np.asarray(y)
    return x.shape == y.shape and bool(np.all(x == y))


def _light_history(ctx, cls, values, dt):
    """like Ctx.aged but without filling the (expensive) spectral caches"""
    rng = ctx.rng
    kind = rng.choice(['fresh', 'reset-other-length', 'reset-same-length', 'reset-shorter'])
    ctx.hist('object-history(light)/' + kind)
    ctx.last_object_history = kind
    values = np.array(values, dtype=float)
    n = len(values)
    if kind == 'fresh':
        return cls(values, dt)
    m = n + rng.randint(1, 9) if kind == 'reset-other-length' else n if kind == 'reset-same-length' else max(2, n - rng.randint(1, max(1, n // 2)))
    s = cls(np.array([rng.uniform(-1, 1) for _ in range(min(m, 50))] * (m // min(m, 50) + 1))[:m], dt)
    s.npts
    s.time
    s.reset_values(values)
    return s


def _excursion_record(rng, n, zero_touch=True):
    v = []
    sgn = rng.choice([-1, 1])
    while len(v) < n:
        v += [sgn * rng.choice([0.25, 0.5, 1, 1.5, 2, 3, 5]) for _ in range(rng.randint(2, 6))]
        r = rng.random()
        if zero_touch and r < 0.3:
            v += [0.0]
        elif zero_touch and r < 0.4:
            v += [0.0] * rng.randint(2, 3)
        if rng.random() < 0.6:
            sgn = -sgn
    return np.array(v[:n], dtype=float)


def _x2_wrappers(ctx, cur):
    import eqsig
    from eqsig.fns import peaks_and_crossings as pc
    rng = ctx.rng
    quick = ctx.tier == 'quick'

    # ---- (3) object-level wrappers (objects with a history), raw-array form of get_switched_peak_indices; (4) containers / dtypes -------
    for it in range(60 if quick else 600):
        n = gen.log_int(rng, 2, 80)
        kind = rng.choice(['excursions', 'int', 'plateau', 'dyadic', 'noise'])
        v = (_excursion_record(rng, n) if kind == 'excursions' else gen.int_record(rng, n) if kind == 'int' else gen.plateau_record(rng, n)
             if kind == 'plateau' else gen.dyadic_record(rng, n) if kind == 'dyadic' else gen.noise_record(rng, n))
        ctx.hist('extras2/wrappers/' + kind)
        ctx.count_case(('x2w', v.tobytes()), gen.nontrivial_record(v))
        dt = gen.any_dt(rng)
        inputs = {'values': v.tolist(), 'dt': dt}
        cur.clear()
        cur.update(inputs)
        cls = eqsig.AccSignal if it % 2 else eqsig.Signal
        asig = ctx.aged(cls, v, dt) if it % 5 == 0 else _light_history(ctx, cls, v, dt)
        _PRE.before(ctx, _PRE.pc_entries, v, inputs, share=_PRE_SHARE)      # round 7: preceding public calls on the same content
        z_ref = pc.get_zero_crossings_array_indices(v)
        _PRE.before(ctx, _PRE.pc_entries, v, inputs, share=_PRE_SHARE)
        rz = call_impl(pc.get_zero_crossings_indices, asig)
        ctx.oracle('C12.a get_zero_crossings_indices(asig) == get_zero_crossings_array_indices(asig.values) == {0} + first zeros + first samples after a sign change',
                   rz[0] == 'ok' and _same_idx(rz[1], z_ref) and _same_idx(rz[1], np_spec_zc(v, False)), inputs, detail={'wrapper': rz[1], 'array-level': z_ref})
        if len(set(v.tolist())) > 1:
            _PRE.before(ctx, _PRE.pc_entries, v, inputs, share=_PRE_SHARE)
            s_ref = pc.get_switched_peak_array_indices(v)
            P = pc.get_peak_array_indices(v)
            bad = np_spec_switched(v, s_ref, P)
            _PRE.before(ctx, _PRE.pc_entries, v, inputs, share=_PRE_SHARE)
            rs = call_impl(pc.get_switched_peak_indices, asig)
            ctx.oracle('C12.c-e get_switched_peak_indices(asig) == get_switched_peak_array_indices(asig.values)' + (' [array-level: ' + bad + ']' if bad else ''),
                       rs[0] == 'ok' and _same_idx(rs[1], s_ref) and bad is None, inputs, detail={'wrapper': rs[1], 'array-level': s_ref})
            for lab, raw in (('ndarray', v.copy()), ('list', v.tolist())):
                rr = call_impl(pc.get_switched_peak_indices, raw)
                ctx.oracle('C12.c-e get_switched_peak_indices(<plain %s>) == get_switched_peak_array_indices(values)' % lab,
                           rr[0] == 'ok' and _same_idx(rr[1], s_ref), inputs, detail={'wrapper': rr[1], 'array-level': s_ref})
        ctx.oracle('C12 the wrappers leave the record of the object unchanged', _same_idx(asig.values, v), inputs)
        ctx.last_object_history = None
        if it % 2 == 0:
            tol = rng.choice([0.5, 1.0, 1.5])
            calls = [('zero crossings', lambda x: pc.get_zero_crossings_array_indices(x)),
                     ('zero crossings/keep', lambda x: pc.get_zero_crossings_array_indices(x, keep_adj_zeros=True)),
                     ('zero crossings/tol', lambda x: pc.get_zero_crossings_array_indices(x, tol=tol)),
                     ('zero crossings/keep/tol', lambda x: pc.get_zero_crossings_array_indices(x, keep_adj_zeros=True, tol=tol))]
            if len(set(v.tolist())) > 1:
                calls += [('switched peaks', lambda x: pc.get_switched_peak_array_indices(x)),
                          ('switched peaks/tol', lambda x: pc.get_switched_peak_array_indices(x, tol=tol))]
            refs = [c(v) for _, c in calls]
            for lab, c in gen.container_variants(v):
                ctx.hist('extras2/container/' + lab)
                for (nm, call), ref in zip(calls, refs):
                    g = call_impl(call, c)
                    ctx.oracle('C12 the indices do not depend on the container or dtype holding the series (%s)' % nm, g[0] == 'ok' and _same_idx(g[1], ref),
                               {'values': v.tolist(), 'container': lab, 'tol': tol}, detail={'got': g[1], 'float64 ndarray': ref})


def _x2_scale(ctx, cur):
    import eqsig
    from eqsig.fns import peaks_and_crossings as pc
    rng = ctx.rng
    quick = ctx.tier == 'quick'

    # ---- (2) exact scale invariance (degree 0; the tolerance scales with the series). 2^-400 keeps the products of neighbouring multiples of
    # 1/8 inside the normal range, 2^+500 / 2^+900 overflow them to +-inf with the right sign; 2^-600 is the documented underflow limitation
    for it in range(20 if quick else 200):
        n = gen.log_int(rng, 3, 200)
        v = gen.dyadic_record(rng, n) if it % 3 == 0 else _excursion_record(rng, n) if it % 3 == 1 else gen.int_record(rng, n)
        if len(set(v.tolist())) < 2:
            continue
        cur.clear()
        cur.update({'values': v.tolist()})
        tol = rng.choice([0.5, 1.0, 1.5])
        fns = [('zero crossings', lambda x, t: pc.get_zero_crossings_array_indices(x)),
               ('zero crossings/keep', lambda x, t: pc.get_zero_crossings_array_indices(x, keep_adj_zeros=True)),
               ('zero crossings/tol', lambda x, t: pc.get_zero_crossings_array_indices(x, tol=t)),
               ('switched peaks', lambda x, t: pc.get_switched_peak_array_indices(x)),
               ('switched peaks/tol', lambda x, t: pc.get_switched_peak_array_indices(x, tol=t))]
        base = [f(v, tol) for _, f in fns]
        for k in (-400, 500, -200, 900):
            ctx.hist('extras2/scale/2^%d' % k)
            ctx.count_case(('x2s', k, v.tobytes()), True)
            w = v * 2.0 ** k
            for (nm, f), b in zip(fns, base):
                with np.errstate(all='ignore'):
                    g = call_impl(f, w, tol * 2.0 ** k)
                ctx.oracle('C12 indices are unchanged when series (and tolerance) are scaled by a power of two (%s)' % nm, g[0] == 'ok' and _same_idx(g[1], b),
                           {'values': v.tolist(), 'tol': tol, 'scale': '2**%d' % k}, detail={'scaled': g[1], 'base': b})


def _x2_large(ctx, cur):
    import eqsig
    from eqsig.fns import peaks_and_crossings as pc
    rng = ctx.rng
    quick = ctx.tier == 'quick'

    # ---- (1) large instances (tens of thousands of samples, thousands of excursions and zero touches): the clauses in O(n) with NumPy
    sizes = [('zero-touches', rng.choice([20000, 32768, 60000])), ('int-walk', rng.choice([10000, 16384, 50000])), ('noise', rng.choice([8192, 30000]))]
    if not quick:
        sizes += [(k, m) for k in ('zero-touches', 'int-walk', 'noise', 'excursions') for m in (4096, 5001, 65536, 100000)]
    # source hints: numbers of samples / of crossings, turning points and excursions ('zigzag': one per sample) around every new integer constant
    hs = gen.hint_sizes(ctx, lo=9, hi=300000, cap=4, halves=True)
    sizes += [('zero-touches', m) for m in hs if m > 600] + [('zigzag', m + d) for m in hs for d in (0, 2)]
    for kind, n in sizes:
        seed = rng.randrange(2 ** 31)
        g = np.random.default_rng(seed)
        if kind in ('zero-touches', 'excursions'):
            import random as _random
            v = _excursion_record(_random.Random(seed), n, zero_touch=(kind == 'zero-touches'))
        elif kind == 'int-walk':
            v = g.integers(-2, 3, size=n).astype(float)
        elif kind == 'zigzag':
            v = (g.integers(1, 4, size=n) * (-1) ** np.arange(n)).astype(float)
        else:
            v = g.standard_normal(n)
        desc = {'generator': 'c12.extras2 large', 'kind': kind, 'n': n, 'seed': seed}
        cur.clear()
        cur.update(desc)
        ctx.hist('extras2/large/' + kind)
        ctx.count_case(('x2l', kind, n, seed), True, sample=desc)
        z0 = {}
        for keep in (False, True):
            r = call_impl(pc.get_zero_crossings_array_indices, v, keep_adj_zeros=keep)
            want = np_spec_zc(v, keep)
            ctx.oracle('C12.a (large) zero-crossing indices == {0} + zeros (first of each run unless keep_adj) + first sample after a strict sign change',
                       r[0] == 'ok' and _same_idx(r[1], want), {**desc, 'keep_adj_zeros': keep},
                       detail={'len got': len(r[1]) if r[0] == 'ok' else r, 'len want': len(want)})
            z0[keep] = want
        P = pc.get_peak_array_indices(v)
        r = call_impl(pc.get_switched_peak_array_indices, v)
        bad = np_spec_switched(v, r[1], P) if r[0] == 'ok' else 'returns'
        ctx.oracle('C12.c-e (large) switched peaks: ' + (bad or 'ascending / one per excursion at its largest |value| / zero-valued turning points / signs / global max'),
                   bad is None, desc, detail={'count': len(r[1]) if r[0] == 'ok' else r})
        if r[0] == 'ok':
            S = np.asarray(r[1])
            asig = _light_history(ctx, eqsig.AccSignal, v, 0.01)
            ctx.oracle('C12 (large) object-level wrappers == array-level functions', _same_idx(pc.get_switched_peak_indices(asig), S) and
                       _same_idx(pc.get_zero_crossings_indices(asig), z0[False]), desc)
            ctx.last_object_history = None
            for lab, c in gen.container_variants(v, arrays_only=True):
                ctx.oracle('C12 (large) indices do not depend on the dtype / memory layout of the series', _same_idx(pc.get_switched_peak_array_indices(c), S)
                           and _same_idx(pc.get_zero_crossings_array_indices(c), z0[False]), {**desc, 'container': lab})
            with np.errstate(all='ignore'):
                for k in ((-400, 500) if kind != 'noise' else (-100, 400)):
                    w = v * 2.0 ** k
                    ctx.oracle('C12 (large) indices unchanged when the series is scaled by a power of two', _same_idx(pc.get_switched_peak_array_indices(w), S)
                               and _same_idx(pc.get_zero_crossings_array_indices(w), z0[False]), {**desc, 'scale': '2**%d' % k})


def extras2(ctx):
    from _hxb_common import guarded_sections
    guarded_sections(ctx, 'C12', [('wrappers', _x2_wrappers), ('scale', _x2_scale), ('large', _x2_large)])


_run_main2 = run


def run(ctx):
    _run_main2(ctx)
    extras2(ctx)
    ctx.flush()

# ---- round-5 lesson: results depend on the content of the array, not on the identity of the array object ---------------------------------

def extras_refill(ctx):
    from eqsig.fns import peaks_and_crossings as pc
    gen.refill_oracle(ctx, 'C12 the same ndarray object changed in place and analysed again gives the indices of its CURRENT content (%s)',
                      {'get_zero_crossings_array_indices': pc.get_zero_crossings_array_indices, 'get_switched_peak_array_indices': pc.get_switched_peak_array_indices,
                       'switched, tol=0.5': lambda x: pc.get_switched_peak_array_indices(x, tol=0.5)},
                      ctx.rng, lambda rng: gen.int_record(rng, 24, -5, 5), n_rep=4 if ctx.tier == 'quick' else 40)


_run_main_rf = run


def run(ctx):
    _run_main_rf(ctx)
    extras_refill(ctx)
    ctx.flush()


# evidence: how the model is tied to the source on every run (as built, supersedes the value above)
TIE = 'translator (zero crossings incl. the tol loop, switched-peak grouping loop -> Gen/CrossingsFns; Props/C12Gen) + correspondence (exhaustive, exact)'


# ---- round-7 deliveries (lw_small / tw_single3): further correspondences of models with new theorems -------------------------
import _lw_small as _LW  # noqa: E402
from _single3_corr import corr_single3  # noqa: E402
_run_main_r7 = run


def run(ctx):
    _run_main_r7(ctx)
    _LW.corr_switched_tol(ctx)
    corr_single3(ctx, parts=('peaks',))
    ctx.flush()


# ---- tw_rest2: generated zero-and-peak / cluster / slow-Stockwell definitions vs the implementation ---------------------------
from _rest2_corr import corr_rest2  # noqa: E402
_run_main_rest2 = run


def run(ctx):
    _run_main_rest2(ctx)
    corr_rest2(ctx, parts=('peaks',))
    ctx.flush()


# ---- round 9 (hx_r9b): reduced-precision floating records (float16 / float32) whose neighbouring samples underflow when multiplied ---------
def extras_lowprec(ctx):
    """the property quantifies over every series: a float16 / float32 ndarray holds real numbers like any other container, and the zero
    crossings must be those of the float64 image of the same numbers (the pinned get_zero_crossings_array_indices converts to float64 first).
    NOT demanded: get_switched_peak_array_indices (the pinned tree multiplies two peak values in the dtype of the record: see NOTES hx_r9b)."""
    from eqsig.fns import peaks_and_crossings as pc
    rng = ctx.rng
    for it in range(6 if ctx.tier == 'quick' else 60):
        n = rng.choice([5, 9, 16, 33])
        v = gen.int_record(rng, n, -3, 3) if it % 2 == 0 else np.asarray(gen.plateau_record(rng, n), dtype=float)
        if it % 3 == 0:
            v = v * (-1.0) ** np.arange(n) + (v == 0) * (it % 2)               # sign change at nearly every step, with / without exact zeros
        tolk = rng.choice([0.5, 1.0, 1.5])
        for lab, lo, f64 in gen.low_precision_tiny(v):
            ctx.hist('lowprec/' + lab)
            snap = lo.copy()
            unit = float(np.min(np.abs(f64[f64 != 0]))) if np.any(f64 != 0) else 1.0       # the tiny unit 2^k: tol in the units of the record
            calls = [('zero crossings', {}), ('zero crossings/keep', {'keep_adj_zeros': True}), ('zero crossings/tol=0.0', {'tol': 0.0}),
                     ('zero crossings/tol', {'tol': tolk * unit}), ('zero crossings/keep/tol', {'keep_adj_zeros': True, 'tol': tolk * unit})]
            for nm, kw in calls:
                ref, g = pc.get_zero_crossings_array_indices(f64, **kw), call_impl(pc.get_zero_crossings_array_indices, lo, **kw)
                inputs = {'values': lo, 'dtype': str(lo.dtype), 'container': lab, **kw}
                ctx.oracle('C12 the zero crossings of a float16 / float32 ndarray are those of the same numbers held in float64 (%s)' % nm,
                           g[0] == 'ok' and _same_idx(g[1], ref), inputs, detail={'got': g[1], 'float64 ndarray': ref})
                if 'tol' not in kw or kw['tol'] == 0.0:
                    spec = np_spec_zc(f64, bool(kw.get('keep_adj_zeros', False)))
                    ctx.oracle('C12.a zero-crossing indices: 0, every exact zero (first of a run unless keep_adj_zeros), first sample after each strict '
                               'sign change (float16 / float32 ndarray)', g[0] == 'ok' and _same_idx(g[1], spec), inputs, detail={'got': g[1], 'spec': spec})
            ctx.oracle('C12 input array unchanged (values and dtype)', lo.dtype == snap.dtype and np.array_equal(lo, snap), {'values': snap, 'container': lab})


_run_main_lp = run


def run(ctx):
    _run_main_lp(ctx)
    extras_lowprec(ctx)
    ctx.flush()
