"""C08 — velocity/displacement are cumulative trapezoid integrals; peaks are max abs."""
from fractions import Fraction

import math
import numpy as np

import gen
from core import fr, w_rat, w_rats, w_bool, p_rats, cmp_exact, cmp_budget, call_impl

RULE = ("records: n in 2..5000 (log-uniform) of kinds dyadic/int/plateau/spike/step (dyadic-safe: compared exactly) and "
        "noise/sine/big/tiny (rounding budget 1e-9 of the series peak); dt dyadic for the exact third, decimal otherwise; "
        "trap in {True, False}; array-level and AccSignal access; int dtype and list containers. "
        "distinct = hash of (record, dt, trap); non-trivial = length >= 3 and not constant")
TIE = "correspondence (hand model Model/Displacements.lean run on the same doubles as exact rationals)"
NOT_PROVED = ["IEEE rounding of the cumulative sums (measured per case: max_rounding_gap)"]
ASSUMPTIONS = ["scipy.integrate.cumulative_trapezoid and np.cumsum are the sums their documentation states (prelude primitives, differentially tested)"]


PROP_MODULES = ['C08', 'C08Gen', 'C08Residual', 'C08GenResidual', 'C08GenObject', 'C08CorrectMe']

def run(ctx):
    import eqsig
    from eqsig import displacements as sd
    from eqsig import im
    rng = ctx.rng
    n_cases = 120 if ctx.tier == 'quick' else 1500
    corpus = [
        (np.array([1.0, 2.0, 0.75]), 0.5), (np.array([0.0, 0.0]), 1.0), (np.array([3.0, -1.0, 4.0, -1.0, 5.0]), 0.25),
        (np.array([1.0, 1.0, 1.0, 1.0]), 0.5), (np.array([0.0, 1.0, 2.0, 3.0, 4.0]), 0.5),
    ]
    cases = [('corpus', a, dt) for a, dt in corpus]
    for i in range(n_cases):
        exact = (i % 3 == 0)
        n = gen.log_int(rng, 2, 300 if ctx.tier == 'quick' else 5000) if not exact else gen.log_int(rng, 2, 64)
        if exact:
            kind = rng.choice(['dyadic', 'int', 'plateau', 'spike', 'step'])
            a = {'dyadic': gen.dyadic_record, 'int': gen.int_record, 'plateau': gen.plateau_record,
                 'spike': gen.spike_record, 'step': gen.step_record}[kind](rng, n)
            dt = gen.dyadic_dt(rng)
        else:
            kind, a = gen.any_record(rng, n)
            dt = gen.any_dt(rng)
        cases.append((kind, a, dt))

    for kind, a, dt in cases:
        exact = kind in gen.DYADIC_KINDS or kind == 'corpus'
        exact = exact and float(dt) in (2.0, 1.0, 0.5, 0.25, 0.125, 0.0625) and len(a) <= 64
        for trap in (True, False):
            ctx.hist(f"kind={kind}")
            ctx.hist(f"trap={trap}")
            ctx.hist("budget=" + ("E" if exact else "R"))
            ctx.count_case((a.tobytes(), dt, trap), gen.nontrivial_record(a),
                           sample={'fn': 'calc_velo_and_disp_from_accel_arr', 'n': len(a), 'dt': dt, 'trap': trap,
                                   'kind': kind, 'head': a[:6].tolist()})
            variant = rng.choice(['array', 'list', 'int'])
            arg = a
            if variant == 'list' and trap:
                arg = a.tolist()   # trap=False multiplies the argument by dt: a list is a TypeError there (not in the domain)
            if variant == 'int' and np.all(a == np.round(a)):
                arg = a.astype(int)
            snap = np.array(a, copy=True)
            res = call_impl(sd.calc_velo_and_disp_from_accel_arr, arg, dt, trap=trap)
            req = f"velodisp|{w_bool(trap)}|{w_rat(dt)}|{w_rats(a)}"

            def compare(outs, val, exact=exact, a=a, dt=dt, trap=trap):
                v, d = val
                mv, md = p_rats(outs[0]), p_rats(outs[1])
                if exact:
                    return cmp_exact(list(v), mv) or cmp_exact(list(d), md)
                m1, g1 = cmp_budget(list(v), mv, Fraction(1, 10**9))
                m2, g2 = cmp_budget(list(d), md, Fraction(1, 10**9))
                ctx.gap('velocity', g1)
                ctx.gap('displacement', g2)
                return m1 or m2
            ctx.corr('calc_velo_and_disp_from_accel_arr', req, res, compare, inputs={'a': a, 'dt': dt, 'trap': trap})
            ctx.oracle('C05-like: input unchanged', np.array_equal(snap, a), inputs={'a': snap, 'dt': dt})
            if res[0] == 'ok':
                spec_oracles(ctx, a, dt, trap, res[1], exact)
        # object-level access equals array-level access (trap=True)
        asig = ctx.aged(eqsig.AccSignal, a, dt)
        ov, od = asig.velocity, asig.displacement
        v, d = sd.calc_velo_and_disp_from_accel_arr(a, dt)
        ctx.oracle('object-level velocity/displacement == array-level', np.array_equal(ov, v) and np.array_equal(od, d),
                   inputs={'a': a, 'dt': dt})
        # peaks
        for name, series in (('pga', a), ('pgv', v), ('pgd', d)):
            got = getattr(asig, name)
            want = np.max(np.abs(series))
            ctx.oracle(f'{name} == max|series|', fr(got) == fr(want), inputs={'a': a, 'dt': dt}, detail={'got': got, 'want': want})
        req = f"calc_peak|{w_rats(a)}"
        ctx.corr('calc_peak', req, call_impl(im.calc_peak, a),
                 lambda outs, val: cmp_exact([val], p_rats(outs[0])), inputs={'a': a})
        object_history(ctx, a, dt)
        alpha = rng.choice([-3.0, -1.0, 0.5, 2.0])
        p0 = im.calc_peak(a)
        ctx.oracle('calc_peak(-x) == calc_peak(x)', fr(im.calc_peak(-a)) == fr(p0), inputs={'a': a})
        ctx.oracle('calc_peak(alpha x) == |alpha| calc_peak(x)', fr(im.calc_peak(alpha * a)) == abs(fr(alpha)) * fr(p0)
                   if exact_scale(a, alpha) else True, inputs={'a': a, 'alpha': alpha})
    ctx.flush()


def exact_scale(a, alpha):
    return bool(np.all(fr_arr(alpha * a) == np.array([fr(alpha) * fr(x) for x in a], dtype=object)))


def fr_arr(a):
    return np.array([fr(x) for x in a], dtype=object)


def spec_oracles(ctx, a, dt, trap, val, exact):
    """the property's own clauses evaluated on the impl output (exact Fraction arithmetic)"""
    v, d = val
    n = len(a)
    inputs = {'a': a, 'dt': dt, 'trap': trap}
    ctx.oracle('lengths == len(record)', len(v) == n and len(d) == n, inputs)
    if n == 0 or len(v) != n or len(d) != n:
        return
    ctx.oracle('v[0] == 0 and d[0] == 0', v[0] == 0 and d[0] == 0, inputs)
    if n > 400:
        idx = sorted(set([1, 2, n - 1] + [ctx.rng.randrange(1, n) for _ in range(40)]))
    else:
        idx = range(1, n)
    fa, fv, fd, fdt = [fr(x) for x in a], [fr(x) for x in v], [fr(x) for x in d], fr(dt)
    scale_v = max([abs(x) for x in fv] + [abs(x) for x in fa]) * max(fdt, 1)
    scale_d = max([abs(x) for x in fd] + [abs(x) for x in fv]) * max(fdt, 1)
    tol_v = Fraction(0) if exact else Fraction(1, 10**9) * scale_v
    tol_d = Fraction(0) if exact else Fraction(1, 10**9) * scale_d
    ok_v = ok_d = True
    bad = None
    for i in idx:
        if trap:
            ev = fdt * (fa[i] + fa[i - 1]) / 2
            ed = fdt * (fv[i] + fv[i - 1]) / 2
        else:
            ev = fdt * fa[i - 1]
            ed = fdt * fv[i]
        if abs((fv[i] - fv[i - 1]) - ev) > tol_v:
            ok_v = False
            bad = bad or ('v', i)
        if abs((fd[i] - fd[i - 1]) - ed) > tol_d:
            ok_d = False
            bad = bad or ('d', i)
    name = 'trapezoid' if trap else 'rectangle'
    ctx.oracle(f'{name} increments of velocity', ok_v, inputs, detail={'first_bad': bad})
    ctx.oracle(f'{name} increments of displacement', ok_d, inputs, detail={'first_bad': bad})


def object_history(ctx, a, dt, forced_ops=None):
    """object-level access after a history on the same AccSignal: velocity/displacement/peaks must always be those of the CURRENT
    record with the requested integration rule (reads before a mutation, explicit trap=False after a trap=True read, ...)."""
    import eqsig
    from eqsig import displacements as sd
    rng = ctx.rng
    asig = eqsig.AccSignal(a.copy(), dt)
    cur = a.copy()
    trap = True
    hist = []
    for _step in range(rng.randint(2, 5) if forced_ops is None else len(forced_ops)):
        op = forced_ops[_step] if forced_ops is not None else rng.choice(['read', 'peaks', 'add_constant', 'reset_values', 'gen(trap=False)', 'gen(trap=True)', 'scale',
                         'set_zero_residual_velocity', 'set_zero_residual_displacement', 'inplace-edit+reset_values', 'rebase_displacement',
                         'add_signal', 'add_signal', 'add_series'])
        if op in ('add_signal', 'add_series'):
            # (hx_r9c) combination with a second record whose holder has its own warm caches; the receiver's series / peaks may have been read before
            warm = rng.choice(['none', 'series', 'peaks', 'series+peaks'])
            if 'series' in warm:
                _ = asig.velocity, asig.displacement
            if 'peaks' in warm:
                _ = asig.pga, asig.pgv, asig.pgd
            b = rng.choice([2.0, -0.5, 1.5]) * np.roll(cur, rng.randint(1, 3))[::rng.choice([1, -1])] + rng.choice([0.0, 0.25, -1.0])
            okind = rng.choice(['AccSignal/integrated', 'AccSignal/peaks-read', 'AccSignal/rectangle-rule', 'AccSignal/fresh', 'Signal']) if op == 'add_signal' else \
                rng.choice(['array', 'list', 'values-of-integrated-AccSignal'])
            other = eqsig.Signal(b.copy(), dt) if okind == 'Signal' else eqsig.AccSignal(b.copy(), dt)
            if okind in ('AccSignal/integrated', 'values-of-integrated-AccSignal'):
                _ = other.velocity, other.displacement
            elif okind == 'AccSignal/peaks-read':
                _ = other.pga, other.pgv, other.pgd
            elif okind == 'AccSignal/rectangle-rule':
                other.generate_displacement_and_velocity_series(trap=False)
            if op == 'add_signal':
                asig.add_signal(other)
            else:
                asig.add_series({'array': b.copy(), 'list': b.tolist()}.get(okind, other.values))
            cur = cur + b
            trap = True
            op = f'{op}({okind}; receiver read before: {warm})'
            ctx.hist('object-history/' + op.split(';')[0] + ')')
            if okind.startswith('AccSignal') or okind.startswith('values-of'):
                ot = okind != 'AccSignal/rectangle-rule'
                wv, wd = sd.calc_velo_and_disp_from_accel_arr(b, dt, trap=ot)
                ctx.oracle('the signal that was added keeps its own record, series and peaks', bool(
                    np.array_equal(other.values, b) and np.array_equal(other.velocity, wv) and np.array_equal(other.displacement, wd)
                    and fr(other.pga) == fr(np.max(np.abs(b))) and (not ot or (fr(other.pgv) == fr(np.max(np.abs(wv))) and fr(other.pgd) == fr(np.max(np.abs(wd)))))),
                    {'a': a, 'dt': dt, 'history': list(hist) + [op], 'added': b})
        elif op == 'add_constant':
            c = rng.choice([0.5, -1.0, 2.0])
            asig.add_constant(c)
            cur = cur + c
            trap = True
        elif op == 'reset_values':
            cur = cur[::-1].copy() * 2.0
            asig.reset_values(cur.copy())
            trap = True
        elif op == 'scale':
            cur = cur * -0.5
            asig.reset_values(cur.copy())
            trap = True
        elif op in ('set_zero_residual_velocity', 'set_zero_residual_displacement', 'rebase_displacement'):
            if len(cur) < 4 or np.max(np.abs(cur)) == 0:
                continue
            try:
                getattr(asig, op)()
            except Exception:       # degenerate records (division by zero in the correction): not part of C08
                return
            cur = np.array(asig.values, dtype=float)     # the new record is whatever the mutator left; the integrals must follow IT
            trap = True
        elif op == 'inplace-edit+reset_values':
            v_ = asig.values
            v_ *= 0.5
            asig.reset_values(v_)
            cur = cur * 0.5
            trap = True
        elif op == 'gen(trap=False)':
            asig.generate_displacement_and_velocity_series(trap=False)
            trap = False
        elif op == 'gen(trap=True)':
            asig.generate_displacement_and_velocity_series(trap=True)
            trap = True
        hist.append(op)
        v, d = sd.calc_velo_and_disp_from_accel_arr(cur, dt, trap=trap)
        inputs = {'a': a, 'dt': dt, 'history': list(hist)}
        if op in ('read', 'gen(trap=False)', 'gen(trap=True)') or op.startswith('add_s') or rng.random() < 0.5:
            ctx.oracle('object-level velocity/displacement == array-level integral of the current record (requested rule) after any history',
                       np.array_equal(asig.velocity, v) and np.array_equal(asig.displacement, d), inputs, facts={'history': list(hist)})
        if op == 'peaks' or op.startswith('add_s') or rng.random() < 0.5:
            if trap:   # the peak memo is documented to follow the lazily generated (trapezoid) series
                ok = fr(asig.pga) == fr(np.max(np.abs(cur))) and fr(asig.pgv) == fr(np.max(np.abs(v))) and fr(asig.pgd) == fr(np.max(np.abs(d)))
                ctx.oracle('pga/pgv/pgd == max|series| of the current record after any history', ok, inputs, facts={'history': list(hist)})
            else:
                ctx.oracle('pga == max|record| after any history', fr(asig.pga) == fr(np.max(np.abs(cur))), inputs)
    ctx.hist('object-history')


# ---- extras (round-3 lessons): aliases, series handed out earlier, joint extreme scaling -------------------------------------------------

def extras(ctx):
    import eqsig
    from eqsig import displacements as sd, im
    rng = ctx.rng
    for it in range(20 if ctx.tier == 'quick' else 200):
        n = gen.log_int(rng, 2, 200)
        dt = gen.any_dt(rng)
        kind, a = gen.any_record(rng, n, dt)
        inputs = {'a': a, 'dt': dt}
        ctx.count_case(('extras', a.tobytes(), dt), gen.nontrivial_record(a))
        # (a0) `trap` passed positionally is `trap` passed by keyword (third positional parameter of the documented signature)
        for trap in (True, False):
            rk = call_impl(sd.calc_velo_and_disp_from_accel_arr, a, dt, trap=trap)
            rp = call_impl(sd.calc_velo_and_disp_from_accel_arr, a, dt, trap)
            rq = call_impl(sd.velocity_and_displacement_from_acceleration, a, dt, trap)
            ctx.oracle('C08 calc_velo_and_disp_from_accel_arr(a, dt, trap) positional == keyword trap= (== for the alias)',
                       rk[0] == rp[0] == rq[0] and (rk[0] != 'ok' or all(np.array_equal(x, y) and np.array_equal(x, z) for x, y, z in zip(rk[1], rp[1], rq[1]))),
                       {**inputs, 'trap': trap})
        # (a1) the object integrates with the time step it was given, also when 1/dt is NEAR a whole number but not equal to it
        dtn = rng.choice([0.01000005, 1 / 49.9996, 0.0200001, 0.00999995, 1 / 100.0005, 0.005 * (1 + 2.0 ** -30), 1 / 199.9993])
        on = ctx.aged(eqsig.AccSignal, a, dtn)
        wv, wd = sd.calc_velo_and_disp_from_accel_arr(a, dtn)
        ctx.hist('dt near 1/n')
        ctx.oracle('C08 object-level velocity/displacement == array-level result for the time step given to the constructor (dt with 1/dt near a whole number); '
                   'the object reports that time step', bool(on.dt == dtn and np.array_equal(on.velocity, wv) and np.array_equal(on.displacement, wd)),
                   {'a': a, 'dt': dtn}, detail={'object dt': on.dt})
        # (a2) the time step may be held by a NumPy scalar or a 0-d array (np.load(...)['dt']): never modified, same result, also at object level
        if it % 3 == 0:
            dq = rng.choice([0.01, 0.02, 0.5, 0.25, 1.0])
            for trap in (True, False):
                gen.dt_oracle(ctx, 'C08 the time step object handed to calc_velo_and_disp_from_accel_arr is unchanged, a second call gives the same series, '
                              'and they are those for the plain float', lambda d, trap=trap: sd.calc_velo_and_disp_from_accel_arr(a, d, trap=trap), rng, dq, gen._same_any,
                              {'a': a, 'trap': trap})

            def obj_level(d):
                o = eqsig.AccSignal(a, d)
                v1, d1 = np.array(o.velocity), np.array(o.displacement)
                o.reset_values(a.copy())
                return v1, d1, np.array(o.velocity), np.array(o.displacement), np.asarray(o.dt, dtype=float).reshape(-1)[:1]
            gen.dt_oracle(ctx, 'C08 object level: the time step object given to AccSignal is unchanged, the series (also regenerated after a reset) and the reported '
                          'time step are those for the plain float', obj_level, rng, dq, gen._same_any, {'a': a})
        # (a) documented aliases are the same functions
        for trap in (True, False):
            r0 = call_impl(sd.calc_velo_and_disp_from_accel_arr, a, dt, trap=trap)
            r1 = call_impl(sd.velocity_and_displacement_from_acceleration, a, dt, trap=trap)
            ctx.oracle('C08 alias velocity_and_displacement_from_acceleration == calc_velo_and_disp_from_accel_arr (==)',
                       r0[0] == r1[0] and (r0[0] != 'ok' or all(np.array_equal(x, y) for x, y in zip(r0[1], r1[1]))), {**inputs, 'trap': trap})
        r0, r1 = call_impl(im.calc_peak, a), call_impl(im.calculate_peak, a)
        ctx.oracle('C08 alias calculate_peak == calc_peak (==)', r0 == r1 or (r0[0] == r1[0] == 'ok' and fr(r0[1]) == fr(r1[1])), inputs, detail=(r0, r1))
        # (b0) analysis functions that READ the object's velocity / displacement leave them what they are
        oa = eqsig.AccSignal(a, dt)
        _ = oa.velocity
        for nm in ('calc_integral_of_abs_velocity', 'calc_cumulative_abs_displacement', 'calc_isv', 'calc_unit_kinetic_energy', 'calc_arias_intensity', 'calc_cav'):
            call_impl(getattr(im, nm), oa)
        wv, wd = sd.calc_velo_and_disp_from_accel_arr(a, dt)
        ctx.oracle('C08 object-level velocity / displacement / pgv / pgd are still those of the record after velocity-based analysis functions were called on the object',
                   bool(np.array_equal(oa.velocity, wv) and np.array_equal(oa.displacement, wd) and float(oa.pgv) == float(np.max(np.abs(wv))) and float(oa.pgd) == float(np.max(np.abs(wd)))),
                   inputs, detail={'velocity_ok': bool(np.array_equal(oa.velocity, wv)), 'displacement_ok': bool(np.array_equal(oa.displacement, wd))})
        # (b) linearity observed on ONE object: the series read before the record is replaced stay what they were
        asig = eqsig.AccSignal(a, dt)
        trap0 = rng.random() < 0.7
        if not trap0:
            asig.generate_displacement_and_velocity_series(trap=False)
        v1, d1 = asig.velocity, asig.displacement
        v1c, d1c = np.array(v1, copy=True), np.array(d1, copy=True)
        op = rng.choice(['reset-same-length', 'reset-same-length', 'switch-rule', 'add_constant', 'reset-other-length'])
        alpha = rng.choice([2.0, -4.0, 0.5])
        if op == 'reset-same-length':
            asig.reset_values(alpha * a)
        elif op == 'switch-rule':
            asig.generate_displacement_and_velocity_series(trap=not trap0)
        elif op == 'add_constant':
            asig.add_constant(1.0)
        else:
            asig.reset_values(np.concatenate([a, [0.5]]))
        v2, d2 = asig.velocity, asig.displacement
        ctx.hist('series-handed-out/' + op)
        ctx.oracle('C08 object-level access: velocity / displacement series read earlier are not overwritten when the object recomputes them '
                   '(linearity v(alpha a) == alpha v(a) is observable on one object)', bool(np.array_equal(v1, v1c) and np.array_equal(d1, d1c)),
                   {**inputs, 'first_rule_trap': trap0, 'then': op, 'alpha': alpha},
                   detail={'velocity_changed': not np.array_equal(v1, v1c), 'displacement_changed': not np.array_equal(d1, d1c),
                           'same_object': v1 is v2})
        if op == 'reset-same-length':
            want = sd.calc_velo_and_disp_from_accel_arr(alpha * a, dt, trap=True)
            ctx.oracle('C08 object-level velocity/displacement after replacing the record == array-level result for the new record',
                       bool(np.array_equal(v2, want[0]) and np.array_equal(d2, want[1])), {**inputs, 'alpha': alpha})
        # (c) joint rescaling of record and time step by powers of two is exact: v ~ a dt, d ~ a dt^2
        if np.any(a):
            for trap in (True, False):
                base = sd.calc_velo_and_disp_from_accel_arr(a, dt, trap=trap)
                for p, j in ((700, -520), (-700, 520), (600, 0), (-600, 0), (0, 300), (0, -300)):
                    ctx.hist(f'extreme/record 2^{p}, dt 2^{j}')
                    r = call_impl(sd.calc_velo_and_disp_from_accel_arr, a * 2.0 ** p, dt * 2.0 ** j, trap=trap)
                    ok = r[0] == 'ok' and gen.scaled_exactly(r[1][0], base[0], 2.0 ** (p + j)) and gen.scaled_exactly(r[1][1], base[1], 2.0 ** (p + 2 * j))
                    ctx.oracle('C08 v(2^p a, 2^j dt) == 2^(p+j) v(a, dt) and d(2^p a, 2^j dt) == 2^(p+2j) d(a, dt) exactly, also for extreme p, j', ok,
                               {**inputs, 'trap': trap, 'record_scale': f'2**{p}', 'dt_scale': f'2**{j}'})
                    if j == 0 and trap:
                        o = ctx.aged(eqsig.AccSignal, a * 2.0 ** p, dt)
                        pk = call_impl(lambda: (o.pga, o.pgv, o.pgd))
                        b = (np.max(np.abs(a)), np.max(np.abs(base[0])), np.max(np.abs(base[1])))
                        ctx.oracle('C08 pga/pgv/pgd scale exactly with 2^p, also at extreme scales',
                                   pk[0] == 'ok' and all(float(x) == float(y) * 2.0 ** p for x, y in zip(pk[1], b)), {**inputs, 'record_scale': f'2**{p}'},
                                   detail={'got': pk[1], 'base': b})


_run_main = run


def run(ctx):
    _run_main(ctx)
    extras(ctx)
    ctx.flush()


# ---- extras2 (harness extension hx_a): large instances, containers / dtypes ----------------------------------------------------------------
#
# Not demanded (see NOTES.md): trapezoid integration of 8-bit integer records (cumulative_trapezoid forms a[i] + a[i-1] in the record's dtype and
# wraps: wrong VALUES on the pinned tree, reported as a suspected defect; the rectangle rule multiplies by dt first and is right, as are 16/32/64
# bit records); list / tuple records with trap=False (TypeError on the pinned tree, as in the main module); long float32 records (single-
# precision accumulation).

def _x2_increments_ok(a, dt, trap, v, d, exact):
    """the increment identities at EVERY index, with NumPy; exact=True: equality (dyadic-safe record and step), else 1e-9 of the series scale"""
    a = np.asarray(a, dtype=float)
    if trap:
        ev, ed = dt * (a[1:] + a[:-1]) / 2, dt * (v[1:] + v[:-1]) / 2
    else:
        ev, ed = dt * a[:-1], dt * v[1:]
    dv, dd = np.diff(v) - ev, np.diff(d) - ed
    if exact:
        return bool(np.all(dv == 0)), bool(np.all(dd == 0)), dv, dd
    sv = max(float(np.max(np.abs(v))), float(np.max(np.abs(a)))) * max(dt, 1.0)
    sdd = max(float(np.max(np.abs(d))), float(np.max(np.abs(v)))) * max(dt, 1.0)
    return bool(np.all(np.abs(dv) <= 1e-9 * sv)), bool(np.all(np.abs(dd) <= 1e-9 * sdd)), dv, dd


def x2_large(ctx):
    """LARGE instances (6 000 - 60 000 samples; the main module stops at 300 in the quick tier and samples 40 indices above 400): lengths, zero
    start, the increment identities at every index (exactly on dyadic-safe records), the closed forms for constant / linearly varying
    acceleration, prefix decomposition (bit for bit), object-level == array-level, peaks == max |series|"""
    import eqsig
    from eqsig import displacements as sd, im
    rng = ctx.rng
    quick = ctx.tier == 'quick'
    sizes = [6000, 25000, 60000] if quick else [6000, 25000, 60000, 5000, 5001, 8192, 16385, 100000, 40000]
    # source hints: record lengths around every new integer constant, time steps at / around every new float constant (and its reciprocal) of the anchored files
    sizes = sizes + gen.hint_sizes(ctx, lo=65, hi=1000000, cap=8)
    hv_dt = gen.hint_values(ctx, 1e-4, 10.0, cap=12, maps=(lambda c: c, lambda c: 1 / c))
    for n in sizes:
        for kind in (['int', 'noise'] if quick else ['int', 'noise', 'plateau', 'const', 'ramp']) + ([rng.choice(['const', 'ramp', 'plateau'])] if quick else []):
            if kind == 'ramp' and n > 100000:
                continue          # (hinted lengths only) a ramp of this length leaves the range in which the double-precision trapezoid sums are exact
            if kind == 'noise':
                dt = gen.any_dt(rng)
                if hv_dt:
                    dt = rng.choice(hv_dt)
                a = gen.noise_record(rng, n, rng.choice([1.0, 1e-6, 1e6]))
            else:
                dt = gen.dyadic_dt(rng)
                a = {'int': lambda: gen.int_record(rng, n), 'plateau': lambda: gen.plateau_record(rng, n), 'const': lambda: np.full(n, float(rng.choice([-3, 1, 2]))),
                     'ramp': lambda: float(rng.choice([-2, 1, 3])) * np.arange(n, dtype=float) + float(rng.choice([0, -5, 7]))}[kind]()
            exact = kind != 'noise'
            desc = {'a': f'{kind} record, n={n} (seed-derived)' + ('' if kind in ('int', 'noise', 'plateau') else f', a[0]={a[0]}, a[1]={a[1]}'), 'dt': dt, 'head': a[:6]}
            ctx.hist(f'large/{kind}')
            ctx.count_case(('x2-large', kind, n, dt, a[:32].tobytes()), True, sample={'fn': 'calc_velo_and_disp_from_accel_arr (large instance)', 'n': n, 'dt': dt, 'kind': kind} if n == sizes[0] else None)
            snap = a.copy()
            for trap in (True, False):
                inputs = {**desc, 'trap': trap}
                res = call_impl(sd.calc_velo_and_disp_from_accel_arr, a, dt, trap=trap)
                if res[0] != 'ok':
                    ctx.oracle('calc_velo_and_disp_from_accel_arr returns on its domain', False, inputs, detail=res)
                    continue
                v, d = np.asarray(res[1][0]), np.asarray(res[1][1])
                ctx.oracle('lengths == len(record) [large instance]', v.shape == (n,) and d.shape == (n,), inputs)
                if not (v.shape == (n,) and d.shape == (n,)):
                    continue
                ctx.oracle('v[0] == 0 and d[0] == 0 [large instance]', v[0] == 0 and d[0] == 0, inputs)
                okv, okd, dv, dd = _x2_increments_ok(a, dt, trap, v, d, exact)
                name = 'trapezoid' if trap else 'rectangle'
                ctx.oracle(f'{name} increments of velocity at every index [large instance]', okv, inputs, detail={'first_bad': int(np.argmax(dv != 0)) + 1 if exact else int(np.argmax(np.abs(dv))) + 1})
                ctx.oracle(f'{name} increments of displacement at every index [large instance]', okd, inputs, detail={'first_bad': int(np.argmax(dd != 0)) + 1 if exact else int(np.argmax(np.abs(dd))) + 1})
                t = dt * np.arange(n)
                if kind == 'const' and trap:
                    ctx.oracle('trapezoid integration is exact for constant acceleration: v = c t, d = c t^2 / 2 (==) [large instance]',
                               bool(np.array_equal(v, a[0] * t) and np.array_equal(d, a[0] * t * t / 2)), inputs)
                if kind == 'ramp' and trap:
                    ctx.oracle('trapezoid integration is exact for linearly varying acceleration: v = a0 t + s t^2 / 2 (==) [large instance]',
                               bool(np.array_equal(v, a[0] * t + (a[1] - a[0]) / dt * t * t / 2)), inputs)
                m = rng.choice([n // 2, 4097, n - 1, 5000])
                pre = call_impl(sd.calc_velo_and_disp_from_accel_arr, a[:m], dt, trap=trap)
                ctx.oracle('the integrals of the first m samples == the first m entries of the integrals of the whole record (==) [large instance]',
                           pre[0] == 'ok' and np.array_equal(pre[1][0], v[:m]) and np.array_equal(pre[1][1], d[:m]), {**inputs, 'm': m})
                if trap:
                    asig = eqsig.AccSignal(a, dt) if rng.random() < 0.5 else eqsig.AccSignal(a[:7], dt)
                    if asig.npts != n:
                        _ = asig.velocity, asig.pgv
                        asig.reset_values(a)
                    ctx.oracle('object-level velocity/displacement == array-level [large instance]', bool(np.array_equal(asig.velocity, v) and np.array_equal(asig.displacement, d)), inputs)
                    pk = call_impl(lambda: (asig.pga, asig.pgv, asig.pgd))
                    want = (np.max(np.abs(a)), np.max(np.abs(v)), np.max(np.abs(d)))
                    ctx.oracle('pga/pgv/pgd == max|series| [large instance]', pk[0] == 'ok' and all(float(x) == float(y) for x, y in zip(pk[1], want)), inputs, detail={'got': pk[1], 'want': want})
                    for nm, series in (('record', a), ('velocity', v)):
                        r = call_impl(im.calc_peak, series)
                        ctx.oracle('calc_peak == max|series| [large instance]', r[0] == 'ok' and float(r[1]) == float(np.max(np.abs(series))), {**inputs, 'series': nm})
            ctx.oracle('C05-like: input unchanged', bool(np.array_equal(snap, a)), desc)


def x2_containers(ctx):
    """the integrals and the peak of a record given as list / tuple / int32 / int64 / float32 / strided ndarray or as a narrow integer dtype with
    values near the dtype's limits are those of the same numbers in float64 (array level and object level)"""
    import eqsig
    from eqsig import displacements as sd, im
    rng = ctx.rng
    for it in range(16 if ctx.tier == 'quick' else 160):
        n = gen.log_int(rng, 2, 90)
        dt = gen.dyadic_dt(rng)
        whole = it % 2 == 0
        a = gen.int_record(rng, n) if whole else gen.dyadic_record(rng, n)
        ctx.count_case(('x2-cont', a.tobytes(), dt), gen.nontrivial_record(a))
        variants = [(lab, c, a) for lab, c in gen.container_variants(a)]
        if whole:
            variants += gen.narrow_int_variants(a)
        for lab, c, fl in variants:
            ctx.hist('record container=' + lab)
            is_seq = not isinstance(c, np.ndarray)
            eight_bit = lab in ('int8x40', 'uint8x40')
            for trap in (True, False):
                if (is_seq and not trap) or (eight_bit and trap):
                    continue
                want = sd.calc_velo_and_disp_from_accel_arr(fl, dt, trap=trap)
                for fname in ('calc_velo_and_disp_from_accel_arr', 'velocity_and_displacement_from_acceleration'):
                    r = call_impl(getattr(sd, fname), c, dt, trap=trap)
                    ok = r[0] == 'ok' and all(np.asarray(x).shape == np.asarray(y).shape and np.array_equal(np.asarray(x, dtype=float), y) for x, y in zip(r[1], want))
                    ctx.oracle(f'C08 {fname}: a record given as list / tuple / integer (16-64 bit; 8 bit with the rectangle rule) / float32 / strided ndarray gives the integrals of the '
                               'same numbers in float64 (==)', ok, {'a': fl, 'dt': dt, 'trap': trap, 'container': lab}, detail=None if r[0] == 'ok' else r)
            r = call_impl(im.calc_peak, c)
            ctx.oracle('C08 calc_peak of a list / tuple / integer / float32 / strided record == max|x| of the same numbers', r[0] == 'ok' and float(r[1]) == float(np.max(np.abs(fl))),
                       {'a': fl, 'container': lab}, detail=r)
            if not eight_bit:
                o = call_impl(lambda: eqsig.AccSignal(c, dt))
                w = sd.calc_velo_and_disp_from_accel_arr(fl, dt)
                pk = call_impl(lambda: (o[1].velocity, o[1].displacement, o[1].pga, o[1].pgv, o[1].pgd)) if o[0] == 'ok' else o
                ok = pk[0] == 'ok' and np.array_equal(np.asarray(pk[1][0], dtype=float), w[0]) and np.array_equal(np.asarray(pk[1][1], dtype=float), w[1]) and \
                    (float(pk[1][2]), float(pk[1][3]), float(pk[1][4])) == (float(np.max(np.abs(fl))), float(np.max(np.abs(w[0]))), float(np.max(np.abs(w[1]))))
                ctx.oracle('C08 object-level velocity / displacement / pga / pgv / pgd of an AccSignal built from any container are those of the same numbers in float64 (==)', ok,
                           {'a': fl, 'dt': dt, 'container': lab}, detail=None if pk[0] == 'ok' else pk)


def extras2(ctx):
    x2_large(ctx)
    x2_containers(ctx)


_run_main2 = run


def run(ctx):
    _run_main2(ctx)
    extras2(ctx)
    ctx.flush()


# ---- open finding F08-1: arithmetic in the record's own integer dtype (see _narrow_findings.py) -------------------------------------------

import _narrow_findings as _NF  # noqa: E402


def _narrow_table():
    import eqsig
    from eqsig import displacements as sd, im
    return {'calc_velo_and_disp_from_accel_arr': lambda x, dt: sd.calc_velo_and_disp_from_accel_arr(x, dt),
            'calc_velo_and_disp_from_accel_arr/rect': lambda x, dt: sd.calc_velo_and_disp_from_accel_arr(x, dt, trap=False),
            'AccSignal.velocity/displacement': lambda x, dt: (eqsig.AccSignal(x, dt).velocity, eqsig.AccSignal(x, dt).displacement),
            'pga/pgv/pgd': lambda x, dt: (eqsig.AccSignal(x, dt).pga, eqsig.AccSignal(x, dt).pgd), 'calc_peak': lambda x, dt: im.calc_peak(x)}


try:
    KNOWN_MATCHERS
except NameError:
    KNOWN_MATCHERS = {}
KNOWN_MATCHERS['F08-1'] = _NF.matcher('F08-1')
_known_witness_prev = globals().get('known_witness')


def known_witness(fid):
    if fid == 'F08-1':
        from eqsig import displacements as sd
        a = np.array([100, 120, -100, -120, 50], dtype=np.int8)
        return not np.allclose(sd.calc_velo_and_disp_from_accel_arr(a, 0.5)[0], sd.calc_velo_and_disp_from_accel_arr(a.astype(float), 0.5)[0])
    return _known_witness_prev(fid) if _known_witness_prev else True


_run_main_nf = run


def run(ctx):
    _run_main_nf(ctx)
    _NF.narrow_oracles(ctx, 'C08', _narrow_table())
    ctx.flush()
    # baseline-correction mutators (rebase_displacement, set_zero_residual_*, correct_me, remove_rolling_average): exact model
    # Model/Single2.lean (regenerated as Gen/Single2, bridges Props/C08GenResidual, C17GenRolling) vs the implementation
    from _single2_corr import corr_single2
    corr_single2(ctx)
    ctx.flush()


# evidence: how the model is tied to the source on every run (as built, supersedes the value above)
TIE = 'translator (both integration rules and the alias -> Gen/Displ, calc_peak -> Gen/ImSimple; Props/C08Gen, C09Sem) + correspondence (exact on dyadic-safe inputs) + object histories'



# ---- round 8 (regression of the archive): baseline corrections that are SMALL compared with the record (as for real records: the second
# difference of a smooth pulse returns to rest, so the residual displacement is a rounding-level / tiny quantity), after either integration rule
# (seed C08-r8-1: a "small correction" shortcut that shifts the cached series instead of re-integrating)
_run_main_small = run


def run(ctx):
    _run_main_small(ctx)
    rng = ctx.rng
    for it in range(6 if ctx.tier == 'quick' else 40):
        n = rng.choice([64, 120, 257])
        dt = rng.choice([0.01, 0.02, 2.0 ** -6])
        t = np.arange(n + 2) / (n + 1.0)
        bump = np.sin(math.pi * t) ** 4 * rng.choice([1.0, 3.0]) + 0.05 * np.sin(9 * math.pi * t) ** 2
        a = np.diff(bump, 2) / dt ** 2 * 1e-3 + rng.choice([0.0, 1e-4, -3e-5])
        for ops in (['gen(trap=False)', 'rebase_displacement', 'read', 'peaks'], ['read', 'rebase_displacement', 'peaks'],
                    ['gen(trap=False)', 'set_zero_residual_displacement', 'read'], ['gen(trap=False)', 'set_zero_residual_velocity', 'peaks', 'read']):
            ctx.hist('small baseline correction/' + ops[1])
            object_history(ctx, a, dt, forced_ops=ops)
    ctx.flush()
