"""Operations on eqsig.Signal / eqsig.AccSignal objects shared by the C04 and C05 checks.

An operation is a pair (name, args): `name` is the row name of the effect table (`Gen/CacheTable.lean`, e.g. 'reset_values',
'response_times=', 'gen_response_spectrum/given'), `args` a small JSON-able dict with the concrete arguments, so that a
history is replayable.  `apply_op(sig, name, args)` performs the call and returns the ndarray the caller passed (the array
the caller still holds afterwards) or None.
"""
import copy
import os
import warnings

import numpy as np

warnings.simplefilter('ignore')

# every readable property of AccSignal, in the order used for READALL
QUANTS = ['values', 'dt', 'npts', 'time', 'smooth_fa_freqs', 'smooth_fa_frequencies', 'smooth_freq_range',
          'smooth_freq_points', 'response_times', 'fa_spectrum', 'fa_spectrum_abs', 'fa_freqs', 'fa_frequencies',
          'smooth_fa_spectrum', 's_a', 's_v', 's_d', 'velocity', 'displacement', 'pga', 'pgv', 'pgd']
# those a plain Signal has
SIGNAL_QUANTS = ['values', 'dt', 'npts', 'time', 'smooth_fa_freqs', 'smooth_fa_frequencies', 'smooth_freq_range',
                 'smooth_freq_points', 'fa_spectrum', 'fa_spectrum_abs', 'fa_freqs', 'fa_frequencies', 'smooth_fa_spectrum']
# quantities generated from the record, dt and npts only (C05.a: a caller write must not change them)
VALUES_DERIVED = ['values', 'npts', 'time', 'fa_spectrum', 'fa_spectrum_abs', 'fa_freqs', 'fa_frequencies',
                  'velocity', 'displacement', 'pga', 'pgv', 'pgd']
# stale-but-bit-equal is possible for these without any defect of the model: they do not depend on the record's content
CONTENT_INDEPENDENT = {'fa_freqs', 'fa_frequencies'}


def rec(rng, n, kind=None):
    kind = kind or rng.choice(['walk', 'walk', 'noise', 'dyadic', 'sine'])
    if kind == 'walk':
        x, out = 0.0, []
        for _ in range(n):
            x += rng.gauss(0, 1) * 0.1
            out.append(x + rng.gauss(0, 1) * 0.05)
        return np.array(out)
    if kind == 'noise':
        return np.array([rng.gauss(0, 1) for _ in range(n)])
    if kind == 'dyadic':
        a = np.array([rng.randint(-64, 64) / 8 for _ in range(n)], dtype=float)
        if not a.any():
            a[0] = 1.0
        return a
    f = rng.uniform(0.5, 10)
    ph = rng.uniform(0, 6.28)
    return np.array([np.sin(6.283185307179586 * f * 0.01 * i + ph) + 0.01 * rng.gauss(0, 1) for i in range(n)])


def periods(rng):
    return sorted(round(rng.uniform(0.15, 2.0), 4) for _ in range(rng.randint(2, 4)))


def freqs(rng, n=None):
    return sorted(round(rng.uniform(0.3, 20.0), 4) for _ in range(n or rng.randint(3, 6)))


class _PerObject:
    """memory attached to an object for as long as it lives.  (A plain dict keyed on id() outlives the object: the address is reused by a later
    object -- or not, depending on the allocator --, which made the random stream, hence the whole run, differ between two runs with one seed.)"""

    def __init__(self):
        import weakref
        self._d = weakref.WeakKeyDictionary()

    def get(self, obj):
        try:
            return self._d.get(obj)
        except TypeError:
            return None

    def put(self, obj, value):
        try:
            self._d[obj] = value
        except TypeError:
            pass


_LAST_RANGE = _PerObject()     # object -> (limits, n_points) of the last set_smooth_fa_frequecies_by_range performed on it


def _a_range(rng, s):
    """half of the time repeat EXACTLY the range and point count used before on this object (or the constructor default range with
    the current number of points): a 'nothing changed' shortcut must not fire when the frequencies were replaced in between"""
    last = _LAST_RANGE.get(s)
    r = rng.random()
    if last is not None and r < 0.5:
        args = {'limits': list(last[0]), 'n_points': last[1]}
    elif r < 0.6:
        args = {'limits': [0.1, 30], 'n_points': len(s.smooth_fa_freqs)}
    else:
        args = {'limits': [round(rng.uniform(0.1, 0.5), 3), round(rng.uniform(5, 20), 3)], 'n_points': rng.randint(4, 8)}
    _LAST_RANGE.put(s, (tuple(args['limits']), args['n_points']))
    return args


def _a_freqs_same_count(rng, s):
    cur = np.asarray(s.smooth_fa_freqs, dtype=float)
    if len(cur) >= 3 and rng.random() < 0.35:
        # same number of frequencies AND the same first / last frequency as now, different interior (a memo keyed on ends and count must not fire)
        inner = sorted(round(rng.uniform(float(cur[0]), float(cur[-1])), 5) for _ in range(len(cur) - 2))
        return {'freqs': [float(cur[0])] + inner + [float(cur[-1])]}
    return {'freqs': freqs(rng, len(s.smooth_fa_freqs) if rng.random() < 0.6 else None)}


# ---- argument makers: (rng, sig) -> args dict ---------------------------------------------------------------------

def _a_none(rng, s):
    return {}


def _a_reset(rng, s, newlen=None):
    n = newlen or len(s.values)
    return {'values': rec(rng, n).tolist()}


def _a_series(rng, s):
    return {'series': [rng.gauss(0, 1) * 0.1 for _ in range(len(s.values))]}


ARGS = {
    'values=': lambda rng, s: {'values': rec(rng, 7).tolist()},
    'reset_values': lambda rng, s: _a_reset(rng, s, rng.choice([None, None, 48, 80, 96, 130])),
    'add_constant': lambda rng, s: {'constant': round(rng.uniform(0.1, 1.0), 3)},
    'add_series': _a_series,
    'add_signal': _a_series,
    'butter_pass': lambda rng, s: {'cut_off': [round(rng.uniform(0.3, 1.0), 3), round(rng.uniform(8, 20), 3)]},
    'remove_average': _a_none,
    'remove_poly': lambda rng, s: {'poly_fit': rng.randint(0, 2)},
    'running_average': lambda rng, s: {'width': rng.choice([3, 5])},
    'remove_rolling_average/velocity': _a_none,
    'remove_rolling_average/other': _a_none,
    'rebase_displacement': _a_none,
    'set_zero_residual_velocity': _a_none,
    'set_zero_residual_displacement': _a_none,
    # half of the calls use a time window (same table row, same effects): exercises the in-place edits on slices of self.time
    'set_zero_residual_displacement_and_velocity': lambda rng, s: ({} if rng.random() < 0.5 else
                                                                   {'timezone': [round(s.dt * rng.randint(1, max(1, len(s.values) // 4)), 6),
                                                                                 rng.choice([None, round(s.dt * (len(s.values) // 2), 6)])]}),
    'correct_me': _a_none,
    'smooth_fa_freqs=': _a_freqs_same_count,
    'smooth_fa_frequencies=': _a_freqs_same_count,
    'set_smooth_fa_frequecies_by_range': _a_range,
    'smooth_freq_range=': lambda rng, s: {'limits': _a_range(rng, s)['limits']},
    'smooth_freq_points=': lambda rng, s: {'points': len(s.smooth_fa_freqs) + rng.randint(0, 3)},
    'response_times=': lambda rng, s: {'periods': periods(rng)},
    'gen_response_spectrum/given': lambda rng, s: {'periods': periods(rng)},
    'gen_response_spectrum/omitted': _a_none,
    'generate_response_spectrum/given': lambda rng, s: {'periods': periods(rng)},
    'generate_response_spectrum/omitted': _a_none,
    'response_series/given': lambda rng, s: {'periods': periods(rng)},
    'response_series/omitted': _a_none,
    'gen_smooth_fa_spectrum/given': _a_freqs_same_count,
    'gen_smooth_fa_spectrum/omitted': _a_none,
    'generate_smooth_fa_spectrum': _a_none,
    'gen_fa_spectrum': _a_none,
    'generate_fa_spectrum': _a_none,
    'generate_displacement_and_velocity_series': _a_none,
    'clear_cache': _a_none,
    'reset_all_motion_stats': _a_none,
    'get_section_average': _a_none,
    'generate_peak_values': _a_none,
    'generate_cumulative_stats': _a_none,
    # generate_duration_stats / generate_all_motion_stats need np.trapz (removed from NumPy): not driven
}

# rows that replace the record: the model takes the new length as '#<len>'
VALUE_MUTATORS = ['reset_values', 'add_constant', 'add_series', 'add_signal', 'butter_pass', 'remove_average', 'remove_poly',
                  'running_average', 'remove_rolling_average/velocity', 'remove_rolling_average/other', 'rebase_displacement',
                  'set_zero_residual_velocity', 'set_zero_residual_displacement',
                  'set_zero_residual_displacement_and_velocity', 'correct_me']
# the DESIGN's alphabet of mutators and settings (used for the length-3 enumeration)
CORE_ALPHABET = VALUE_MUTATORS + ['smooth_fa_freqs=', 'smooth_fa_frequencies=', 'set_smooth_fa_frequecies_by_range',
                                  'smooth_freq_range=', 'smooth_freq_points=', 'response_times=',
                                  'gen_response_spectrum/given', 'response_series/given']
# methods a plain Signal has as well
SIGNAL_METHODS = ['values=', 'reset_values', 'add_constant', 'add_series', 'add_signal', 'butter_pass', 'remove_average',
                  'remove_poly', 'running_average', 'smooth_fa_freqs=', 'smooth_fa_frequencies=',
                  'set_smooth_fa_frequecies_by_range', 'smooth_freq_range=', 'smooth_freq_points=',
                  'gen_smooth_fa_spectrum/given', 'gen_smooth_fa_spectrum/omitted', 'generate_smooth_fa_spectrum',
                  'gen_fa_spectrum', 'generate_fa_spectrum', 'clear_cache', 'get_section_average']


def apply_op(s, name, args):
    """perform the call; returns the ndarray argument the caller keeps holding (or None)"""
    import eqsig
    a = None
    if name == 'values=':
        a = np.array(args['values']); s.values = a
    elif name == 'reset_values':
        a = passed_array(s, args, 'values'); s.reset_values(a)
    elif name == 'add_constant':
        s.add_constant(args['constant'])
    elif name == 'add_series':
        a = passed_array(s, args, 'series'); s.add_series(a)
    elif name == 'add_signal':
        a = passed_array(s, args, 'series'); s.add_signal(eqsig.Signal(a, s.dt))
    elif name == 'butter_pass':
        s.butter_pass(tuple(args['cut_off']))
    elif name == 'remove_average':
        s.remove_average()
    elif name == 'remove_poly':
        s.remove_poly(args['poly_fit'])
    elif name == 'running_average':
        s.running_average(args['width'])
    elif name == 'remove_rolling_average/velocity':
        s.remove_rolling_average()
    elif name == 'remove_rolling_average/other':
        s.remove_rolling_average(mtype='acc')
    elif name == 'rebase_displacement':
        s.rebase_displacement()
    elif name == 'set_zero_residual_velocity':
        s.set_zero_residual_velocity()
    elif name == 'set_zero_residual_displacement':
        s.set_zero_residual_displacement()
    elif name == 'set_zero_residual_displacement_and_velocity':
        tz = args.get('timezone')
        if tz is None:
            s.set_zero_residual_displacement_and_velocity()
        else:
            s.set_zero_residual_displacement_and_velocity(timezone=(tz[0], tz[1]))
    elif name == 'correct_me':
        s.correct_me()
    elif name == 'smooth_fa_freqs=':
        a = np.array(args['freqs']); s.smooth_fa_freqs = a
    elif name == 'smooth_fa_frequencies=':
        s.smooth_fa_frequencies = list(args['freqs'])
    elif name == 'set_smooth_fa_frequecies_by_range':
        s.set_smooth_fa_frequecies_by_range(tuple(args['limits']), args['n_points'])
    elif name == 'smooth_freq_range=':
        s.smooth_freq_range = tuple(args['limits'])
    elif name == 'smooth_freq_points=':
        s.smooth_freq_points = args['points']
    elif name == 'response_times=':
        a = np.array(args['periods']); s.response_times = a
    elif name == 'gen_response_spectrum/given':
        a = np.array(args['periods']); s.gen_response_spectrum(response_times=a)
    elif name == 'gen_response_spectrum/omitted':
        s.gen_response_spectrum()
    elif name == 'generate_response_spectrum/given':
        a = np.array(args['periods']); s.generate_response_spectrum(response_times=a)
    elif name == 'generate_response_spectrum/omitted':
        s.generate_response_spectrum()
    elif name == 'response_series/given':
        a = np.array(args['periods']); s.response_series(response_times=a)
    elif name == 'response_series/omitted':
        s.response_series()
    elif name == 'gen_smooth_fa_spectrum/given':
        a = np.array(args['freqs']); s.gen_smooth_fa_spectrum(smooth_fa_freqs=a)
    elif name == 'gen_smooth_fa_spectrum/omitted':
        s.gen_smooth_fa_spectrum()
    elif name == 'generate_smooth_fa_spectrum':
        s.generate_smooth_fa_spectrum()
    elif name == 'gen_fa_spectrum':
        s.gen_fa_spectrum()
    elif name == 'generate_fa_spectrum':
        s.generate_fa_spectrum()
    elif name == 'generate_displacement_and_velocity_series':
        s.generate_displacement_and_velocity_series()
    elif name == 'clear_cache':
        s.clear_cache()
    elif name == 'reset_all_motion_stats':
        s.reset_all_motion_stats()
    elif name == 'get_section_average':
        s.get_section_average()
    elif name == 'generate_peak_values':
        s.generate_peak_values()
    elif name == 'generate_cumulative_stats':
        s.generate_cumulative_stats()
    else:
        raise KeyError(name)
    return a


def passed_list(name, args):
    """the content of the array argument of the call as the caller created it (None: the call passes no array)"""
    for k in ('values', 'series', 'freqs', 'periods'):
        if k in args and name not in ('smooth_fa_frequencies=',):
            return args[k]
    return None


def make_sig(cls, values, dt, sff, rt):
    import eqsig
    if cls == 'Signal':
        return eqsig.Signal(values, dt, smooth_fa_freqs=sff)
    return eqsig.AccSignal(values, dt, smooth_fa_freqs=sff, response_times=rt)


def fresh_of(s, cls):
    """a newly constructed object with the same values / dt / settings"""
    import eqsig
    if cls == 'Signal':
        return eqsig.Signal(np.array(s.values), s.dt, smooth_fa_freqs=np.array(s.smooth_fa_freqs, dtype=float))
    return eqsig.AccSignal(np.array(s.values), s.dt, smooth_fa_freqs=np.array(s.smooth_fa_freqs, dtype=float),
                           response_times=np.array(s.response_times))


def same(a, b):
    """same shape and bit-equal content (NaN == NaN)"""
    try:
        a = np.asarray(a); b = np.asarray(b)
        if a.shape != b.shape:
            return False
        if a.dtype.kind in 'fc' or b.dtype.kind in 'fc':
            return bool(np.array_equal(a, b, equal_nan=True))
        return bool(np.array_equal(a, b))
    except Exception:
        return False


def brief(v):
    """short description of a value for failure details"""
    try:
        a = np.asarray(v)
        if a.ndim == 0:
            return repr(a.item())
        flat = a.ravel()[:4]
        return {'shape': list(a.shape), 'head': [complex(x).real if np.iscomplexobj(flat) else float(x) for x in flat]}
    except Exception:
        return repr(v)[:80]


def observe(s, cls, quants):
    """every quantity read on its own deep copy -> {q: value}"""
    out = {}
    for q in quants:
        c = copy.deepcopy(s)
        out[q] = getattr(c, q)
    return out


def observe_fresh(s, cls, quants):
    f = fresh_of(copy.deepcopy(s), cls)
    return {q: getattr(f, q) for q in quants}


def model_name(name, s):
    """the op's name for the Lean model: value-replacing calls carry the length of the new record"""
    return name + '#%d' % len(s.values) if name in VALUE_MUTATORS else name


def expected_settings(name, args, sff, rt):
    """the smoothing frequencies / response periods a settings operation must leave, computed from its ARGUMENTS and the previous
    expected settings only (never read back from the object): (new_sff, new_rt), None = unchanged"""
    if name in ('smooth_fa_freqs=', 'smooth_fa_frequencies=', 'gen_smooth_fa_spectrum/given'):
        return np.array(args['freqs'], dtype=float), None
    if name == 'set_smooth_fa_frequecies_by_range':
        lf = np.log10(np.array(args['limits'], dtype=float))
        return np.logspace(lf[0], lf[1], args['n_points'], base=10), None
    if name == 'smooth_freq_range=':
        lf = np.log10(np.array(args['limits'], dtype=float))
        return np.logspace(lf[0], lf[1], len(sff), base=10), None
    if name == 'smooth_freq_points=':
        lf = np.log10(np.array([sff[0], sff[-1]], dtype=float))
        return np.logspace(lf[0], lf[1], int(args['points']), base=10), None
    if name in ('response_times=', 'gen_response_spectrum/given', 'generate_response_spectrum/given', 'response_series/given'):
        return None, np.array(args['periods'], dtype=float)
    return None, None


# ---- round 7 (hx_r7a) --------------------------------------------------------------------------------------------------------------------
# (1) arrays the caller OBTAINED FROM THE OBJECT and hands back (the trim idiom sig.reset_values(sig.values[i0:i1]), sig.add_series(sig.values)):
#     args {'own_view': 'self' | [i0, i1, step]} instead of a list of numbers; from the call on the array is one the caller passed in.
# (2) argument makers WITH MEMORY for every array-valued setting (response periods, smoothing frequencies, by-range limits): relatives of
#     the value the object holds NOW -- same count and same ends with another interior (linear <-> geometric spacing over the same range, one
#     interior entry moved, the interior permuted), every entry 3e-7 relative away, an exact repeat -- next to unrelated new values: a "nothing
#     changed" shortcut keyed on length / ends / closeness / sorted content of a setting must not keep what was derived from the old one.
#     These are ordinary operations of the existing kinds (same rows of the effect table; the C04 state machine sees the same names).

def own_view(s, spec):
    """the array a caller gets from the object: sig.values itself ('self') or the view sig.values[i0:i1:step]"""
    v = s.values
    if spec == 'self':
        return v
    i0, i1, st = spec
    return v[i0:i1:st]


def passed_array(s, args, key):
    """the ndarray a value-taking call passes: made from the list args[key]; or, args {'own_view': spec}, obtained from the object itself;
    or, args {'own_view': spec, 'donor_values': [...]}, obtained the same way from ANOTHER signal object holding donor_values (a view that
    does not own its data, handed to this object)"""
    if 'own_view' in args:
        if 'donor_values' in args:
            import eqsig
            return own_view(eqsig.Signal(np.array(args['donor_values'], dtype=float), s.dt), args['own_view'])
        return own_view(s, args['own_view'])
    return np.array(args[key])


def own_view_content(s, args):
    """copy of the content of the array an {'own_view': ...} call is about to pass (None for every other call); to be taken BEFORE the call"""
    if isinstance(args, dict) and 'own_view' in args:
        return np.array(passed_array(s, args, None), copy=True)
    return None


def _a_own_view(rng, s, full_length):
    n = len(s.values)
    specs = ['self', [0, None, 1], [None, None, -1]]
    if not full_length and n >= 24:
        i0 = rng.randint(0, n // 3)
        i1 = rng.randint(n - n // 3, n)
        specs += [[i0, i1, 1], [i0, i1, 1], [i0, None, 1], [0, i1, 1], [0, None, 2]]
    return {'own_view': rng.choice(specs)}


def _a_reset_any(rng, s):
    if isinstance(getattr(s, 'values', None), np.ndarray) and len(s.values) >= 8 and rng.random() < 0.15:
        return _a_own_view(rng, s, False)
    return _a_reset(rng, s, rng.choice([None, None, 48, 80, 96, 130]))


def _a_series_any(rng, s):
    if isinstance(getattr(s, 'values', None), np.ndarray) and len(s.values) >= 8 and rng.random() < 0.15:
        return _a_own_view(rng, s, True)
    return _a_series(rng, s)


REL_KINDS = ('same ends, other spacing', 'one interior entry moved', 'interior permuted', 'every entry 3e-7 away', 'repeat',
             'strict subset (first entry dropped)', 'strict subset (every second entry)', 'reversed order', 'subset in reversed order')


def related_array(rng, cur, kind=None):
    """a setting array (list of floats) related to the current one; kind=None: any applicable kind; None when `kind` does not apply to `cur`
    (fewer than 3 entries, equal ends, constant interior)"""
    cur = np.asarray(cur, dtype=float).ravel()
    n = len(cur)
    if n == 0 or not np.all(np.isfinite(cur)):
        return None
    kinds = ['repeat', 'every entry 3e-7 away']
    if n >= 3 and cur[0] != cur[-1]:
        kinds += ['same ends, other spacing', 'one interior entry moved']
    if n >= 4 and len(set(cur[1:-1].tolist())) > 1:
        kinds.append('interior permuted')
    if n >= 3:
        # round 8: settings reusing cached ordinates for entries that were present before (seeds C04-r8-1/2)
        kinds += ['strict subset (first entry dropped)', 'strict subset (every second entry)', 'reversed order', 'subset in reversed order']
    if kind is None:
        kind = rng.choice(kinds[1:] + kinds[2:])          # the relatives that differ inside get double weight, a plain repeat a small one
        if rng.random() < 0.12:
            kind = 'repeat'
    if kind not in kinds:
        return None
    out = cur.copy()
    if kind == 'every entry 3e-7 away':
        sg = rng.choice([1.0, -1.0])
        out = np.array([x * (1 + 3e-7 * (sg if rng.random() < 0.8 else -sg)) for x in cur])
    elif kind == 'same ends, other spacing':
        lo, hi = cur[0], cur[-1]
        t = np.arange(n) / (n - 1.0)
        cands = [lo + (hi - lo) * t, lo + (hi - lo) * t ** 2]
        if lo * hi > 0:
            cands.insert(0, lo * (hi / lo) ** t)
        cands = [c for c in cands if np.max(np.abs(c[1:-1] - cur[1:-1])) > 1e-3 * max(abs(lo), abs(hi))]
        out = cands[0] if rng.random() < 0.6 else rng.choice(cands)     # mostly linear <-> geometric
        out[0], out[-1] = lo, hi
    elif kind == 'one interior entry moved':
        j = rng.randrange(1, n - 1)
        nb = cur[j + 1] if rng.random() < 0.5 else cur[j - 1]
        out[j] = cur[j] + 0.37 * (nb - cur[j]) if nb != cur[j] else cur[j] * 1.01 + 1e-3
    elif kind == 'strict subset (first entry dropped)':
        k0 = 1 if cur[0] != 0 else min(2, n - 1)             # a leading 0 stays in front
        out = np.concatenate([cur[:1], cur[k0 + 1:]]) if cur[0] == 0 and n >= 4 else cur[1:]
    elif kind == 'strict subset (every second entry)':
        out = cur[::2] if rng.random() < 0.5 else cur[1::2]
        if len(out) < 1:
            return None
    elif kind == 'reversed order':
        if cur[0] == 0:
            return None
        out = cur[::-1].copy()
    elif kind == 'subset in reversed order':
        if cur[0] == 0:
            return None
        out = cur[::-1][::2].copy()
    elif kind == 'interior permuted':
        inner = cur[1:-1].tolist()
        for _ in range(20):
            rng.shuffle(inner)
            if inner != cur[1:-1].tolist():
                break
        else:
            inner = inner[1:] + inner[:1]
        out[1:-1] = inner
    return [float(x) for x in out]


def periods_any(rng):
    """new response periods: a few random ones (as before) or a regular grid of 3..8 periods, linearly or geometrically spaced"""
    if rng.random() < 0.65:
        return periods(rng)
    lo, hi, n = round(rng.uniform(0.15, 0.5), 3), round(rng.uniform(1.0, 3.0), 3), rng.randint(3, 8)
    g = np.linspace(lo, hi, n) if rng.random() < 0.5 else np.geomspace(lo, hi, n)
    return [float(x) for x in g]


def _a_periods_rel(rng, s):
    cur = getattr(s, 'response_times', None)
    if cur is not None and rng.random() < 0.45:
        rel = related_array(rng, cur)
        if rel is not None:
            return {'periods': rel}
    return {'periods': periods_any(rng)}


def _a_freqs_rel(rng, s):
    if rng.random() < 0.4:
        rel = related_array(rng, s.smooth_fa_freqs)
        if rel is not None:
            return {'freqs': rel}
    return _a_freqs_same_count(rng, s)


def _a_range_rel(rng, s):
    """by-range limits with memory: the limits used before 3e-7 away (same count), the same limits with another count, the ENDS of the
    frequencies the object holds now with their count (same count and ends, log spacing inside: differs when they were set by value)"""
    last = _LAST_RANGE.get(s)
    cur = np.asarray(s.smooth_fa_freqs, dtype=float)
    r = rng.random()
    args = None
    if r < 0.12 and last is not None:
        sg = rng.choice([1.0, -1.0])
        args = {'limits': [last[0][0] * (1 + 3e-7 * sg), last[0][1] * (1 - 3e-7 * sg)], 'n_points': last[1]}
    elif r < 0.2 and last is not None:
        args = {'limits': list(last[0]), 'n_points': max(3, last[1] + rng.choice([-1, 1, 2]))}
    elif r < 0.35 and len(cur) >= 3 and cur[0] > 0 and cur[-1] > 0 and cur[0] != cur[-1]:
        args = {'limits': [float(cur[0]), float(cur[-1])], 'n_points': len(cur)}
    if args is None:
        return _a_range(rng, s)
    _LAST_RANGE.put(s, (tuple(args['limits']), args['n_points']))
    return args


ARGS.update({
    'reset_values': _a_reset_any,
    'add_series': _a_series_any,
    'add_signal': _a_series_any,
    'smooth_fa_freqs=': _a_freqs_rel,
    'smooth_fa_frequencies=': _a_freqs_rel,
    'gen_smooth_fa_spectrum/given': _a_freqs_rel,
    'set_smooth_fa_frequecies_by_range': _a_range_rel,
    'smooth_freq_range=': lambda rng, s: {'limits': _a_range_rel(rng, s)['limits']},
    'response_times=': _a_periods_rel,
    'gen_response_spectrum/given': _a_periods_rel,
    'generate_response_spectrum/given': _a_periods_rel,
    'response_series/given': _a_periods_rel,
})


# ---- round 9 (hx_r9c) --------------------------------------------------------------------------------------------------------------------
# (1) add_signal with an operand that has a HISTORY of its own: args {'series'|'own_view': ..., 'operand': {'cls': 'Signal'|'AccSignal', 'read': [...]}} --
#     the added object is of either class and the listed quantities were read on it before it is added (its caches are warm).  A shortcut keyed on
#     the cache state of the ARGUMENT must leave the receiver exactly what a fresh object with the summed record reports.
# (2) the take / patch in place / hand back idiom: args {'own_view': 'self' | [i0, i1, step], 'edit': {'slice': [i0, i1], 'scale': c, 'shift': d}} --
#     the array obtained from the object is modified by the caller and then handed to reset_values / add_series (the library's own
#     set_zero_residual_* do exactly this).  Same rows of the effect table, same names for the state machine (value replacements).
OPERAND_READS = ['fa_spectrum', 'smooth_fa_spectrum', 'fa_freqs', 'velocity', 'displacement', 'pga', 'pgd', 's_a', 'values']


def _edit_in_place(v, e):
    i0, i1 = e.get('slice', [None, None])
    v[i0:i1] = v[i0:i1] * e.get('scale', 1.0) + e.get('shift', 0.0)
    return v


_passed_array_r7 = passed_array


def passed_array(s, args, key):
    a = _passed_array_r7(s, args, key)
    if 'edit' in args:
        _edit_in_place(a, args['edit'])
    return a


def own_view_content(s, args):
    """copy of the content of the array an {'own_view': ...} call is about to pass, AFTER the caller's own edit (None for every other call);
    to be taken BEFORE the call; leaves the object's array alone"""
    if isinstance(args, dict) and 'own_view' in args:
        c = np.array(_passed_array_r7(s, args, None), copy=True)
        return _edit_in_place(c, args['edit']) if 'edit' in args else c
    return None


_apply_op_r7 = apply_op


def apply_op(s, name, args):
    if name == 'add_signal' and isinstance(args, dict) and 'operand' in args:
        import eqsig
        spec = args['operand']
        a = passed_array(s, args, 'series')
        o = eqsig.AccSignal(a, s.dt) if spec.get('cls') == 'AccSignal' else eqsig.Signal(a, s.dt)
        for q in spec.get('read', []):
            if hasattr(o, q):
                getattr(o, q)
        s.add_signal(o)
        return a
    return _apply_op_r7(s, name, args)


def _a_edit(rng, s, full_length):
    n = len(s.values)
    args = _a_own_view(rng, s, full_length) if rng.random() < 0.3 else {'own_view': 'self'}
    i0 = rng.choice([None, 0, rng.randrange(n)])
    args['edit'] = {'slice': [i0, rng.choice([None, None, n, (i0 or 0) + 1 + rng.randrange(n)])],
                    'scale': rng.choice([1.0, 0.5, -1.0, 2.0]), 'shift': rng.choice([0.0, 0.25, -0.125])}
    if args['edit']['scale'] == 1.0 and args['edit']['shift'] == 0.0:
        args['edit']['shift'] = 0.5
    return args


def _a_reset_r9(rng, s):
    if isinstance(getattr(s, 'values', None), np.ndarray) and s.values.dtype.kind == 'f' and s.values.flags.writeable and len(s.values) >= 2 \
            and rng.random() < 0.15:
        return _a_edit(rng, s, False)
    return _a_reset_any(rng, s)


def _a_series_r9(rng, s):
    if isinstance(getattr(s, 'values', None), np.ndarray) and s.values.dtype.kind == 'f' and s.values.flags.writeable and len(s.values) >= 2 \
            and rng.random() < 0.08:
        return _a_edit(rng, s, True)
    return _a_series_any(rng, s)


def _a_signal_r9(rng, s):
    args = _a_series_r9(rng, s)
    if rng.random() < 0.6:
        k = rng.choice([0, 1, 1, 2, 3, len(OPERAND_READS)])
        args['operand'] = {'cls': rng.choice(['AccSignal', 'AccSignal', 'Signal']), 'read': rng.sample(OPERAND_READS, k)}
    return args


ARGS.update({'reset_values': _a_reset_r9, 'add_series': _a_series_r9, 'add_signal': _a_signal_r9})


# (3) records held in containers that are NOT plain ndarrays but expose their buffer to NumPy (np.asarray gives a view of THEIR memory: ndarray
#     subclasses -- masked array, memmap, a trivial subclass, recarray --, objects with __array__, buffer-protocol objects): args {'values': [...], 'wrap': kind}
WRAP_KINDS = ['masked', 'masked/explicit-mask', 'memmap', 'subclass', 'recarray-field', 'recarray-view', '__array__ wrapper', 'array.array', 'strided-subclass']


class _PlainSub(np.ndarray):
    pass


class ArrayHolder:
    """a minimal array wrapper: sequence protocol + __array__ handing out its own buffer (what np.asarray is documented to use)"""

    def __init__(self, a):
        self._a = a

    def __array__(self, dtype=None, copy=None):
        if copy:
            return np.array(self._a, dtype=dtype)
        return self._a if dtype is None else self._a.astype(dtype, copy=False)

    def __len__(self):
        return len(self._a)

    def __getitem__(self, i):
        return self._a[i]

    def __setitem__(self, i, v):
        self._a[i] = v

    def __repr__(self):
        return 'ArrayHolder(%r)' % (self._a.tolist(),)


_WRAP_COUNT = [0]


def wrap_array(values, kind):
    """the record `values` (floats) held in a container of the given kind"""
    a = np.array(values, dtype=float)
    if kind == 'masked':
        return np.ma.MaskedArray(a)
    if kind == 'masked/explicit-mask':
        return np.ma.MaskedArray(a, mask=np.zeros(len(a), dtype=bool))
    if kind == 'memmap':
        import core
        os.makedirs(core.WORK, exist_ok=True)
        _WRAP_COUNT[0] += 1
        path = os.path.join(core.WORK, 'c05_memmap_%d_%d.dat' % (os.getpid(), _WRAP_COUNT[0]))
        m = np.memmap(path, dtype=float, mode='w+', shape=(len(a),))
        m[:] = a
        m.flush()
        os.unlink(path)          # the mapping stays valid; nothing is left behind
        return m
    if kind == 'subclass':
        return a.view(_PlainSub)
    if kind == 'strided-subclass':
        return np.repeat(a, 2).view(_PlainSub)[::2]
    if kind == 'recarray-field':
        return np.rec.fromarrays([a, np.arange(len(a)) * 0.5], names='acc,t').acc
    if kind == 'recarray-view':
        return a.view(np.recarray)
    if kind == '__array__ wrapper':
        return ArrayHolder(a)
    if kind == 'array.array':
        import array
        return array.array('d', a.tolist())
    raise KeyError(kind)


_passed_array_r9 = passed_array


def passed_array(s, args, key):
    if isinstance(args, dict) and 'wrap' in args:
        return wrap_array(args[key], args['wrap'])
    return _passed_array_r9(s, args, key)
