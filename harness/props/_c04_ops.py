"""Operations on eqsig.Signal / eqsig.AccSignal objects shared by the C04 and C05 checks.

An operation is a pair (name, args): `name` is the row name of the effect table (`Gen/CacheTable.lean`, e.g. 'reset_values',
'response_times=', 'gen_response_spectrum/given'), `args` a small JSON-able dict with the concrete arguments, so that a
history is replayable.  `apply_op(sig, name, args)` performs the call and returns the ndarray the caller passed (the array
the caller still holds afterwards) or None.
"""
import copy
import warnings

import numpy as np

warnings.simplefilter('ignore')

# every readable property of AccSignal, in the order used for READALL
QUANTS = ['values', 'dt', 'npts', 'time', 'smooth_fa_freqs', 'smooth_fa_frequencies', 'smooth_freq_range',
          'smooth_freq_points', 'response_times', 'fa_spectrum', 'fa_spectrum_abs', 'fa_freqs', 'fa_frequencies',
          'smooth_fa_spectrum', 's_a', 's_v', 's_d', 'velocity', 'displacement', 'pga', 'pgv', 'pgd']
# those a plain Signal has
SIGNAL_QUANTS = ['values', 'dt', 'npts', 'time', 'smooth_fa_freqs', 'smooth_fa_frequencies', 'smooth_freq_range',
                 'smooth_freq_points', 'fa_spectrum', 'fa_spectrum_abs', 'fa_freqs', 'fa_frequencies', 'smooth_fa_spectrum']
# quantities generated from the record, dt and npts only (C05.a: a caller write must not change them)
VALUES_DERIVED = ['values', 'npts', 'time', 'fa_spectrum', 'fa_spectrum_abs', 'fa_freqs', 'fa_frequencies',
                  'velocity', 'displacement', 'pga', 'pgv', 'pgd']
# stale-but-bit-equal is possible for these without any defect of the model: they do not depend on the record's content
CONTENT_INDEPENDENT = {'fa_freqs', 'fa_frequencies'}


def rec(rng, n, kind=None):
    kind = kind or rng.choice(['walk', 'walk', 'noise', 'dyadic', 'sine'])
    if kind == 'walk':
        x, out = 0.0, []
        for _ in range(n):
            x += rng.gauss(0, 1) * 0.1
            out.append(x + rng.gauss(0, 1) * 0.05)
        return np.array(out)
    if kind == 'noise':
        return np.array([rng.gauss(0, 1) for _ in range(n)])
    if kind == 'dyadic':
        a = np.array([rng.randint(-64, 64) / 8 for _ in range(n)], dtype=float)
        if not a.any():
            a[0] = 1.0
        return a
    f = rng.uniform(0.5, 10)
    ph = rng.uniform(0, 6.28)
    return np.array([np.sin(6.283185307179586 * f * 0.01 * i + ph) + 0.01 * rng.gauss(0, 1) for i in range(n)])


def periods(rng):
    return sorted(round(rng.uniform(0.15, 2.0), 4) for _ in range(rng.randint(2, 4)))


def freqs(rng, n=None):
    return sorted(round(rng.uniform(0.3, 20.0), 4) for _ in range(n or rng.randint(3, 6)))


_LAST_RANGE = {}     # id(object) -> (limits, n_points) of the last set_smooth_fa_frequecies_by_range performed on it


def _a_range(rng, s):
    """half of the time repeat EXACTLY the range and point count used before on this object (or the constructor default range with
    the current number of points): a 'nothing changed' shortcut must not fire when the frequencies were replaced in between"""
    last = _LAST_RANGE.get(id(s))
    r = rng.random()
    if last is not None and r < 0.5:
        args = {'limits': list(last[0]), 'n_points': last[1]}
    elif r < 0.6:
        args = {'limits': [0.1, 30], 'n_points': len(s.smooth_fa_freqs)}
    else:
        args = {'limits': [round(rng.uniform(0.1, 0.5), 3), round(rng.uniform(5, 20), 3)], 'n_points': rng.randint(4, 8)}
    _LAST_RANGE[id(s)] = (tuple(args['limits']), args['n_points'])
    return args


def _a_freqs_same_count(rng, s):
    cur = np.asarray(s.smooth_fa_freqs, dtype=float)
    if len(cur) >= 3 and rng.random() < 0.35:
        # same number of frequencies AND the same first / last frequency as now, different interior (a memo keyed on ends and count must not fire)
        inner = sorted(round(rng.uniform(float(cur[0]), float(cur[-1])), 5) for _ in range(len(cur) - 2))
        return {'freqs': [float(cur[0])] + inner + [float(cur[-1])]}
    return {'freqs': freqs(rng, len(s.smooth_fa_freqs) if rng.random() < 0.6 else None)}


# ---- argument makers: (rng, sig) -> args dict ---------------------------------------------------------------------

def _a_none(rng, s):
    return {}


def _a_reset(rng, s, newlen=None):
    n = newlen or len(s.values)
    return {'values': rec(rng, n).tolist()}


def _a_series(rng, s):
    return {'series': [rng.gauss(0, 1) * 0.1 for _ in range(len(s.values))]}


ARGS = {
    'values=': lambda rng, s: {'values': rec(rng, 7).tolist()},
    'reset_values': lambda rng, s: _a_reset(rng, s, rng.choice([None, None, 48, 80, 96, 130])),
    'add_constant': lambda rng, s: {'constant': round(rng.uniform(0.1, 1.0), 3)},
    'add_series': _a_series,
    'add_signal': _a_series,
    'butter_pass': lambda rng, s: {'cut_off': [round(rng.uniform(0.3, 1.0), 3), round(rng.uniform(8, 20), 3)]},
    'remove_average': _a_none,
    'remove_poly': lambda rng, s: {'poly_fit': rng.randint(0, 2)},
    'running_average': lambda rng, s: {'width': rng.choice([3, 5])},
    'remove_rolling_average/velocity': _a_none,
    'remove_rolling_average/other': _a_none,
    'rebase_displacement': _a_none,
    'set_zero_residual_velocity': _a_none,
    'set_zero_residual_displacement': _a_none,
    # half of the calls use a time window (same table row, same effects): exercises the in-place edits on slices of self.time
    'set_zero_residual_displacement_and_velocity': lambda rng, s: ({} if rng.random() < 0.5 else
                                                                   {'timezone': [round(s.dt * rng.randint(1, max(1, len(s.values) // 4)), 6),
                                                                                 rng.choice([None, round(s.dt * (len(s.values) // 2), 6)])]}),
    'correct_me': _a_none,
    'smooth_fa_freqs=': _a_freqs_same_count,
    'smooth_fa_frequencies=': _a_freqs_same_count,
    'set_smooth_fa_frequecies_by_range': _a_range,
    'smooth_freq_range=': lambda rng, s: {'limits': _a_range(rng, s)['limits']},
    'smooth_freq_points=': lambda rng, s: {'points': len(s.smooth_fa_freqs) + rng.randint(0, 3)},
    'response_times=': lambda rng, s: {'periods': periods(rng)},
    'gen_response_spectrum/given': lambda rng, s: {'periods': periods(rng)},
    'gen_response_spectrum/omitted': _a_none,
    'generate_response_spectrum/given': lambda rng, s: {'periods': periods(rng)},
    'generate_response_spectrum/omitted': _a_none,
    'response_series/given': lambda rng, s: {'periods': periods(rng)},
    'response_series/omitted': _a_none,
    'gen_smooth_fa_spectrum/given': _a_freqs_same_count,
    'gen_smooth_fa_spectrum/omitted': _a_none,
    'generate_smooth_fa_spectrum': _a_none,
    'gen_fa_spectrum': _a_none,
    'generate_fa_spectrum': _a_none,
    'generate_displacement_and_velocity_series': _a_none,
    'clear_cache': _a_none,
    'reset_all_motion_stats': _a_none,
    'get_section_average': _a_none,
    'generate_peak_values': _a_none,
    'generate_cumulative_stats': _a_none,
    # generate_duration_stats / generate_all_motion_stats need np.trapz (removed from NumPy): not driven
}

# rows that replace the record: the model takes the new length as '#<len>'
VALUE_MUTATORS = ['reset_values', 'add_constant', 'add_series', 'add_signal', 'butter_pass', 'remove_average', 'remove_poly',
                  'running_average', 'remove_rolling_average/velocity', 'remove_rolling_average/other', 'rebase_displacement',
                  'set_zero_residual_velocity', 'set_zero_residual_displacement',
                  'set_zero_residual_displacement_and_velocity', 'correct_me']
# the DESIGN's alphabet of mutators and settings (used for the length-3 enumeration)
CORE_ALPHABET = VALUE_MUTATORS + ['smooth_fa_freqs=', 'smooth_fa_frequencies=', 'set_smooth_fa_frequecies_by_range',
                                  'smooth_freq_range=', 'smooth_freq_points=', 'response_times=',
                                  'gen_response_spectrum/given', 'response_series/given']
# methods a plain Signal has as well
SIGNAL_METHODS = ['values=', 'reset_values', 'add_constant', 'add_series', 'add_signal', 'butter_pass', 'remove_average',
                  'remove_poly', 'running_average', 'smooth_fa_freqs=', 'smooth_fa_frequencies=',
                  'set_smooth_fa_frequecies_by_range', 'smooth_freq_range=', 'smooth_freq_points=',
                  'gen_smooth_fa_spectrum/given', 'gen_smooth_fa_spectrum/omitted', 'generate_smooth_fa_spectrum',
                  'gen_fa_spectrum', 'generate_fa_spectrum', 'clear_cache', 'get_section_average']


def apply_op(s, name, args):
    """perform the call; returns the ndarray argument the caller keeps holding (or None)"""
    import eqsig
    a = None
    if name == 'values=':
        a = np.array(args['values']); s.values = a
    elif name == 'reset_values':
        a = np.array(args['values']); s.reset_values(a)
    elif name == 'add_constant':
        s.add_constant(args['constant'])
    elif name == 'add_series':
        a = np.array(args['series']); s.add_series(a)
    elif name == 'add_signal':
        a = np.array(args['series']); s.add_signal(eqsig.Signal(a, s.dt))
    elif name == 'butter_pass':
        s.butter_pass(tuple(args['cut_off']))
    elif name == 'remove_average':
        s.remove_average()
    elif name == 'remove_poly':
        s.remove_poly(args['poly_fit'])
    elif name == 'running_average':
        s.running_average(args['width'])
    elif name == 'remove_rolling_average/velocity':
        s.remove_rolling_average()
    elif name == 'remove_rolling_average/other':
        s.remove_rolling_average(mtype='acc')
    elif name == 'rebase_displacement':
        s.rebase_displacement()
    elif name == 'set_zero_residual_velocity':
        s.set_zero_residual_velocity()
    elif name == 'set_zero_residual_displacement':
        s.set_zero_residual_displacement()
    elif name == 'set_zero_residual_displacement_and_velocity':
        tz = args.get('timezone')
        if tz is None:
            s.set_zero_residual_displacement_and_velocity()
        else:
            s.set_zero_residual_displacement_and_velocity(timezone=(tz[0], tz[1]))
    elif name == 'correct_me':
        s.correct_me()
    elif name == 'smooth_fa_freqs=':
        a = np.array(args['freqs']); s.smooth_fa_freqs = a
    elif name == 'smooth_fa_frequencies=':
        s.smooth_fa_frequencies = list(args['freqs'])
    elif name == 'set_smooth_fa_frequecies_by_range':
        s.set_smooth_fa_frequecies_by_range(tuple(args['limits']), args['n_points'])
    elif name == 'smooth_freq_range=':
        s.smooth_freq_range = tuple(args['limits'])
    elif name == 'smooth_freq_points=':
        s.smooth_freq_points = args['points']
    elif name == 'response_times=':
        a = np.array(args['periods']); s.response_times = a
    elif name == 'gen_response_spectrum/given':
        a = np.array(args['periods']); s.gen_response_spectrum(response_times=a)
    elif name == 'gen_response_spectrum/omitted':
        s.gen_response_spectrum()
    elif name == 'generate_response_spectrum/given':
        a = np.array(args['periods']); s.generate_response_spectrum(response_times=a)
    elif name == 'generate_response_spectrum/omitted':
        s.generate_response_spectrum()
    elif name == 'response_series/given':
        a = np.array(args['periods']); s.response_series(response_times=a)
    elif name == 'response_series/omitted':
        s.response_series()
    elif name == 'gen_smooth_fa_spectrum/given':
        a = np.array(args['freqs']); s.gen_smooth_fa_spectrum(smooth_fa_freqs=a)
    elif name == 'gen_smooth_fa_spectrum/omitted':
        s.gen_smooth_fa_spectrum()
    elif name == 'generate_smooth_fa_spectrum':
        s.generate_smooth_fa_spectrum()
    elif name == 'gen_fa_spectrum':
        s.gen_fa_spectrum()
    elif name == 'generate_fa_spectrum':
        s.generate_fa_spectrum()
    elif name == 'generate_displacement_and_velocity_series':
        s.generate_displacement_and_velocity_series()
    elif name == 'clear_cache':
        s.clear_cache()
    elif name == 'reset_all_motion_stats':
        s.reset_all_motion_stats()
    elif name == 'get_section_average':
        s.get_section_average()
    elif name == 'generate_peak_values':
        s.generate_peak_values()
    elif name == 'generate_cumulative_stats':
        s.generate_cumulative_stats()
    else:
        raise KeyError(name)
    return a


def passed_list(name, args):
    """the content of the array argument of the call as the caller created it (None: the call passes no array)"""
    for k in ('values', 'series', 'freqs', 'periods'):
        if k in args and name not in ('smooth_fa_frequencies=',):
            return args[k]
    return None


def make_sig(cls, values, dt, sff, rt):
    import eqsig
    if cls == 'Signal':
        return eqsig.Signal(values, dt, smooth_fa_freqs=sff)
    return eqsig.AccSignal(values, dt, smooth_fa_freqs=sff, response_times=rt)


def fresh_of(s, cls):
    """a newly constructed object with the same values / dt / settings"""
    import eqsig
    if cls == 'Signal':
        return eqsig.Signal(np.array(s.values), s.dt, smooth_fa_freqs=np.array(s.smooth_fa_freqs, dtype=float))
    return eqsig.AccSignal(np.array(s.values), s.dt, smooth_fa_freqs=np.array(s.smooth_fa_freqs, dtype=float),
                           response_times=np.array(s.response_times))


def same(a, b):
    """same shape and bit-equal content (NaN == NaN)"""
    try:
        a = np.asarray(a); b = np.asarray(b)
        if a.shape != b.shape:
            return False
        if a.dtype.kind in 'fc' or b.dtype.kind in 'fc':
            return bool(np.array_equal(a, b, equal_nan=True))
        return bool(np.array_equal(a, b))
    except Exception:
        return False


def brief(v):
    """short description of a value for failure details"""
    try:
        a = np.asarray(v)
        if a.ndim == 0:
            return repr(a.item())
        flat = a.ravel()[:4]
        return {'shape': list(a.shape), 'head': [complex(x).real if np.iscomplexobj(flat) else float(x) for x in flat]}
    except Exception:
        return repr(v)[:80]


def observe(s, cls, quants):
    """every quantity read on its own deep copy -> {q: value}"""
    out = {}
    for q in quants:
        c = copy.deepcopy(s)
        out[q] = getattr(c, q)
    return out


def observe_fresh(s, cls, quants):
    f = fresh_of(copy.deepcopy(s), cls)
    return {q: getattr(f, q) for q in quants}


def model_name(name, s):
    """the op's name for the Lean model: value-replacing calls carry the length of the new record"""
    return name + '#%d' % len(s.values) if name in VALUE_MUTATORS else name


def expected_settings(name, args, sff, rt):
    """the smoothing frequencies / response periods a settings operation must leave, computed from its ARGUMENTS and the previous
    expected settings only (never read back from the object): (new_sff, new_rt), None = unchanged"""
    if name in ('smooth_fa_freqs=', 'smooth_fa_frequencies=', 'gen_smooth_fa_spectrum/given'):
        return np.array(args['freqs'], dtype=float), None
    if name == 'set_smooth_fa_frequecies_by_range':
        lf = np.log10(np.array(args['limits'], dtype=float))
        return np.logspace(lf[0], lf[1], args['n_points'], base=10), None
    if name == 'smooth_freq_range=':
        lf = np.log10(np.array(args['limits'], dtype=float))
        return np.logspace(lf[0], lf[1], len(sff), base=10), None
    if name == 'smooth_freq_points=':
        lf = np.log10(np.array([sff[0], sff[-1]], dtype=float))
        return np.logspace(lf[0], lf[1], int(args['points']), base=10), None
    if name in ('response_times=', 'gen_response_spectrum/given', 'generate_response_spectrum/given', 'response_series/given'):
        return None, np.array(args['periods'], dtype=float)
    return None, None
