"""C06 — Fourier amplitude spectrum is dt x DFT of the zero-padded record, on the stated grid."""
import math
from fractions import Fraction

import numpy as np

import gen
from core import fr, w_float, w_floats, p_floats, cmp_exact, cmp_budget, call_impl

RULE = ("records of kinds dyadic/int/noise/sine/spike/two-tone/int-dtype; corpus (witnesses of F06-1/2/3) first, then every "
        "transform length N in 2..64 (explicit n and unpadded; impulse and two-tone records), every npts in 2..70 with default "
        "padding / p2_plus 0..3 / explicit n (even, odd, < npts, > npts) / unpadded, then random npts up to 300 (quick) / 1500 "
        "(thorough), powers of two +-1; dt dyadic for a third of the cases; Signal and AccSignal. distinct = hash of "
        "(record, dt, mode); non-trivial = npts >= 3 and record not constant")
TIE = ("correspondence (hand models Model/Frequency.lean on Prelude/Cplx.lean, executed as Float twins with the O(N^2) "
       "defining sum; frequency grids compared bit for bit, values within 1e-9 of the spectrum's max modulus)")
NOT_PROVED = ["np.fft.fft / np.fft.ifft compute the DFT (external assumption FftIsDft; validated here on every case against the "
              "model's O(N^2) Float sum and against an independent O(N^2) NumPy sum)",
              "IEEE rounding of the FFT and of the grid division (measured, budget 1e-9 / 2 ulp)",
              "log2/log rounding of the transform-length formula beyond npts <= 2^20 (the model uses the exact integer rule)"]
ASSUMPTIONS = ["FftIsDft: np.fft.fft(x, n) is the DFT of x zero-padded/truncated to n; np.fft.ifft its inverse"]
EXHAUSTIVE = True

REL = Fraction(1, 10**9)
MODEL_NMAX = {'quick': 512, 'thorough': 1024}   # the model's O(N^2) sum costs ~0.5 us per term


# ------------------------------------------------------------------------------------------------
# independent references (no np.fft)
# ------------------------------------------------------------------------------------------------

PROP_MODULES = ['C06', 'C06Gen', 'C06Moments', 'C06GenMoments']

def pad_to(x, N):
    xp = np.zeros(N, dtype=float)
    m = min(len(x), N)
    xp[:m] = np.asarray(x, dtype=float)[:m]
    return xp


def ind_dft_rows(x, N, ks):
    """X_k = sum_j x_j exp(-2 pi i jk/N), x padded/truncated to N, for the bins ks — by the defining sum (np.exp matrix)"""
    xp = pad_to(x, N)
    j = np.arange(N, dtype=np.int64)
    ks = np.asarray(ks, dtype=np.int64)
    out = np.empty(len(ks), dtype=complex)
    step = max(1, 2_000_000 // max(N, 1))
    for a in range(0, len(ks), step):
        kk = ks[a:a + step]
        ph = (np.outer(kk, j) % N) * (-2.0 * math.pi / N)
        out[a:a + step] = np.exp(1j * ph) @ xp
    return out


def next_pow2(n):
    return 1 << (n - 1).bit_length() if n > 1 else 1


def expected_N(npts, mode):
    if mode[0] == 'default':
        return next_pow2(npts)
    if mode[0] == 'p2':
        return next_pow2(npts) * 2 ** mode[1]
    if mode[0] == 'n':
        return mode[1]
    return npts   # unpadded


def cx_list(z):
    z = np.asarray(z, dtype=complex).reshape(-1)
    out = np.empty(2 * len(z))
    out[0::2] = z.real
    out[1::2] = z.imag
    return out.tolist()


def cmp_floats(impl, model, scale, rel=1e-9):
    """budget T on large arrays (NumPy instead of Fractions: the budget is 6 orders above the measured gaps) -> (message, gap)"""
    a = np.asarray(impl, dtype=float)
    b = np.asarray(model, dtype=float)
    if a.shape != b.shape:
        return f"length impl={a.size} model={b.size}", None
    if a.size == 0:
        return None, 0.0
    d = np.abs(a - b)
    i = int(np.argmax(d))
    g = float(d[i]) / scale
    if not (g <= rel):
        return f"[{i}] impl={a[i]!r} model={b[i]!r} gap={float(d[i]):.3e} tol={rel * scale:.3e}", g
    return None, g


def w_cx(z):
    return w_floats(cx_list(z))


def opt(n):
    return '-' if n is None else str(int(n))


def close(a, b, rel, scale):
    a = np.asarray(a)
    b = np.asarray(b)
    if a.shape != b.shape:
        return False, None
    if a.size == 0:
        return True, 0.0
    g = float(np.max(np.abs(a - b)))
    sc = scale if scale > 0 else 1.0
    return g <= rel * sc, g / sc


# ------------------------------------------------------------------------------------------------
# one configuration
# ------------------------------------------------------------------------------------------------

def is_pow2_fraction(q):
    """q = 2^e for an integer e (then k/q and the float product N*dt are exact)"""
    if q <= 0:
        return False
    a, b = q.numerator, q.denominator
    return (a == 1 and b & (b - 1) == 0) or (b == 1 and a & (a - 1) == 0)


def entry_points(mode, npts):
    """[(label, kind, kwargs)] — every public way to obtain the spectrum for this mode"""
    if mode[0] == 'default':
        return [('Signal.fa_spectrum', 'prop', {}), ('Signal.gen_fa_spectrum()', 'sig', {}), ('AccSignal.gen_fa_spectrum()', 'acc', {}),
                ('generate_fa_spectrum(n_pad=True)', 'gen', {'n_pad': True}), ('calc_fa_spectrum(p2_plus=0)', 'calc', {'p2_plus': 0})]
    if mode[0] == 'p2':
        p = mode[1]
        return [('Signal.gen_fa_spectrum(p2_plus)', 'sig', {'p2_plus': p}), ('AccSignal.gen_fa_spectrum(p2_plus)', 'acc', {'p2_plus': p}),
                ('calc_fa_spectrum(p2_plus)', 'calc', {'p2_plus': p})]
    if mode[0] == 'n':
        n = mode[1]
        return [('Signal.gen_fa_spectrum(n)', 'sig', {'n': n}), ('AccSignal.gen_fa_spectrum(n)', 'acc', {'n': n}),
                ('calc_fa_spectrum(n)', 'calc', {'n': n}), ('calc_fa_spectrum(n, p2_plus=1)', 'calc', {'n': n, 'p2_plus': 1})]
    return [('generate_fa_spectrum(n_pad=False)', 'gen', {'n_pad': False}), ('calc_fa_spectrum()', 'calc', {}),
            ('Signal.gen_fa_spectrum(n=npts)', 'sig', {'n': npts})]


_CTX = None


def impl_spectrum(v, dt, kind, kw):
    import eqsig
    from eqsig.fns import frequency as fq
    if kind == 'prop':
        s = _CTX.aged(eqsig.Signal, v, dt) if _CTX is not None else eqsig.Signal(v, dt)
        return np.array(s.fa_spectrum), np.array(s.fa_frequencies)
    if kind in ('sig', 'acc'):
        s = (eqsig.Signal if kind == 'sig' else eqsig.AccSignal)(v, dt)
        s.gen_fa_spectrum(**kw)
        return np.array(s.fa_spectrum), np.array(s.fa_freqs)
    if kind == 'gen':
        f, g = fq.generate_fa_spectrum(eqsig.Signal(v, dt), **kw)
        return np.array(f), np.array(g)
    f, g = fq.calc_fa_spectrum(eqsig.AccSignal(v, dt), **kw)
    return np.array(f), np.array(g)


def request_for(mode, label_kind, kw, v, dt):
    if label_kind in ('prop', 'sig', 'acc'):
        return f"fa_signal|{kw.get('p2_plus', 0)}|{opt(kw.get('n'))}|{w_float(dt)}|{w_floats(v)}"
    if label_kind == 'gen':
        return f"fa_generate|{'T' if kw['n_pad'] else 'F'}|{w_float(dt)}|{w_floats(v)}"
    return f"fa_calc|{opt(kw.get('n'))}|{opt(kw.get('p2_plus'))}|{w_float(dt)}|{w_floats(v)}"


def cmp_spectrum(ctx, fn, outs, val, xscale):
    fas, freqs = val
    m = p_floats(outs[0])
    msg, g = cmp_floats(cx_list(fas), m, max(float(np.max(np.abs(fas))) if len(fas) else 0.0, xscale, 1e-300))
    ctx.gap(fn, g)
    if msg:
        return 'fa_spectrum ' + msg
    mf = p_floats(outs[1])
    if len(mf) != len(freqs):
        return f"fa_frequencies length impl={len(freqs)} model={len(mf)}"
    for i, (a, b) in enumerate(zip(freqs, mf)):
        if float(a) != float(b):
            return f"fa_frequencies[{i}] impl={float(a)!r} model={float(b)!r}"
    return None


def one_config(ctx, kind, v, dt, mode, full=True):
    import eqsig
    from eqsig.fns import frequency as fq
    rng = ctx.rng
    v = np.asarray(v)
    vf = v.astype(float)
    npts = len(v)
    N = expected_N(npts, mode)
    inputs = {'values': v, 'dt': dt, 'mode': list(mode), 'kind': kind}
    ctx.hist('mode=' + mode[0])
    ctx.hist('kind=' + kind)
    ctx.hist('N parity=' + ('even' if N % 2 == 0 else 'odd'))
    ctx.count_case((v.tobytes(), str(v.dtype), dt, mode), npts >= 3 and len(set(vf.tolist())) > 1,
                   sample={'fn': 'fa_spectrum', 'npts': npts, 'dt': dt, 'mode': list(mode), 'kind': kind, 'head': vf[:6].tolist()}
                   if ctx.evaluations % 97 == 0 else None)
    snap = v.copy()
    xscale = float(np.max(np.abs(vf))) * abs(dt) if npts else 0.0
    results = []
    eps = entry_points(mode, npts)
    for ie, (label, k, kw) in enumerate(eps):
        res = call_impl(impl_spectrum, v, dt, k, kw)
        results.append((label, res))
        fn = label.split('(')[0]
        if (N > 128 and 0 < ie < len(eps) - 1) or (N > 256 and ie > 0) or N > MODEL_NMAX[ctx.tier]:
            continue   # the O(N^2) model run is repeated for the first (and last) entry point only; C06.d ties the others bit for bit
        ctx.corr(fn, request_for(mode, k, kw, vf, dt), res,
                 lambda outs, val, fn=fn, xscale=xscale: cmp_spectrum(ctx, fn, outs, val, xscale), inputs=inputs)
    ctx.oracle('input array unchanged', np.array_equal(v, snap), inputs)
    ok_results = [(l, r[1]) for l, r in results if r[0] == 'ok']
    if len(ok_results) != len(results):
        ctx.oracle('C06 spectrum is returned on the domain (npts >= 2, N >= 1)', False, inputs, detail=[(l, r[0], r[1] if r[0] == 'err' else None) for l, r in results])
        return
    label0, (fas, freqs) = ok_results[0]
    finite = all(bool(np.all(np.isfinite(f)) and np.all(np.isfinite(g))) for _, (f, g) in ok_results)
    ctx.oracle('C06 spectrum and frequencies are finite numbers', finite, inputs)
    if not finite:
        return
    P = N // 2
    # ---- C06.d object level == array level
    same = all(np.array_equal(f, fas) and np.array_equal(g, freqs) for _, (f, g) in ok_results[1:])
    ctx.oracle('C06.d object-level and array-level functions agree (Signal/AccSignal/generate_fa_spectrum/calc_fa_spectrum)', same, inputs,
               detail={'labels': [l for l, _ in ok_results], 'lens': [[len(f), len(g)] for _, (f, g) in ok_results]}, facts={'N': N})
    # ---- C06.a/b bins
    ctx.oracle('C06.a spectrum and frequencies have floor(N/2) bins for the stated N', len(fas) == P and len(freqs) == P, inputs,
               detail={'N': N, 'len_fas': len(fas), 'len_freqs': len(freqs)}, facts={'N': N, 'mode': mode[0]})
    # ---- C06.c grid k/(N dt)
    fdt = fr(dt)
    exact_grid = is_pow2_fraction(fr(N) * fdt)
    okg = True
    badk = None
    for k in range(min(len(freqs), P)):
        want = Fraction(k) / (fr(N) * fdt)
        got = fr(freqs[k])
        tol = Fraction(0) if exact_grid else abs(want) * Fraction(4, 2**53)   # two roundings (N*dt, then the division)
        if abs(got - want) > tol:
            okg = False
            badk = (k, float(got), float(want))
            break
    ctx.oracle('C06.c frequencies are k/(N*dt), k = 0..N/2-1', okg and len(freqs) == P, inputs, detail={'N': N, 'first_bad': badk},
               facts={'N': N, 'odd_N': N % 2 == 1, 'mode': mode[0]})
    # ---- C06.b values vs an independent O(N^2) DFT
    nb = min(len(fas), P)
    ref = ind_dft_rows(vf, N, np.arange(0, P + 1 if P + 1 <= N else P)) if N >= 1 else np.zeros(0, complex)
    sc = max(float(np.max(np.abs(ref))) if len(ref) else 0.0, float(np.max(np.abs(vf))) if npts else 0.0) * abs(dt)
    okv, g = close(fas[:nb], ref[:nb] * dt, 1e-9, sc)
    ctx.gap('impl vs independent O(N^2) DFT', g)
    ctx.oracle('C06.b spectrum == dt * DFT of the record zero-padded/truncated to N (independent O(N^2) sum)', okv and nb == P, inputs,
               detail={'N': N, 'gap_rel': g}, facts={'N': N})
    if not full:
        return fas, freqs
    # ---- C06.f Parseval: one-sided output + Hermitian symmetry; the bins the output does not carry come from the independent DFT
    if N >= 2 and len(fas) == P and dt != 0:
        Xk = np.asarray(fas) / dt
        e_time = float(np.sum(pad_to(vf, N) ** 2)) * N
        if N % 2 == 0:
            tot = abs(Xk[0]) ** 2 + 2 * float(np.sum(np.abs(Xk[1:]) ** 2)) + abs(ref[P]) ** 2
        else:   # bins 1..(N-1)/2 and their mirrors; the output stops at (N-3)/2
            tot = abs(Xk[0]) ** 2 + 2 * float(np.sum(np.abs(Xk[1:]) ** 2)) + 2 * abs(ref[P]) ** 2
        ctx.oracle("C06.f Parseval: sum_k |X_k|^2 == N * sum_j |x_j|^2", abs(tot - e_time) <= 1e-9 * max(e_time, 1e-300), inputs,
                   detail={'N': N, 'freq_side': float(tot), 'time_side': e_time})
    # ---- C06.e linearity and trailing zeros (same N)
    w = np.array([rng.gauss(0, 1) for _ in range(npts)])
    a, b = rng.choice([2.0, -3.0, 0.5, 1.5]), rng.choice([1.0, -0.25, 4.0])
    kwn = {'n': N}
    f_x = fq.calc_fa_spectrum(eqsig.Signal(vf, dt), **kwn)[0]
    f_w = fq.calc_fa_spectrum(eqsig.Signal(w, dt), **kwn)[0]
    f_c = fq.calc_fa_spectrum(eqsig.Signal(a * vf + b * w, dt), **kwn)[0]
    scl = max(float(np.max(np.abs(f_c))) if len(f_c) else 0.0, sc, 1e-300)
    okl, g = close(f_c, a * f_x + b * f_w, 1e-9, scl)
    ctx.oracle('C06.e spectrum is linear in the record', okl, {'values': vf, 'other': w, 'a': a, 'b': b, 'dt': dt, 'N': N}, detail={'gap_rel': g})
    if N > npts:
        room = next_pow2(npts) - npts if mode[0] in ('default', 'p2') else 0
        m = rng.randint(1, room if room > 0 else N - npts)
        vz = np.concatenate([vf, np.zeros(m)])
        if room > 0:
            kwz = {} if mode[0] == 'default' else {'p2_plus': mode[1]}
            rz = call_impl(impl_spectrum, vz, dt, 'sig', kwz)
        else:
            rz = call_impl(impl_spectrum, vz, dt, 'calc', {'n': N})
        okz = rz[0] == 'ok' and len(rz[1][0]) == len(fas) and close(rz[1][0], fas, 1e-12, max(sc, 1e-300))[0] and np.array_equal(rz[1][1], freqs)
        ctx.oracle('C06.e trailing zeros that do not change N change nothing', okz, {'values': vf, 'dt': dt, 'zeros': m, 'mode': list(mode)},
                   detail={'N': N})
    # ---- C06.g inverse helper
    fas_arg = np.array(fas)
    fas_snap = fas_arg.copy()
    rf = call_impl(fq.fas2values, fas_arg, dt)
    ctx.oracle('C06.g fas2values leaves the spectrum it is given unchanged (bit for bit)', np.array_equal(fas_arg, fas_snap),
               {'fas': fas, 'dt': dt}, detail={'changed_bins': [int(k) for k in np.nonzero(fas_arg != fas_snap)[0][:8]]})
    if N <= (256 if ctx.tier == 'quick' else 512):
        ctx.corr('fas2values', f"fas2values|{w_float(dt)}|{w_cx(fas)}", rf,
                 lambda outs, val, sc=sc: _cmp_cx(ctx, 'fas2values', outs[0], val, max(float(np.max(np.abs(val))) if len(val) else 0.0, 1e-300)),
                 inputs={'fas': fas, 'dt': dt})
    if len(fas) >= 1:
        if rf[0] != 'ok':
            ctx.oracle('C06.g fas2values returns a series for a non-empty spectrum', False, inputs, detail=rf)
        else:
            s = np.asarray(rf[1])
            ctx.oracle('C06.g fas2values returns 2*len(fas) samples (= N for even N)', len(s) == 2 * len(fas), inputs,
                       detail={'len': len(s), 'len_fas': len(fas), 'N': N}, facts={'N': N, 'len': len(s)})
            rs = call_impl(lambda: np.asarray(fq.fas2signal(np.array(fas), dt).values))
            ctx.oracle('C06.g fas2signal carries the same samples as fas2values', rs[0] == 'ok' and np.array_equal(rs[1], s), inputs)
            if N % 2 == 0:
                xp = pad_to(vf, N)
                jj = np.arange(N)
                want = xp - np.mean(xp) - ((-1.0) ** jj) * float(np.sum(((-1.0) ** jj) * xp)) / N
                L = min(len(s), N)
                xs = max(float(np.max(np.abs(xp))), 1e-300)
                okr = bool(np.max(np.abs(s[:L] - want[:L])) <= 1e-9 * xs) if L else True
                ctx.oracle('C06.g fas2values reconstructs the padded record minus its mean and Nyquist components', okr and len(s) == N, inputs,
                           detail={'N': N, 'len': len(s), 'max_dev': float(np.max(np.abs(s[:L] - want[:L]))) if L else 0.0},
                           facts={'N': N, 'len': len(s)})
    return fas, freqs


def _cmp_cx(ctx, fn, toks, val, scale):
    msg, g = cmp_floats(cx_list(val), p_floats(toks), scale)
    ctx.gap(fn, g)
    return msg


def max_period_case(ctx, kind, v, dt, kw=None):
    """C06.h on an AccSignal (its cached spectrum: default padding, or after gen_fa_spectrum(**kw))"""
    import eqsig
    from eqsig import im
    asig = ctx.aged(eqsig.AccSignal, np.asarray(v, dtype=float), dt)
    if kw:
        if ctx.rng.random() < 0.5:
            # object history: everything derived from the spectrum is read BEFORE the explicit regeneration with another padding
            _ = (asig.fa_spectrum, asig.fa_spectrum_abs, asig.fa_frequencies)
            call_impl(im.max_fa_period, asig)
            ctx.hist('object-history/read before gen_fa_spectrum(**kw)')
        asig.gen_fa_spectrum(**kw)
        okm = np.array_equal(np.asarray(asig.fa_spectrum_abs), np.abs(np.asarray(asig.fa_spectrum))) and \
            len(asig.fa_spectrum_abs) == len(asig.fa_frequencies)
        ctx.oracle('C06 after gen_fa_spectrum(p2_plus / n) the object\'s fa_spectrum_abs is the modulus of its CURRENT spectrum, on the current grid',
                   bool(okm), {'values': v, 'dt': dt, 'gen_fa_spectrum': kw, 'kind': kind},
                   detail={'len_abs': len(asig.fa_spectrum_abs), 'len_spectrum': len(asig.fa_spectrum)})
    fas = np.array(asig.fa_spectrum)
    freqs = np.array(asig.fa_frequencies)
    inputs = {'values': v, 'dt': dt, 'gen_fa_spectrum': kw or {}, 'kind': kind}
    ctx.hist('max_fa_period/' + kind)
    res = call_impl(im.max_fa_period, asig)
    mod = np.abs(fas)
    if len(mod) > 1:
        srt = np.sort(mod)[::-1]
        if srt[0] - srt[1] <= 1e-9 * srt[0]:
            ctx.hist('max_fa_period/near-tie skipped')
            return None
    ctx.corr('max_fa_period', f"max_fa_period|{w_cx(fas)}|{w_floats(freqs)}", res,
             lambda outs, val: None if (outs[0] == ['inf'] and np.isinf(val)) or (outs[0] != ['inf'] and p_floats(outs[0])[0] == float(val))
             else f"impl={val!r} model={outs[0]}", inputs=inputs)
    if len(fas) == 0:
        return None
    if res[0] != 'ok':
        ctx.oracle('C06.h max_fa_period returns a period for a non-empty spectrum', False, inputs, detail=res)
        return None
    i = int(np.argmax(mod))
    want = float('inf') if freqs[i] == 0 else 1.0 / float(freqs[i])
    got = float(res[1])
    ok = (got == want) or (np.isfinite(want) and abs(got - want) <= 1e-12 * want)
    ctx.oracle('C06.h max_fa_period == period of the largest-|amplitude| bin', ok, inputs,
               detail={'got': got, 'want': want, 'bin': i, 'complex_argmax': int(np.argmax(fas))}, facts={'bin': i})
    return got


# ------------------------------------------------------------------------------------------------
# generators
# ------------------------------------------------------------------------------------------------

def two_tone(rng, n, N):
    k1 = rng.randint(1, max(1, N // 2 - 1))
    k2 = rng.randint(1, max(1, N // 2 - 1))
    j = np.arange(n)
    return rng.choice([1.0, -2.0, 3.0]) * np.cos(2 * math.pi * k1 * j / N + rng.uniform(0, 2 * math.pi)) + \
        rng.choice([0.5, 1.0]) * np.sin(2 * math.pi * k2 * j / N + rng.uniform(0, 2 * math.pi))


def record(rng, n, dt, kind=None):
    kind = kind or rng.choice(['dyadic', 'int', 'noise', 'sine', 'spike', 'two-tone', 'int-dtype', 'offset'])
    if kind == 'dyadic':
        return kind, gen.dyadic_record(rng, n)
    if kind == 'int':
        return kind, gen.int_record(rng, n)
    if kind == 'noise':
        return kind, gen.noise_record(rng, n)
    if kind == 'sine':
        return kind, gen.sine_record(rng, n, dt)
    if kind == 'spike':
        return kind, gen.spike_record(rng, n)
    if kind == 'two-tone':
        return kind, two_tone(rng, n, next_pow2(n))
    if kind == 'int-dtype':
        return kind, np.array([rng.randint(-9, 9) for _ in range(n)], dtype=int)
    return kind, gen.noise_record(rng, n) + rng.choice([5.0, -3.0])


def pick_dt(rng, i):
    return gen.dyadic_dt(rng) if i % 3 == 0 else gen.any_dt(rng)


def modes_for(rng, npts, nmax):
    """the option values the property quantifies over, for one record"""
    out = [('default',), ('unpadded',)]
    for p in range(0, 4):
        if next_pow2(npts) * 2 ** p <= nmax:
            out.append(('p2', p))
    ev = 2 * rng.randint(max(1, npts // 2), npts) + 2          # even, > npts/..: mixed
    cands = {ev, ev + 1, max(1, npts - 1), max(2, npts - 2 - npts % 2), npts + 1, npts + 2, 2 * npts + 1, max(1, npts // 2), npts}
    for n in sorted(cands):
        if 1 <= n <= nmax:
            out.append(('n', n))
    return out


CORPUS = [
    # F06-1: odd transform length (explicit odd n; unpadded odd npts) — the grid must be k/(N dt), not k/((N-1) dt)
    ('F06-1', np.array([1.0, 2.0, 3.0, 4.0, 5.0]), 0.5, [('n', 5), ('unpadded',), ('n', 7), ('n', 3)]),
    ('F06-1', np.array([0.0, 1.0, 0.0, -1.0, 0.5, 0.25, -2.0]), 0.01, [('unpadded',), ('n', 9)]),
    # F06-2: 7-bin spectrum (N = 14) -> fas2values must return 14 samples (13 with int(2**(log n/log 2))); also 18, 28, 36
    ('F06-2', np.array([3.0, -1.0, 4.0, 1.0, -5.0, 9.0, 2.0, -6.0, 5.0, 3.0, -5.0, 8.0, 9.0, -7.0]), 0.01, [('n', 14), ('unpadded',), ('n', 18), ('n', 28), ('n', 36)]),
    ('tests', np.array([1.0, -2.0, 0.5, 0.0]), 0.5, [('default',), ('p2', 1), ('n', 4), ('unpadded',)]),
    ('short', np.array([1.0, -1.0]), 1.0, [('default',), ('p2', 2), ('n', 1), ('n', 2), ('n', 3), ('unpadded',)]),
]
# F06-3: the dominant bin has a negative real coefficient, a weaker tone a positive one: the arg-max of the COMPLEX spectrum
# (lexicographic on (re, im)) picks the weaker tone; the property asks for the largest amplitude
_j16 = np.arange(16)
CORPUS_PERIOD = [
    ('F06-3', -2.0 * np.cos(2 * math.pi * 2 * _j16 / 16) + np.cos(2 * math.pi * 5 * _j16 / 16), 0.5, None),
    ('F06-3', np.cos(2 * math.pi * 3 * np.arange(32) / 32 + 2.5) + 0.3 * np.cos(2 * math.pi * 7 * np.arange(32) / 32), 0.01, None),
    ('F06-3', -2.0 * np.cos(2 * math.pi * 2 * np.arange(12) / 12) + np.cos(2 * math.pi * 5 * np.arange(12) / 12), 0.25, {'n': 12}),
]


def run(ctx):
    global _CTX
    _CTX = ctx
    rng = ctx.rng
    quick = ctx.tier == 'quick'
    nmax = 512 if quick else 4096

    # ---- transform-length rule against the model (integers, exact) ----------------------------------------------------
    for npts in list(range(1, 130)) + [255, 256, 257, 511, 512, 513, 1023, 1024, 1025, 4684, 2**20 - 1, 2**20, 2**20 + 1] + gen.hint_sizes(ctx, lo=2, hi=2 ** 22, cap=12):     # (+ source hints: lengths around every new integer constant)
        for p in range(0, 4):
            N = call_impl(lambda npts=npts, p=p: 2 ** int(np.ceil(np.log2(npts)) + p))
            ctx.corr('n_factor rule', f"nfactor|{npts}|{p}|-", N,
                     lambda outs, val: None if int(outs[0][0]) == val and int(outs[1][0]) == int(val / 2) else f"impl N={val} model={outs}",
                     inputs={'npts': npts, 'p2_plus': p})
            ctx.oracle('C06.a N == 2^p2_plus * (least power of two >= npts)', N[0] == 'ok' and N[1] == next_pow2(npts) * 2 ** p,
                       {'npts': npts, 'p2_plus': p}, detail=N)
    ctx.flush()

    # ---- corpus ---------------------------------------------------------------------------------------------------------
    for tag, v, dt, modes in CORPUS:
        for mode in modes:
            ctx.hist('corpus/' + tag)
            one_config(ctx, 'corpus-' + tag, v, dt, mode)
    for tag, v, dt, kw in CORPUS_PERIOD:
        ctx.hist('corpus/' + tag)
        max_period_case(ctx, 'corpus-' + tag, v, dt, kw)
    ctx.flush()

    # ---- every transform length 2..64 (search space of the design): impulse and two-tone records ----------------------------
    for N in range(2, 65):
        dt = pick_dt(rng, N)
        imp = np.zeros(N)
        imp[rng.randrange(N)] = rng.choice([1.0, -2.0])
        tt = two_tone(rng, N, N)
        short = gen.dyadic_record(rng, max(2, N - rng.randint(0, N // 2)))
        for kind, v in (('impulse', imp), ('two-tone', tt)):
            ctx.hist('exhaustive N=2..64')
            one_config(ctx, kind, v, dt, ('n', N))
            one_config(ctx, kind, v, dt, ('unpadded',), full=False)
        one_config(ctx, 'dyadic', short, dt, ('n', N))
        max_period_case(ctx, 'two-tone', tt, dt, {'n': N})
    ctx.flush()

    # ---- every npts 2..70 (quick: options rotate; thorough: all options) ---------------------------------------------------
    for npts in range(2, 71):
        dt = pick_dt(rng, npts)
        kind, v = record(rng, npts, dt)
        modes = modes_for(rng, npts, nmax)
        if quick:
            fixed = [m for m in modes if m[0] in ('default', 'unpadded')]
            p2s = [m for m in modes if m[0] == 'p2']
            ns = [m for m in modes if m[0] == 'n']
            modes = fixed + [p2s[npts % len(p2s)]] + [ns[(npts + s) % len(ns)] for s in (0, 3, 5)]
        for mode in modes:
            one_config(ctx, kind, v, dt, mode)
        max_period_case(ctx, kind, v, dt)
        if npts % 8 == 0:
            ctx.flush()
    ctx.flush()

    # ---- random lengths, powers of two +-1 -------------------------------------------------------------------------------------
    n_random = 40 if quick else 300
    hi = 300 if quick else 1500
    specials = [127, 128, 129, 255, 256, 257] + ([] if quick else [511, 512, 513, 1023, 1024, 1025])
    # source hints: record lengths around every new integer constant, time steps at / around every new float constant (and its reciprocal)
    specials = specials + gen.hint_sizes(ctx, lo=71, hi=4000, cap=8, halves=True)
    hv_dt = gen.hint_values(ctx, 1e-4, 2.0, cap=10, maps=(lambda c: c, lambda c: 1 / c))
    for i in range(n_random):
        npts = specials[i] if i < len(specials) else gen.log_int(rng, 71, hi)
        dt = pick_dt(rng, i) if not (hv_dt and i % 3 == 1) else hv_dt[(i // 3) % len(hv_dt)]
        kind, v = record(rng, npts, dt)
        modes = modes_for(rng, npts, nmax)
        pick = [('default',)] + rng.sample(modes[1:], min(len(modes) - 1, 2 if quick else 4))
        for mode in pick:
            one_config(ctx, kind, v, dt, mode, full=(expected_N(npts, mode) <= 2048))
        max_period_case(ctx, kind, v, dt)
        if i % 10 == 9:
            ctx.flush()
    ctx.flush()

    # ---- C06.h: on-bin sinusoids with random phase: the period does not depend on the phase -------------------------------
    for i in range(30 if quick else 300):
        N = rng.choice([8, 16, 32, 64, 128])
        npts = N if i % 3 else rng.randint(N // 2 + 1, N)
        k0 = rng.randint(1, N // 2 - 1)
        dt = pick_dt(rng, i)
        periods = []
        for _ in range(4):
            ph = rng.uniform(0, 2 * math.pi)
            v = np.cos(2 * math.pi * k0 * np.arange(npts) / N + ph) + 0.01 * gen.noise_record(rng, npts)
            periods.append(max_period_case(ctx, 'sinusoid random phase', v, dt))
        vals = [p for p in periods if p is not None]
        if N == npts:
            want = N * dt / k0
            ctx.oracle('C06.h on-bin sinusoid: the dominant period is N*dt/k for every phase',
                       all(abs(p - want) <= 1e-9 * want for p in vals), {'N': N, 'k': k0, 'dt': dt, 'npts': npts}, detail={'periods': vals, 'want': want})
    ctx.flush()


def replay_case(ctx, payload):
    """re-evaluates the recorded case on the current code; True iff no clause fails on it now"""
    inp = payload['inputs']
    sub = type(ctx)(ctx.prop, ctx.tier, ctx.seed)
    if 'mode' in inp:
        mode = tuple(inp['mode'])
        v = np.array(inp['values'], dtype=int if 'int-dtype' in str(inp.get('kind')) else float)
        one_config(sub, 'replay', v, inp['dt'], mode)
    elif 'gen_fa_spectrum' in inp:
        max_period_case(sub, 'replay', np.array(inp['values'], dtype=float), inp['dt'], inp['gen_fa_spectrum'] or None)
    elif 'zeros' in inp:
        one_config(sub, 'replay', np.array(inp['values'], dtype=float), inp['dt'], tuple(inp['mode']))
    elif 'other' in inp:
        one_config(sub, 'replay', np.array(inp['values'], dtype=float), inp['dt'], ('n', inp['N']))
    else:
        print('(clause evaluated on a generated family; re-run ./check C06 with the recorded seed)')
        return False
    sub.pending = []
    for f in sub.oracle_failures:
        print('still failing:', f['clause'], f['detail'])
    return not sub.oracle_failures


# ---- extras (round-3 lessons): extreme magnitudes ---------------------------------------------------------------------------------------

def extras(ctx):
    """the spectrum is homogeneous (fas(2^k a) == 2^k fas(a) bit for bit) and the dominant period does not depend on the scale of the
    record, also for records around 1e-180 / 1e+180 (squared magnitudes under/overflow there; |.| does not)"""
    import eqsig
    from eqsig import im
    from eqsig.fns import frequency as fq
    rng = ctx.rng
    for it in range(8 if ctx.tier == 'quick' else 80):
        n = rng.randint(4, 300)
        dt = rng.choice([0.01, 0.02, 0.005, 0.1])
        kind, a = gen.any_record(rng, n, dt)
        if not np.any(a):
            continue
        base_f = call_impl(lambda: fq.calc_fa_spectrum(eqsig.AccSignal(a, dt))[0])
        base_p = call_impl(im.max_fa_period, eqsig.AccSignal(a, dt))
        if base_f[0] != 'ok' or base_p[0] != 'ok':
            continue
        # the dominant bin must be unique by a margin, otherwise rounding may legitimately pick another one after rescaling
        mag = np.abs(np.asarray(base_f[1]))
        srt = np.sort(mag)
        unique_peak = len(srt) < 2 or srt[-1] > srt[-2] * (1 + 1e-9)
        for k in gen.EXTREME_POW2:
            sc = 2.0 ** k
            ctx.hist(f'extreme-scale/2^{k}')
            ctx.count_case(('extreme', a.tobytes(), dt, k), True)
            inputs = {'values': a, 'dt': dt, 'scale': f'2**{k}'}
            f2 = call_impl(lambda: fq.calc_fa_spectrum(ctx.aged(eqsig.AccSignal, a * sc, dt))[0])
            ok = f2[0] == 'ok' and gen.scaled_exactly(np.asarray(f2[1]).real, np.asarray(base_f[1]).real, sc) and \
                gen.scaled_exactly(np.asarray(f2[1]).imag, np.asarray(base_f[1]).imag, sc)
            ctx.oracle('C06 the spectrum is homogeneous: fas(2^k a) == 2^k fas(a) exactly, also at extreme scales', ok, inputs)
            if unique_peak:
                p2 = call_impl(im.max_fa_period, ctx.aged(eqsig.AccSignal, a * sc, dt))
                ctx.oracle('C06 the dominant period (largest-amplitude bin) does not depend on the scale of the record, also at extreme scales',
                           p2[0] == 'ok' and (p2[1] == base_p[1] or (np.isinf(p2[1]) and np.isinf(base_p[1]))), inputs, detail={'base': base_p[1], 'scaled': p2[1] if p2[0] == 'ok' else p2})


_run_main = run


def run(ctx):
    _run_main(ctx)
    extras(ctx)
    ctx.flush()


# ---- extras2 (harness extension hx_a): large instances, extreme time steps, containers / dtypes, histories ---------------------------------
#
# Not demanded: float32 records (np.fft transforms them in single precision: complex64 spectrum, 3e-7 off the float64 one -- compared at
# 1e-5 only); fns.frequency.calc_fourier_moment / get_bandwidth_boore_2003 (AttributeError: np.trapz is absent from the pinned NumPy).

def _x2_spectrum(v, dt, how, kw):
    """(spectrum, frequencies) through one public entry point on a FRESH object"""
    import eqsig
    from eqsig.fns import frequency as fq
    if how == 'Signal.gen':
        s = eqsig.Signal(v, dt)
        s.gen_fa_spectrum(**kw)
        return np.array(s.fa_spectrum), np.array(s.fa_frequencies)
    if how == 'AccSignal.gen':
        s = eqsig.AccSignal(v, dt)
        s.gen_fa_spectrum(**kw)
        return np.array(s.fa_spectrum), np.array(s.fa_freqs)
    if how == 'lazy':
        s = eqsig.AccSignal(v, dt)
        return np.array(s.fa_spectrum), np.array(s.fa_freqs)
    if how == 'generate':
        f, g = fq.generate_fa_spectrum(eqsig.Signal(v, dt), **kw)
        return np.array(f), np.array(g)
    f, g = fq.calc_fa_spectrum(eqsig.AccSignal(v, dt), **kw)
    return np.array(f), np.array(g)


def _x2_dft_bins(v, N, ks):
    """X_k = sum_j x_j exp(-2 pi i jk/N) of the record zero-padded / truncated to N, for a few bins, by the defining sum (O(len(v)) per bin;
    the phase index j*k is reduced mod N in integers first)"""
    x = np.asarray(v, dtype=float)[:N]
    j = np.arange(len(x), dtype=np.int64)
    out = []
    for k in ks:
        ph = ((j * int(k)) % N) * (2.0 * math.pi / N)
        out.append(complex(float(np.dot(x, np.cos(ph))), -float(np.dot(x, np.sin(ph)))))
    return out


def _x2_entries(mode, npts):
    if mode[0] == 'default':
        return [('calc', {'p2_plus': 0}), ('lazy', {}), ('Signal.gen', {}), ('generate', {'n_pad': True})]
    if mode[0] == 'p2':
        return [('calc', {'p2_plus': mode[1]}), ('AccSignal.gen', {'p2_plus': mode[1]})]
    if mode[0] == 'n':
        return [('calc', {'n': mode[1]}), ('Signal.gen', {'n': mode[1]})]
    return [('calc', {}), ('generate', {'n_pad': False}), ('AccSignal.gen', {'n': npts})]


def x2_large(ctx):
    """LARGE instances (records of 5 000 - 60 000 samples, transform lengths up to 2^17, odd and prime unpadded lengths): bins and grid for
    the stated N, values against the independent O(N) defining sum on a SUBSET of bins, agreement of the entry points (bit for bit), Parseval,
    trailing zeros, linearity, the inverse helper, the dominant period of an on-bin tone"""
    import eqsig
    from eqsig import im
    from eqsig.fns import frequency as fq
    rng = ctx.rng
    quick = ctx.tier == 'quick'
    cases = [(6000, ('default',)), (20001, ('unpadded',)), (40000, ('p2', 1))] if quick else \
        [(6000, ('default',)), (20001, ('unpadded',)), (40000, ('p2', 1)), (5003, ('unpadded',)), (8192, ('default',)), (8193, ('default',)), (60000, ('n', 60000)),
         (30000, ('n', 45001)), (16384, ('p2', 3)), (59999, ('unpadded',)), (12000, ('n', 10000))]
    # source hints: record lengths AND transform lengths around every new integer constant; time steps at / around every new float constant
    cases = cases + [(m, mode) for m in gen.hint_sizes(ctx, lo=4001, hi=300000, cap=5, halves=True) for mode in (('unpadded',), ('default',), ('n', m + 1))]
    for npts, mode in cases:
        dt = rng.choice([0.01, 0.005, 0.02, 0.0078125] + gen.hint_values(ctx, 1e-4, 2.0, cap=8, maps=(lambda c: c, lambda c: 1 / c)))
        N = expected_N(npts, mode)
        P = N // 2
        k0 = rng.randint(P // 2, P - 3) if N >= 2 ** 16 else rng.randint(P // 50 + 2, P - 3)      # the dominant tone sits in the upper half of the bins of the longest transforms
        j = np.arange(npts)
        v = 0.3 * gen.noise_record(rng, npts) + 2.0 * np.cos(2 * math.pi * k0 * j / N + rng.uniform(0, 2 * math.pi)) + rng.choice([0.0, 0.7])
        inputs = {'values': f'0.3 x gaussian noise + 2 cos(2 pi {k0} j / {N} + phase) + offset, npts={npts} (seed-derived)', 'dt': dt, 'mode': list(mode), 'N': N, 'head': v[:4]}
        ctx.hist(f'large/npts={npts} N={N}')
        ctx.count_case(('x2-large', npts, mode, dt, v[:16].tobytes()), True, sample={'fn': 'fa_spectrum (large instance)', 'npts': npts, 'dt': dt, 'mode': list(mode), 'N': N})
        snap = v.copy()
        res = [(how, kw, call_impl(_x2_spectrum, v, dt, how, kw)) for how, kw in _x2_entries(mode, npts)]
        if any(r[0] != 'ok' for _, _, r in res):
            ctx.oracle('C06 spectrum is returned on the domain (npts >= 2, N >= 1)', False, inputs, detail=[(h, r[0]) for h, _, r in res])
            continue
        fas, freqs = res[0][2][1]
        ctx.oracle('C06.d object-level and array-level functions agree (Signal/AccSignal/generate_fa_spectrum/calc_fa_spectrum) [large instance]',
                   all(np.array_equal(r[1][0], fas) and np.array_equal(r[1][1], freqs) for _, _, r in res[1:]), inputs, detail=[h for h, _, _ in res])
        ctx.oracle('C06.a spectrum and frequencies have floor(N/2) bins for the stated N [large instance]', fas.shape == (P,) and freqs.shape == (P,), inputs,
                   detail={'len_fas': len(fas), 'len_freqs': len(freqs)})
        if not (fas.shape == (P,) and freqs.shape == (P,)):
            continue
        want_f = np.arange(P) / (N * dt)
        ctx.oracle('C06.c frequencies are k/(N*dt), k = 0..N/2-1 [large instance]', bool(np.all(np.abs(freqs - want_f) <= 4 * 2.0 ** -53 * want_f)), inputs,
                   detail={'first_bad': int(np.argmax(np.abs(freqs - want_f) > 4 * 2.0 ** -53 * want_f))})
        ks = sorted(set([0, 1, 2, k0 - 1, k0, k0 + 1, P - 2, P - 1, P] + [rng.randrange(P) for _ in range(10)]))
        ks = [k for k in ks if 0 <= k < N]
        ref = dict(zip(ks, _x2_dft_bins(v, N, ks)))
        sc = max(float(np.max(np.abs(fas))), float(np.max(np.abs(v))) * dt)
        dev = max(abs(fas[k] - ref[k] * dt) for k in ks if k < P)
        ctx.gap('impl vs independent defining sum (large instances)', dev / sc)
        ctx.oracle('C06.b spectrum == dt * DFT of the record zero-padded/truncated to N (independent defining sum on a subset of bins) [large instance]', dev <= 1e-9 * sc,
                   inputs, detail={'bins': ks, 'gap_rel': dev / sc})
        xp = pad_to(v, N)
        if P in ref:
            Xk = fas / dt
            e_time = float(np.sum(xp ** 2)) * N
            tot = abs(Xk[0]) ** 2 + 2 * float(np.sum(np.abs(Xk[1:]) ** 2)) + (1 if N % 2 == 0 else 2) * abs(ref[P]) ** 2
            ctx.oracle("C06.f Parseval: sum_k |X_k|^2 == N * sum_j |x_j|^2 [large instance]", abs(tot - e_time) <= 1e-9 * e_time, inputs, detail={'freq_side': float(tot), 'time_side': e_time})
        # linearity, trailing zeros
        w = gen.noise_record(rng, npts)
        al, be = rng.choice([2.0, -3.0, 0.5]), rng.choice([1.0, -0.25])
        how0, kw0 = res[0][0], res[0][1]
        kwn = {'n': N}
        f_w = _x2_spectrum(w, dt, 'calc', kwn)[0]
        f_c = _x2_spectrum(al * v + be * w, dt, 'calc', kwn)[0]
        okl, g = close(f_c, al * fas + be * f_w, 1e-9, max(float(np.max(np.abs(f_c))), sc))
        ctx.oracle('C06.e spectrum is linear in the record [large instance]', okl, {**inputs, 'a': al, 'b': be}, detail={'gap_rel': g})
        room = next_pow2(npts) - npts if mode[0] in ('default', 'p2') else (N - npts if mode[0] == 'n' else 0)
        if room > 0:
            m = rng.randint(1, room)
            rz = call_impl(_x2_spectrum, np.concatenate([v, np.zeros(m)]), dt, how0, kw0)
            ctx.oracle('C06.e trailing zeros that do not change N change nothing [large instance]',
                       rz[0] == 'ok' and rz[1][0].shape == fas.shape and close(rz[1][0], fas, 1e-12, sc)[0] and np.array_equal(rz[1][1], freqs), {**inputs, 'zeros': m})
        # inverse helper
        fas_arg = np.array(fas)
        rf = call_impl(fq.fas2values, fas_arg, dt)
        ctx.oracle('C06.g fas2values leaves the spectrum it is given unchanged (bit for bit)', bool(np.array_equal(fas_arg, fas)), inputs)
        if rf[0] != 'ok':
            ctx.oracle('C06.g fas2values returns a series for a non-empty spectrum', False, inputs, detail=rf)
        else:
            s = np.asarray(rf[1])
            ctx.oracle('C06.g fas2values returns 2*len(fas) samples (= N for even N) [large instance]', len(s) == 2 * P, inputs, detail={'len': len(s)}, facts={'N': N, 'len': len(s)})
            if N % 2 == 0 and len(s) == N:
                alt = (-1.0) ** np.arange(N)
                want = xp - np.mean(xp) - alt * float(np.sum(alt * xp)) / N
                d = float(np.max(np.abs(s - want)))
                ctx.oracle('C06.g fas2values reconstructs the padded record minus its mean and Nyquist components [large instance]', d <= 1e-9 * float(np.max(np.abs(xp))), inputs,
                           detail={'max_dev': d}, facts={'N': N, 'len': len(s)})
            rs = call_impl(lambda: np.asarray(fq.fas2signal(np.array(fas), dt, stype=rng.choice(['signal', 'acc'])).values))
            ctx.oracle('C06.g fas2signal carries the same samples as fas2values', rs[0] == 'ok' and np.array_equal(rs[1], s), inputs)
        # dominant period: the on-bin tone (amplitude 2 against noise 0.3) dominates unless the offset bin does
        o = eqsig.AccSignal(v, dt)
        if mode[0] != 'default':
            _ = o.fa_spectrum_abs
            o.gen_fa_spectrum(**({'p2_plus': mode[1]} if mode[0] == 'p2' else {'n': N}))
        r = call_impl(im.max_fa_period, o)
        mod = np.abs(fas)
        i = int(np.argmax(mod))
        srt = np.sort(mod)
        if srt[-1] > srt[-2] * (1 + 1e-9):
            want = float('inf') if freqs[i] == 0 else 1.0 / float(freqs[i])
            ctx.oracle('C06.h max_fa_period == period of the largest-|amplitude| bin [large instance]', r[0] == 'ok' and (float(r[1]) == want or abs(float(r[1]) - want) <= 1e-12 * want),
                       inputs, detail={'got': r[1], 'want': want, 'bin': i}, facts={'bin': i})
        ctx.oracle('input array unchanged', bool(np.array_equal(v, snap)), inputs)


def x2_small(ctx):
    """extreme time steps; containers / dtypes; histories on one object"""
    import eqsig
    from eqsig import im
    from eqsig.fns import frequency as fq
    rng = ctx.rng
    for it in range(16 if ctx.tier == 'quick' else 160):
        npts = rng.randint(3, 150)
        dt = rng.choice([0.01, 0.02, 0.005, 0.1, 0.5])
        whole = it % 2 == 0
        v = gen.int_record(rng, npts) if whole else gen.dyadic_record(rng, npts)
        if not np.any(v):
            v[npts // 2] = 1.0
        mode = rng.choice([('default',), ('p2', rng.randint(0, 3)), ('n', rng.randint(2, 2 * npts)), ('unpadded',)])
        kw = {'default': {'p2_plus': 0}, 'p2': {'p2_plus': mode[-1]}, 'n': {'n': mode[-1]}, 'unpadded': {}}[mode[0]]
        base = call_impl(_x2_spectrum, v, dt, 'calc', kw)
        inputs = {'values': v, 'dt': dt, 'mode': list(mode)}
        ctx.count_case(('x2-small', v.tobytes(), dt, mode), True)
        if base[0] != 'ok' or len(base[1][0]) == 0:
            continue
        fas, freqs = base[1]
        mod = np.sort(np.abs(fas))
        unique_peak = len(mod) < 2 or mod[-1] > mod[-2] * (1 + 1e-9)
        p0 = call_impl(im.max_fa_period, eqsig.AccSignal(v, dt))
        s0 = call_impl(fq.fas2values, np.array(fas), dt)
        # (a) the spectrum is dt x DFT, the grid k/(N dt): a power-of-two rescaling of dt rescales them exactly, also for extreme steps
        for j in (-300, 300, -40, 40):
            k = 2.0 ** j
            ctx.hist(f'extreme-dt/2^{j}')
            r = call_impl(_x2_spectrum, v, dt * k, 'calc', kw)
            ok = r[0] == 'ok' and gen.scaled_exactly(r[1][0].real, fas.real, k) and gen.scaled_exactly(r[1][0].imag, fas.imag, k) and gen.scaled_exactly(r[1][1], freqs, 1 / k)
            ctx.oracle('C06 fas(a, 2^j dt) == 2^j fas(a, dt) and the frequencies scale by 2^-j, exactly, also for extreme time steps', ok, {**inputs, 'dt_scale': f'2**{j}'})
            if unique_peak and mode[0] == 'default' and p0[0] == 'ok':
                p = call_impl(im.max_fa_period, ctx.aged(eqsig.AccSignal, v, dt * k))
                ctx.oracle('C06.h the dominant period scales exactly with the time step, also for extreme steps', p[0] == 'ok' and (float(p[1]) == float(p0[1]) * k), {**inputs, 'dt_scale': f'2**{j}'},
                           detail={'base': p0[1], 'scaled': p[1]})
            if r[0] == 'ok' and s0[0] == 'ok':
                s = call_impl(fq.fas2values, np.array(r[1][0]), dt * k)
                ctx.oracle('C06.g the inverse helper does not depend on a joint power-of-two rescaling of spectrum and time step (==)', s[0] == 'ok' and np.array_equal(s[1], s0[1]),
                           {**inputs, 'dt_scale': f'2**{j}'})
        # (b) containers / dtypes of the record
        variants = [(lab, c, v) for lab, c in gen.container_variants(v)]
        if whole:
            variants += gen.narrow_int_variants(v)
        for lab, c, fl in variants:
            ctx.hist('record container=' + lab)
            want = base if fl is v else call_impl(_x2_spectrum, fl, dt, 'calc', kw)
            for how, kw2 in (('calc', kw), ('lazy', {}) if mode[0] == 'default' else ('Signal.gen', {'n': len(v)} if mode[0] == 'unpadded' else kw)):
                r = call_impl(_x2_spectrum, c, dt, how, kw2)
                if lab == 'float32':
                    ok = r[0] == want[0] == 'ok' and r[1][0].shape == want[1][0].shape and bool(np.all(np.abs(r[1][0] - want[1][0]) <= 1e-5 * max(float(np.max(np.abs(want[1][0]))), 1e-300))) \
                        and np.array_equal(r[1][1], want[1][1])
                else:
                    ok = r[0] == want[0] == 'ok' and np.array_equal(r[1][0], want[1][0]) and np.array_equal(r[1][1], want[1][1])
                ctx.oracle('C06 a record given as list / tuple / integer (any width) / strided ndarray (==) or float32 (1e-5) has the spectrum and grid of the same numbers in float64', ok,
                           {'values': fl, 'dt': dt, 'mode': list(mode), 'container': lab, 'entry': how}, detail=None if r[0] == 'ok' else r)
        if s0[0] == 'ok':
            for lab, fc in (('list', list(fas)), ('tuple', tuple(fas)), ('strided', np.repeat(fas, 2)[::2])):
                s = call_impl(fq.fas2values, fc, dt)
                ctx.oracle('C06.g fas2values accepts the spectrum as list / tuple / strided array and returns the same samples (==)', s[0] == 'ok' and np.array_equal(s[1], s0[1]),
                           {'fas': fas, 'dt': dt, 'container': lab}, detail=None if s[0] == 'ok' else s)
        # (c) history on one object: explicit regenerations that share some but not all of (p2_plus, n), reads in between, record replaced
        o = eqsig.AccSignal(v.copy(), dt) if rng.random() < 0.5 else eqsig.Signal(v.copy(), dt)
        cur = v.copy()
        cur_kw = {'p2_plus': 0}
        held, hist = [], []
        for step in range(rng.randint(3, 6)):
            op = rng.choice(['gen(same)', 'gen(p2_plus)', 'gen(n)', 'gen(n, p2_plus)', 'generate_fa_spectrum()', 'read', 'reset_values', 'reset_values(other length)', 'add_constant'])
            if op == 'gen(p2_plus)':
                cur_kw = {'p2_plus': rng.randint(0, 3)}
            elif op == 'gen(n)':
                cur_kw = {'n': rng.choice([len(cur), len(cur) + 1, 2 * len(cur) + 1, max(2, len(cur) - 1), 64])}
            elif op == 'gen(n, p2_plus)':
                cur_kw = {'n': cur_kw.get('n', len(cur) + 3), 'p2_plus': rng.randint(1, 2)}
            if op.startswith('gen('):
                o.gen_fa_spectrum(**cur_kw)
            elif op == 'generate_fa_spectrum()':
                cur_kw = {'p2_plus': 0}
                o.generate_fa_spectrum()
            elif op == 'reset_values':
                cur = cur[::-1] * 2.0
                o.reset_values(cur.copy())
                cur_kw = {'p2_plus': 0}
            elif op == 'reset_values(other length)':
                cur = gen.dyadic_record(rng, rng.randint(3, 150))
                o.reset_values(cur.copy())
                cur_kw = {'p2_plus': 0}
            elif op == 'add_constant':
                o.add_constant(0.5)
                cur = cur + 0.5
                cur_kw = {'p2_plus': 0}
            hist.append(op if not op.startswith('gen(') else f'gen_fa_spectrum({cur_kw})')
            want = _x2_spectrum(cur, dt, 'calc', {'n': cur_kw['n']} if 'n' in cur_kw else cur_kw)
            got = call_impl(lambda: (o.fa_spectrum, o.fa_frequencies, o.fa_spectrum_abs, o.fa_freqs))
            ok = got[0] == 'ok' and np.array_equal(got[1][0], want[0]) and np.array_equal(got[1][1], want[1]) and np.array_equal(got[1][2], np.abs(want[0])) and np.array_equal(got[1][3], want[1])
            ctx.hist('spectrum-history/' + op)
            ctx.oracle('C06.d after any history (regenerations with other / the same padding, reads, record changes) the object reports the spectrum and grid of its CURRENT record '
                       'for the LAST requested padding (default padding after a record change) (==)', ok, {'start values': v, 'dt': dt, 'history': list(hist), 'class': type(o).__name__},
                       detail=None if got[0] != 'ok' else {'len': len(got[1][0]), 'want_len': len(want[0])}, facts={'history': list(hist)})
            ctx.oracle('C06 spectra / grids read from an object earlier are not overwritten by later regenerations', all(np.array_equal(x, cp) for x, cp in held),
                       {'start values': v, 'dt': dt, 'history': list(hist)}, facts={'history': list(hist)})
            if got[0] == 'ok':
                held.extend((x, np.array(x, copy=True)) for x in got[1])


def extras2(ctx):
    x2_large(ctx)
    x2_small(ctx)


_run_main2 = run


def run(ctx):
    _run_main2(ctx)
    extras2(ctx)
    import _freq2
    _freq2.corr_freq2_c06(ctx)     # Fourier moments, Boore bandwidth, fas2signal: Model/FreqMoments (regenerated: Gen/FreqMoments) vs impl
    ctx.flush()


# evidence: how the model is tied to the source on every run (as built, supersedes the value above)
TIE = 'translator (padded length, bins, grid, scaling, inverse helper, dominant period -> Gen/FreqGrid; Props/C06Gen) + correspondence (Float twin of the O(N^2) DFT)'


# ---- round 8: the array-level functions on an object whose OWN spectrum was generated with another transform length -----------------------------
# (seeds C05-r8-1, C06-r8-1: reuse of the object's cached spectrum / grid whenever the number of bins int(N/2) agrees: N = 2k and 2k+1 collide)

def _x4_foreign_cache(ctx, clause=None):
    import eqsig
    from eqsig.fns import frequency as fq
    rng = ctx.rng

    def same(r1, r2):
        if r1[0] != r2[0]:
            return False
        if r1[0] != 'ok':
            return r1[1] == r2[1]
        return all(np.array_equal(np.asarray(x), np.asarray(y)) for x, y in zip(r1[1], r2[1]))
    for it in range(24 if ctx.tier == 'quick' else 240):
        n = rng.choice([6, 12, 40, 63, 64, 100, 257])
        dt = rng.choice([0.01, 0.02, 0.125, 0.005])
        a = gen.any_record(rng, n, dt)[1] + rng.choice([0.0, 0.75])
        cls = eqsig.AccSignal if it % 2 else eqsig.Signal
        N0 = 2 ** int(math.ceil(math.log2(n)))
        own = rng.choice([{'n': N0 + 1}, {'n': N0 - 1}, {'n': 2 * N0 + 1}, {'p2_plus': 1}, {'n': n}, {'n': n + 1}, {'n': n - 1 if n > 3 else n + 3}])
        calls = [('calc_fa_spectrum(sig)', lambda s: fq.calc_fa_spectrum(s)), ('generate_fa_spectrum(sig)', lambda s: fq.generate_fa_spectrum(s)),
                 ('generate_fa_spectrum(sig, n_pad=False)', lambda s: fq.generate_fa_spectrum(s, n_pad=False)),
                 ('calc_fa_spectrum(sig, n=N0)', lambda s: fq.calc_fa_spectrum(s, n=N0)), ('calc_fa_spectrum(sig, n=N0+1)', lambda s: fq.calc_fa_spectrum(s, n=N0 + 1)),
                 ('calc_fa_spectrum(sig, p2_plus=1)', lambda s: fq.calc_fa_spectrum(s, p2_plus=1)), ('calc_fa_spectrum(sig, n=npts)', lambda s: fq.calc_fa_spectrum(s, n=n))]
        s = cls(a, dt)
        g = call_impl(lambda: s.gen_fa_spectrum(**own))
        if g[0] != 'ok':
            continue
        _ = s.fa_spectrum, s.fa_frequencies
        for nm, f in rng.sample(calls, 4):
            got = call_impl(f, s)
            want = call_impl(f, cls(a, dt))
            ctx.hist('foreign cache/' + ('n' if 'n' in own else 'p2_plus'))
            ctx.count_case(('fc', a.tobytes(), dt, str(own), nm), True)
            ctx.oracle(clause or 'C06.e array-level spectrum of a signal object == that of a fresh object with the same record, whatever transform length the object '
                       'used for its own spectrum before (bit for bit)', same(got, want),
                       {'values': a, 'dt': dt, 'class': cls.__name__, 'own_spectrum_generated_with': own, 'call': nm},
                       detail=None if same(got, want) else {'got': got[0], 'want': want[0]})
    ctx.flush()


_run_main_fc = run


def run(ctx):
    _run_main_fc(ctx)
    _x4_foreign_cache(ctx)
    ctx.flush()


# ---- round 9 (hx_r9b): arrays obtained from the object's OWN getters handed back as arguments to its own methods ---------------------------------
# (seed C06-r9-2: a guard in gen_smooth_fa_spectrum that "repairs" non-positive targets in place -- the targets were the object's cached
# frequency array). Twin construction: object A is fed the very arrays its getters return, object B (same record) is fed COPIES of what ITS getters
# return. Afterwards every public reading of A equals that of B bit for bit (NaN == NaN), arrays read from A before the call still hold what they
# held, and the Fourier grid of A is k/(N dt) with entry 0 == 0.
def _x9_ops(is_acc):
    from eqsig.fns import frequency as fq
    own = lambda name, sl=None: (lambda o: getattr(o, name) if sl is None else getattr(o, name)[sl])   # the very object the getter returns / a view of it
    ops = [('gen_smooth_fa_spectrum(smooth_fa_freqs=self.%s)' % g, own(g), lambda o, x: o.gen_smooth_fa_spectrum(smooth_fa_freqs=x, band=40))
           for g in ('fa_freqs', 'fa_frequencies', 'smooth_fa_frequencies', 'smooth_fa_freqs')]
    ops += [('gen_smooth_fa_spectrum(smooth_fa_freqs=self.fa_freqs[1:])', own('fa_freqs', slice(1, None)), lambda o, x: o.gen_smooth_fa_spectrum(smooth_fa_freqs=x, band=20)),
            ('gen_smooth_fa_spectrum(smooth_fa_freqs=self.time)', own('time'), lambda o, x: o.gen_smooth_fa_spectrum(smooth_fa_freqs=x)),
            ('smooth_fa_frequencies = self.fa_frequencies', own('fa_frequencies'), lambda o, x: setattr(o, 'smooth_fa_frequencies', x)),
            ('smooth_fa_freqs = self.fa_freqs[1:]', own('fa_freqs', slice(1, None)), lambda o, x: setattr(o, 'smooth_fa_freqs', x)),
            ('smooth_fa_freqs = self.smooth_fa_frequencies', own('smooth_fa_frequencies'), lambda o, x: setattr(o, 'smooth_fa_freqs', x)),
            ('reset_values(self.values)', own('values'), lambda o, x: o.reset_values(x)),
            ('reset_values(self.time)', own('time'), lambda o, x: o.reset_values(x)),
            ('add_series(self.values)', own('values'), lambda o, x: o.add_series(x)),
            ('add_series(self.time)', own('time'), lambda o, x: o.add_series(x)),
            ('calc_smooth_fa_spectrum(self.fa_freqs, self.fa_spectrum, self.fa_freqs)', own('fa_freqs'), lambda o, x: fq.calc_smooth_fa_spectrum(x, o.fa_spectrum, x)),
            ('calc_smoothing_matrix_konno_1998(self.fa_freqs, self.fa_freqs)', own('fa_freqs'), lambda o, x: fq.calc_smoothing_matrix_konno_1998(x, x)),
            ('gen_fa_spectrum(n=len(self.fa_freqs) * 2 + 1)', own('fa_freqs'), lambda o, x: o.gen_fa_spectrum(n=2 * len(x) + 1))]
    if is_acc:
        ops += [('gen_response_spectrum(response_times=self.response_times)', own('response_times'), lambda o, x: o.gen_response_spectrum(response_times=x)),
                ('response_times = self.response_times', own('response_times'), lambda o, x: setattr(o, 'response_times', x)),
                ('gen_response_spectrum(response_times=self.time[1:6])', own('time', slice(1, 6)), lambda o, x: o.gen_response_spectrum(response_times=x)),
                ('gen_response_spectrum(response_times=self.fa_freqs[1:5])', own('fa_freqs', slice(1, 5)), lambda o, x: o.gen_response_spectrum(response_times=x)),
                ('gen_smooth_fa_spectrum(smooth_fa_freqs=self.response_times)', own('response_times'), lambda o, x: o.gen_smooth_fa_spectrum(smooth_fa_freqs=x))]
    return ops


def _x9_readings(o, is_acc):
    from eqsig import im
    names = ['values', 'npts', 'dt', 'time', 'fa_frequencies', 'fa_freqs', 'fa_spectrum', 'smooth_fa_frequencies', 'smooth_fa_freqs', 'smooth_fa_spectrum']
    if is_acc:
        names += ['response_times', 's_a', 's_d']
    out = {nm: call_impl(lambda nm=nm: np.array(getattr(o, nm))) for nm in names}
    out['im.max_fa_period'] = call_impl(im.max_fa_period, o)
    return out


def _x9_same(r1, r2):
    if r1[0] != r2[0]:
        return False
    if r1[0] != 'ok':
        return r1[1] == r2[1]
    a, b = np.asarray(r1[1]), np.asarray(r2[1])
    return a.shape == b.shape and a.dtype == b.dtype and bool(np.array_equal(a, b, equal_nan=a.dtype.kind in 'fc'))


def _x9_own_arrays(ctx):
    import warnings
    import eqsig
    rng = ctx.rng
    for it in range(30 if ctx.tier == 'quick' else 300):
        is_acc = it % 3 != 0
        cls = eqsig.AccSignal if is_acc else eqsig.Signal
        n = rng.choice([6, 11, 16, 23, 40, 64])
        dt = rng.choice([0.01, 0.02, 0.125, 0.005])
        v = gen.any_record(rng, n, dt)[1] + rng.choice([0.0, 2.5, 0.75])         # a positive mean makes bin 0 the dominant one
        ops = _x9_ops(is_acc)
        word = [rng.randrange(len(ops)) for _ in range(rng.choice([1, 1, 2, 3]))]
        if it < len(ops):
            word[0] = it % len(ops)                                               # every operation leads a word at least once
        kw = {'response_times': np.array([0.1, 0.2, 0.5, 1.0, 2.0])} if is_acc else {}
        A, B = cls(v.copy(), dt, **kw), cls(v.copy(), dt, **{k: x.copy() for k, x in kw.items()})
        warm = rng.choice(['cold', 'fa', 'fa+smooth'])
        with warnings.catch_warnings(), np.errstate(all='ignore'):
            warnings.simplefilter('ignore')
            for o in (A, B):
                if warm != 'cold':
                    _ = o.fa_spectrum
                if warm == 'fa+smooth':
                    _ = o.smooth_fa_spectrum
            held_ok, status = True, []
            for k in word:
                nm, getter, act = ops[k]
                xa = call_impl(getter, A)
                xb = call_impl(getter, B)
                if xa[0] != 'ok' or xb[0] != 'ok':
                    status.append((nm, 'getter: ' + xa[0]))
                    continue
                snap = np.array(xa[1])
                ra = call_impl(act, A, xa[1])
                rb = call_impl(act, B, np.array(xb[1]).copy())
                status.append((nm, ra[0] if ra[0] == 'ok' else ra[1], rb[0] if rb[0] == 'ok' else rb[1]))
                held_ok = held_ok and _x9_same(('ok', snap), ('ok', np.array(xa[1])))
            ra, rb = _x9_readings(A, is_acc), _x9_readings(B, is_acc)
            N = 2 * len(np.asarray(rb['fa_freqs'][1])) if rb['fa_freqs'][0] == 'ok' else None
        names = [ops[k][0] for k in word]
        inputs = {'values': v, 'dt': dt, 'class': cls.__name__, 'state_before': warm, 'operations (self = the object itself)': names}
        ctx.hist('own arrays/' + names[0].split('(')[0].split(' =')[0])
        ctx.count_case(('x9', v.tobytes(), dt, tuple(names), warm), True)
        ctx.oracle('C06 an array read from the object before it was handed back to one of its methods still holds what it held', held_ok, inputs, detail=status)
        for nm in ra:
            ctx.oracle('C06 handing an object the arrays its own getters return == handing it copies of them: every reading afterwards agrees bit for bit (%s)' % nm,
                       _x9_same(ra[nm], rb[nm]), inputs, detail=None if _x9_same(ra[nm], rb[nm]) else {'own arrays': ra[nm], 'copies': rb[nm], 'status': status})
        if ra['fa_freqs'][0] == 'ok' and 'gen_fa_spectrum(n=len(self.fa_freqs) * 2 + 1)' not in names:
            f = np.asarray(ra['fa_freqs'][1], dtype=float)
            ctx.oracle('C06.b frequencies are k/(N dt), entry 0 is 0 (after the object was handed its own arrays)',
                       len(f) > 0 and f[0] == 0 and bool(np.allclose(f, np.arange(len(f)) / (2 * len(f) * dt), rtol=1e-12, atol=0)), inputs,
                       detail={'got': f[:4], 'status': status})
    ctx.flush()


_run_main_x9 = run


def run(ctx):
    from core import no_probe
    _run_main_x9(ctx)
    with no_probe():          # twin construction: a memo probe would precede the calls on A and on B with DIFFERENT extra calls (the pinned
        _x9_own_arrays(ctx)   # gen_fa_spectrum keeps a smoothed spectrum cached by such an extra call: not a matter of this family)
    ctx.flush()


# ---- round 9 (hx_r9b): mutators that take ANOTHER signal object (add_signal), both objects in every cache state ---------------------------------
# (seed C06-r9-1: add_signal sums the two cached spectra when both are warm and have the default number of points -- the operand's spectrum had been
# generated with n = N + 1: same number of one-sided points, another transform length.) Receiver and operand each: cold / default spectrum read /
# gen_fa_spectrum(n = N+1 | N-1 | 2N | 2N+1 | npts | npts+1) / p2_plus = 1 / warm then changed by add_constant; Signal and AccSignal mixed; the operand is
# the receiver itself in a share of the cases. Afterwards a plain read of the receiver's spectrum == dt * DFT of the sum padded to the default N
# (defining sum, 1e-9) and == the reading of a fresh object holding the sum (1e-9; grid exactly); the operand still reports its own record and grid.
def _x9_cache_state(rng, o, N0):
    how = rng.choice(['cold', 'read', 'n=N+1', 'n=N+1', 'n=N-1', 'n=2N', 'n=2N+1', 'n=npts', 'n=npts+1', 'p2_plus=1', 'read+add_constant', 'read+smooth'])
    n = {'n=N+1': N0 + 1, 'n=N-1': max(N0 - 1, 2), 'n=2N': 2 * N0, 'n=2N+1': 2 * N0 + 1, 'n=npts': o.npts, 'n=npts+1': o.npts + 1}.get(how)
    if n is not None:
        o.gen_fa_spectrum(n=n)
    elif how == 'p2_plus=1':
        o.gen_fa_spectrum(p2_plus=1)
    elif how != 'cold':
        _ = o.fa_spectrum, o.fa_frequencies
        if how == 'read+add_constant':
            o.add_constant(0.5)
        if how == 'read+smooth':
            _ = o.smooth_fa_spectrum
    if how != 'cold' and rng.random() < 0.5:
        _ = o.fa_spectrum
    return how


def _x9_add_signal(ctx):
    import warnings
    import eqsig
    rng = ctx.rng
    for it in range(40 if ctx.tier == 'quick' else 400):
        n = rng.choice([6, 8, 11, 16, 23, 40, 63, 64, 100])
        dt = rng.choice([0.01, 0.02, 0.5, 0.005])
        a = gen.any_record(rng, n, dt)[1] + rng.choice([0.0, 0.75])
        b = gen.any_record(rng, n, dt)[1] if it % 4 else gen.dyadic_record(rng, n)
        N0 = 2 ** int(math.ceil(math.log2(n)))
        c1, c2 = (rng.choice([eqsig.Signal, eqsig.AccSignal]) for _ in range(2))
        with warnings.catch_warnings(), np.errstate(all='ignore'):
            warnings.simplefilter('ignore')
            s, o = c1(a.copy(), dt), c2(b.copy(), dt)
            selfadd = it % 10 == 9
            hs = _x9_cache_state(rng, s, N0)
            ho = hs if selfadd else _x9_cache_state(rng, o, N0)
            if selfadd:
                o = s
            vo = np.array(o.values, dtype=float)
            total = np.array(s.values, dtype=float) + vo
            kw_o = None
            if o._cached_fa if hasattr(o, '_cached_fa') else False:
                kw_o = (np.array(o.fa_frequencies), np.array(o.fa_spectrum))
            r = call_impl(s.add_signal, o)
            got_v = np.array(s.values, dtype=float)
            got = call_impl(lambda: (np.array(s.fa_spectrum), np.array(s.fa_frequencies)))
            fresh = c1(total.copy(), dt)
            want = (np.array(fresh.fa_spectrum), np.array(fresh.fa_frequencies))
        inputs = {'values': a, 'other_values': b, 'dt': dt, 'class': c1.__name__, 'other_class': c2.__name__, 'receiver_cache': hs,
                  'operand_cache': ho, 'operand_is_receiver': selfadd}
        ctx.hist('add_signal/receiver=' + hs.split('=')[0])
        ctx.hist('add_signal/operand=' + ho.split('=')[0])
        ctx.count_case(('x9-add', a.tobytes(), b.tobytes(), dt, hs, ho, selfadd), True)
        ctx.oracle('C06 add_signal returns and the record becomes the sum', r[0] == 'ok' and np.array_equal(got_v, total), inputs, detail=r)
        if r[0] != 'ok' or got[0] != 'ok':
            ctx.oracle('C06.a the spectrum can be read after add_signal', got[0] == 'ok', inputs, detail=got)
            continue
        S, F = got[1]
        ks = list(range(N0 // 2))
        X = dt * ind_dft_rows(total, N0, ks)
        scale = dt * float(np.sum(np.abs(total))) or 1.0
        okc, g = close(S, X, 1e-9, scale)
        ctx.oracle('C06.a after add_signal a plain read of the spectrum == dt * DFT of the summed record zero-padded to the default N (whatever spectra the two '
                   'objects held before)', okc, inputs, detail={'bins': len(S), 'expected bins': N0 // 2, 'rel gap': g})
        ctx.oracle('C06.b after add_signal the frequencies are k/(N dt) of the default N', F.shape == (N0 // 2,) and bool(np.allclose(F, np.arange(N0 // 2) / (N0 * dt), rtol=1e-12, atol=0)),
                   inputs, detail={'got': F[:4]})
        ctx.oracle('C06 after add_signal the spectrum and grid == those of a fresh object holding the sum (grid exactly, spectrum within 1e-9 of sum|x| dt: '
                   'summing two spectra instead of transforming the sum would be legitimate where it is exact up to rounding)',
                   S.shape == want[0].shape and close(S, want[0], 1e-9, scale)[0] and np.array_equal(F, want[1]), inputs,
                   detail={'max gap': float(np.max(np.abs(S - want[0]))) if S.shape == want[0].shape else None})
        if not selfadd:
            ok_o = np.array_equal(np.array(o.values, dtype=float), vo)
            if kw_o is not None:
                ok_o = ok_o and np.array_equal(np.array(o.fa_frequencies), kw_o[0]) and np.array_equal(np.array(o.fa_spectrum), kw_o[1])
            ctx.oracle('C06 add_signal leaves the operand (record, spectrum, grid) as it was', ok_o, inputs)
    ctx.flush()


_run_main_x9b = run


def run(ctx):
    from core import no_probe
    _run_main_x9b(ctx)
    with no_probe():          # the cache states of receiver and operand ARE the generated input here
        _x9_add_signal(ctx)
    ctx.flush()
