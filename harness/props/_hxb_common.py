"""helpers shared by the extras2 blocks (harness extension hx_b) of c11.py ... c20.py"""
import traceback

import numpy as np


def guarded_sections(ctx, prop, sections):
    """run each (name, fn(ctx, cur)) of an extras2 block. On the unchanged library no call of these blocks raises (checked for many
    seeds); an exception escaping a section therefore means that a call on an in-domain input raised or returned something of another
    shape than documented. It is reported as a failed oracle with the inputs of the case being evaluated (`cur`, which each section keeps
    up to date) instead of aborting the run as an infrastructure error -- that would hide the verdicts collected so far."""
    for name, fn in sections:
        cur = {}
        try:
            fn(ctx, cur)
        except Exception:  # noqa
            ctx.oracle('%s (extras2/%s) every call on an in-domain input returns a value of the documented shape (no exception)' % (prop, name), False,
                       dict(cur), detail=traceback.format_exc(limit=6))
        ctx.last_object_history = None


def same(x, y):
    """same shape and element-wise equal (None / error results are never equal to anything)"""
    if x is None or y is None:
        return False
    try:
        x, y = np.asarray(x), np.asarray(y)
        return x.shape == y.shape and bool(np.all(x == y))
    except Exception:  # noqa
        return False


def close(x, y, rtol=1e-9, atol=0.0):
    if x is None or y is None:
        return False
    try:
        x, y = np.asarray(x, dtype=float), np.asarray(y, dtype=float)
        return x.shape == y.shape and bool(np.allclose(x, y, rtol=rtol, atol=atol))
    except Exception:  # noqa
        return False


def light_history(ctx, cls, values, dt, **kw):
    """like Ctx.aged but without filling the (expensive) spectral caches: a fresh object, or one built on a record of another / the same
    length and then reset to `values`"""
    rng = ctx.rng
    kind = rng.choice(['fresh', 'reset-other-length', 'reset-same-length', 'reset-shorter'])
    ctx.hist('object-history(light)/' + kind)
    ctx.last_object_history = kind
    values = np.array(values, dtype=float)
    n = len(values)
    if kind == 'fresh':
        return cls(values, dt, **kw)
    m = n + rng.randint(1, 9) if kind == 'reset-other-length' else n if kind == 'reset-same-length' else max(2, n - rng.randint(1, max(1, n // 2)))
    base = [rng.uniform(-1, 1) for _ in range(min(m, 50))]
    s = cls(np.array(base * (m // len(base) + 1))[:m], dt, **kw)
    s.npts
    s.time
    s.reset_values(values)
    return s


def np_spec_peaks(a):
    """C11's definition of the reported indices with NumPy comparisons only (no products, no tolerances), O(n): index 0, the first sample of
    every plateau that is a strict local extremum, the first sample of the final constant run"""
    a = np.asarray(a, dtype=float)
    idx = np.concatenate(([0], np.nonzero(a[1:] != a[:-1])[0] + 1))      # first sample of every plateau
    c = a[idx]
    up = c[1:] > c[:-1]                                                   # direction of every move between plateaus (never flat)
    turn = np.nonzero(up[1:] != up[:-1])[0] + 1
    return np.concatenate(([idx[0]], idx[turn], [idx[-1]])) if len(idx) > 1 else idx[:1]


def val(res):
    """value of a call_impl result, None for an error outcome"""
    return res[1] if res[0] == 'ok' else None
