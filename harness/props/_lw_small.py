"""Round-7 additions of sub-agent lw_small: correspondence + oracles for the new executable definitions / theorems
(Props/C20DirRule, C19RedShapes, C09CavDpPanels, C10ZeroPrefix, C12TolSublist).

Each `corr_<area>(ctx)` is self-contained: call it from `run(ctx)` of the property module named in its doc string
(before the final `ctx.flush()`); it queues `ctx.corr` cases for the new driver handlers of `Handlers/LwSmall.lean`
(`step_dir_split`, `fl64`, `cavdp_window_f`, `switched_tol_conds`) and evaluates the new theorems as oracles on the real code.
All inputs are exact (small integers / dyadics), comparisons are `==`.
"""
from fractions import Fraction

import numpy as np

from core import call_impl, cmp_exact, fr, p_ints, p_rats, w_bool, w_rat, w_rats


# ----------------------------------------------------------------------------------------------------------------------
# C20: the `dir` rule of the step fit            (harness/props/c20.py)
# ----------------------------------------------------------------------------------------------------------------------
def corr_step_dir(ctx):
    """C20: `np.argmin(calc_step_fn_vals_error(values, pow, dir))` == model `dirSplit` (handler `step_dir_split`), and the
    statement of `step_dir_split` evaluated on the implementation (excluded splits, first minimiser among the others)."""
    from eqsig.fns.average import calc_step_fn_vals_error, calc_step_fn_steps_vals
    rng = ctx.rng
    n_cases = 60 if ctx.tier == 'quick' else 600
    corpus = [[1], [2, 2], [1, 2], [2, 1], [-1, -2, -3, 4, 5, 6], [6, 5, 4, -3, 7, -1], [0, 0, 0], [1, 3, 2, 0], [2, 2, 0, 1],
              [3, -1, 3, -1, 3], [-3, -5, -2, 3, -5], [0, 2, 1], []]
    cases = [[840 * x for x in c] for c in corpus]          # 840 = lcm(1..8): every prefix / suffix mean is an integer
    for _ in range(n_cases):
        n = rng.randint(1, 8)
        cases.append([840 * rng.randint(-8, 8) for _ in range(n)])
    for v in cases:
        arr = np.array(v, dtype=float)
        for p in (1, 2, 3):
            for d in (None, 'up', 'down'):
                ctx.count_case(('step_dir', tuple(v), p, d), len(set(v)) > 1)
                ctx.hist(f'step_dir/dir={d}')
                res = call_impl(lambda a, p=p, d=d: int(np.argmin(calc_step_fn_vals_error(a, pow=p, dir=d))), arr)
                inputs = {'values': v, 'pow': p, 'dir': d}
                ctx.corr('argmin(calc_step_fn_vals_error(dir))', f"step_dir_split|{w_rats(v)}|{p}|{d or 'none'}", res,
                         lambda outs, val: cmp_exact([int(val)], p_ints(outs[0])), inputs=inputs)
                if res[0] != 'ok':
                    continue
                k = res[1]
                n = len(v)
                fv = [fr(x) for x in v]
                mean = lambda l: sum(l) / len(l)
                absdev = lambda l: sum(abs(x - mean(l)) ** p for x in l) if l else Fraction(0)
                E = [absdev(fv[:j + 1]) + absdev(fv[j + 1:]) for j in range(n)]
                if d == 'down':
                    ex = [mean(fv[:j + 1]) < mean(fv[j:]) for j in range(n)]
                elif d == 'up':
                    ex = [mean(fv[:j + 1]) > mean(fv[j:]) for j in range(n)]
                else:
                    ex = [False] * n
                if all(ex):
                    ok = (k == 0)
                else:
                    free = [j for j in range(n) if not ex[j]]
                    best = min(E[j] for j in free)
                    ok = (not ex[k]) and k == min(j for j in free if E[j] == best)
                ctx.oracle('C20.e dir rule: selected split = 0 if every split is excluded, else the first minimiser of the step-fit error '
                           'among the splits whose (split-sample-inclusive) means are not in the excluded order', ok, inputs,
                           detail={'selected': k, 'excluded': ex, 'errors': [str(e) for e in E]})
                lv = call_impl(calc_step_fn_steps_vals, arr, ind=k)
                if lv[0] == 'ok':
                    pre, post = lv[1]
                    okl = ((k == 0 and np.isnan(pre)) or (k > 0 and fr(pre) == mean(fv[:k]))) and \
                          ((k == n - 1 and np.isnan(post)) or (k < n - 1 and fr(post) == mean(fv[k + 1:])))
                    ctx.oracle('C20.e levels at the selected split = means strictly before / after the split sample', okl, inputs)
    ctx.flush()


# ----------------------------------------------------------------------------------------------------------------------
# C19: reduction shapes                           (harness/props/c19.py)
# ----------------------------------------------------------------------------------------------------------------------
def corr_red_shapes(ctx):
    """C19: array reductions of every length 0..m+2 (existing handlers `surface_energy`, `cum_abs_surface_energy`,
    `time_shift_motions`): legal shapes == result for the written-out broadcast reductions, illegal shapes -> ValueError,
    empty up_red with m = 1 = len(down_red) -> IndexError (theorems `reductions_broadcast`, `reductions_illegal_raise`)."""
    import eqsig
    from eqsig import surface as sf
    rng = ctx.rng
    fns = (('calc_surface_energy', sf.calc_surface_energy, 'surface_energy'),
           ('get_time_shift_motions', sf.get_time_shift_motions, 'time_shift_motions'),
           ('calc_cum_abs_surface_energy', sf.calc_cum_abs_surface_energy, 'cum_abs_surface_energy'))
    vals_pool = [[1., 2., -1., 3.], [1.0], [2., -3., 0.5, 4., 1., -2.]]
    tts_pool = [[0.25], [0.5, 1.5], [0.125, 0.25, 0.5], [0.0], [0.5, 0.5]]
    pick = lambda: rng.choice([1.0, 0.5, 2.0, -1.0, 0.75, 0.0, 1.5])
    keep = 0.12 if ctx.tier == 'quick' else 0.6
    dt = 0.5

    def rows_of(x):
        a = np.asarray(x)
        return [list(a)] if a.ndim == 1 else [list(r) for r in a]

    for name, fn, h in fns:
        for v in vals_pool:
            for tts in tts_pool:
                m = len(tts)
                for lu in range(0, m + 3):
                    for ld in range(0, m + 3):
                        for trim, start in ((False, False), (True, False), (True, True), (False, True)):
                            if rng.random() > keep:
                                continue
                            nodal = rng.random() < 0.5
                            u = [pick() for _ in range(lu)]
                            d = [pick() for _ in range(ld)]
                            stt = rng.choice([0.0, 0.5, 0.25])
                            inputs = {'fn': name, 'values': v, 'dt': dt, 'travel_times': tts, 'nodal': nodal, 'up_red': u, 'down_red': d,
                                      'stt': stt, 'trim': trim, 'start': start}
                            ctx.count_case(('red_shapes', name, tuple(v), tuple(tts), tuple(u), tuple(d), trim, start, nodal, stt), True)
                            ctx.hist(f'red_shapes/m={m},lu={lu},ld={ld}')
                            mk = lambda: eqsig.AccSignal(np.array(v), dt)
                            res = call_impl(fn, mk(), np.array(tts), nodal=nodal, up_red=np.array(u, dtype=float),
                                            down_red=np.array(d, dtype=float), stt=stt, trim=trim, start=start)

                            def compare(outs, val):
                                rows = rows_of(val)
                                if outs[0][0] == '1d':
                                    mrows = [p_rats(outs[1])]
                                    if np.asarray(val).ndim != 1:
                                        return 'model 1-D, impl 2-D'
                                else:
                                    mrows = [p_rats(r) for r in outs[1:]]
                                    if np.asarray(val).ndim != 2:
                                        return 'model 2-D, impl 1-D'
                                if [len(r) for r in rows] != [len(r) for r in mrows]:
                                    return f"row lengths impl {[len(r) for r in rows]} model {[len(r) for r in mrows]}"
                                return cmp_exact([x for r in rows for x in r], [x for r in mrows for x in r])
                            ctx.corr(name + ' (reduction shapes)',
                                     f"{h}|{w_rats(v)}|{w_rat(dt)}|{w_rats(tts)}|{w_bool(nodal)}|R|{w_rats(u)}|{w_rats(d)}|{w_rat(stt)}|{w_bool(trim)}|{w_bool(start)}",
                                     res, compare, inputs=inputs)
                            mismatch = (ld != m and ld != 1) or (lu != m and lu != 1 and m != 1)
                            if mismatch:
                                ctx.oracle('C19 reduction shapes: a shape NumPy cannot broadcast raises ValueError', res == ('err', 'ValueError'), inputs, detail=res[:2] if res[0] == 'err' else 'ok')
                            elif lu == 0:
                                ctx.oracle('C19 reduction shapes: empty up_red with one travel time raises IndexError', res == ('err', 'IndexError'), inputs, detail=res[:2] if res[0] == 'err' else 'ok')
                            else:
                                ub = [u[i] if lu == m else u[0] for i in range(m)]
                                db = [d[0] if ld == 1 else d[i] for i in range(m)]
                                ref = call_impl(fn, mk(), np.array(tts), nodal=nodal, up_red=np.array(ub), down_red=np.array(db), stt=stt, trim=trim, start=start)
                                same = (res[0] == ref[0]) and (res[1] == ref[1] if res[0] == 'err' else
                                                               (np.asarray(res[1]).shape == np.asarray(ref[1]).shape and bool(np.all(np.asarray(res[1]) == np.asarray(ref[1])))))
                                ctx.oracle('C19 reduction shapes: a legal shape gives the result of the written-out (broadcast) per-row reductions', same, inputs)
    ctx.flush()


# ----------------------------------------------------------------------------------------------------------------------
# C09: binary64 decisions of the CAVdp window loop        (harness/props/c09.py)
# ----------------------------------------------------------------------------------------------------------------------
STD_RATES = [1, 2, 4, 5, 8, 10, 16, 20, 25, 40, 50, 64, 80, 100, 128, 200, 250, 256, 400, 500, 512, 1000]


def _dy(x):
    q = Fraction(x)
    k = q.denominator.bit_length() - 1
    assert q.denominator == 2 ** k
    return f"{q.numerator} {k}"


def corr_cavdp_float(ctx):
    """C09: `Model.CavDpFloat` (binary64 model of the floating np.arange of calc_cav_dp) against NumPy: `fl64`, `int(1/dt)`,
    length / every element of the arange, selected positions; plus the rule of `cav_dp_float_panels_standard` on NumPy itself."""
    rng = ctx.rng
    # 1. rounding
    xs = []
    for _ in range(200 if ctx.tier == 'quick' else 3000):
        p = rng.randint(1, 2 ** rng.choice([1, 3, 20, 60, 200]))
        q = rng.randint(1, 2 ** rng.choice([1, 3, 20, 60, 200]))
        xs.append(Fraction(p, q))
    for _ in range(40 if ctx.tier == 'quick' else 500):
        mnt = rng.randint(2 ** 52, 2 ** 53 - 1)
        e = rng.randint(-60, 30)
        xs += [Fraction(2 * mnt + 1, 2) * Fraction(2) ** e, (Fraction(2 * mnt + 1, 2) + Fraction(1, 10 ** 30)) * Fraction(2) ** e,
               (Fraction(2 * mnt + 1, 2) - Fraction(1, 10 ** 30)) * Fraction(2) ** e, Fraction(mnt) * Fraction(2) ** e]
    xs += [Fraction(0), Fraction(1), Fraction(1, 3), Fraction(2 ** 53 - 1), Fraction(2 ** 53 + 1), Fraction(2 ** 54 + 2)]
    for x in xs:
        ctx.hist('cavdp_float/fl64')
        ctx.corr('binary64 rounding (int/int true division)', f"fl64|{x.numerator}|{x.denominator}", ('ok', x.numerator / x.denominator),
                 lambda outs, val: cmp_exact([fr(val)], p_rats(outs[0])), inputs={'p': x.numerator, 'q': x.denominator})
    # 2. windows
    rates = list(range(1, 130)) + [160, 161, 187, 196, 200, 249, 250, 253, 256, 322, 400, 500, 512, 1000]
    if ctx.tier != 'quick':
        rates += [rng.randint(130, 1200) for _ in range(60)]
    dts = [1 / r for r in rates] + [0.03, 0.007, 0.3, 0.15, 0.011, 0.0625, 0.004, 0.0025]
    for dt in dts:
        p = int(1 / dt)
        wins = [0, 1, 2, 3, 7, 16, 33, 100, 1234] if p < 300 else [0, 1, 5, 40]
        if ctx.tier == 'quick':
            wins = wins[:4]
        for i in wins:
            start = i * p
            it = np.arange(start * dt, (start * dt) + 1, dt)
            sel = np.where((start * dt <= it) * (it <= (start + p) * dt))[0]
            ctx.count_case(('cavdp_float', dt, i), True)
            ctx.hist('cavdp_float/window')
            val = (p, len(it), [int(s) for s in sel], [fr(t) for t in it])

            def compare(outs, val):
                got = (int(outs[0][0]), int(outs[1][0]), p_ints(outs[2]), p_rats(outs[3]))
                return None if got == val else f"impl {val[:3]} model {got[:3]}"
            ctx.corr('np.arange / mask of a calc_cav_dp window', f"cavdp_window_f|{_dy(dt)}|{start}", ('ok', val), compare,
                     inputs={'dt': dt, 'start': start})
            if round(1 / dt) in STD_RATES and dt == 1 / round(1 / dt):
                pps = round(1 / dt)
                ctx.oracle('C09 CAVdp standard rates: int(1/dt) == pps, the floating arange has pps elements, all selected (pps-1 panels)',
                           p == pps and len(it) == pps and list(sel) == list(range(pps)), {'dt': dt, 'window': i},
                           detail={'int(1/dt)': p, 'len': len(it), 'selected': len(sel)})
    ctx.flush()


# ----------------------------------------------------------------------------------------------------------------------
# C10: exact zero-prefix relation of calc_sig_dur (Arias measure, any a[0])      (harness/props/c10.py)
# ----------------------------------------------------------------------------------------------------------------------
def corr_sigdur_prefix(ctx):
    """C10.d: `sigdur_zero_prefix_general` on the implementation: calc_sig_dur(0^k ++ a) == calc_sig_dur(0 :: a) + (k-1)*dt
    (k >= 1, also a[0] != 0), and == the threshold search on the raised series I + dt*a0^2/2 shifted by k*dt."""
    import eqsig
    from eqsig import im
    rng = ctx.rng
    n_cases = 80 if ctx.tier == 'quick' else 1500
    corpus = [([3, 2, -1, 1, 0, 1, -1], 0.5, 0.05, 0.9), ([1, 4, -4, 4, 1], 0.5, 0.05, 0.95), ([0, 3, 2, -1], 0.25, 0.05, 0.95)]
    for c in range(n_cases):
        if c < len(corpus):
            a, dt, s, e = corpus[c]
        else:
            n = rng.randint(2, 12)
            a = [rng.randint(-4, 4) for _ in range(n)]
            dt = rng.choice([1.0, 0.5, 0.25, 0.125])
            s, e = rng.choice([(0.0625, 0.9375), (0.125, 0.875), (0.25, 0.75), (0.05, 0.95), (0.05, 0.9), (0.0, 1.0)])
        for k in (1, 2, 5):
            ctx.count_case(('sigdur_prefix', tuple(a), dt, s, e, k), any(a))
            ctx.hist(f'sigdur_prefix/a0{"=0" if a[0] == 0 else "!=0"}')
            inputs = {'a': a, 'dt': dt, 'start': s, 'end': e, 'k': k}
            big = call_impl(im.calc_sig_dur, eqsig.AccSignal(np.array([0.0] * k + a, dtype=float), dt), start=s, end=e, se=True)
            one = call_impl(im.calc_sig_dur, eqsig.AccSignal(np.array([0.0] + a, dtype=float), dt), start=s, end=e, se=True)
            if big[0] == 'ok' and one[0] == 'ok':
                ok = (fr(big[1][0]) == fr(one[1][0]) + (k - 1) * fr(dt)) and (fr(big[1][1]) == fr(one[1][1]) + (k - 1) * fr(dt))
            else:
                ok = big[:2] == one[:2]
            ctx.oracle('C10.d exact relation: k >= 1 prepended zeros shift the result for ONE prepended zero by (k-1)*dt (any a[0])', ok, inputs,
                       detail={'k zeros': big, 'one zero': one})
            # raised series, exact
            fa = [fr(x) for x in a]
            fdt = fr(dt)
            I = [Fraction(0)]
            for j in range(1, len(fa)):
                I.append(I[-1] + fdt * (fa[j] ** 2 + fa[j - 1] ** 2) / 2)
            cc = fdt * fa[0] ** 2 / 2
            # thresholds as the implementation forms them: float products start*total / end*total on (I + c)*const; compare exactly where the
            # doubles are dyadic-safe: decide with exact fractions of the float fractions
            tot = I[-1] + cc
            idx = [j for j in range(len(I)) if fr(s) * tot < I[j] + cc < fr(e) * tot]
            if big[0] == 'ok' and idx:
                exp = ((k + idx[0]) * fdt, (k + idx[-1]) * fdt)
                safe = all(abs((I[j] + cc) - fr(f) * tot) > Fraction(1, 10 ** 9) * max(tot, 1) for j in range(len(I)) for f in (s, e))
                if safe:
                    ctx.oracle('C10.d exact relation: start/end after k zeros = k*dt + first/last j with s*(tot+c) < I[j]+c < e*(tot+c), c = dt*a0^2/2',
                               (fr(big[1][0]), fr(big[1][1])) == exp, inputs, detail={'impl': big[1], 'expected': [float(x) for x in exp]})
            elif big[0] == 'err':
                ctx.oracle('C10.d exact relation: IndexError after k zeros iff no sample of the raised series qualifies', not idx, inputs)


# ----------------------------------------------------------------------------------------------------------------------
# C12: tol > 0 switched peaks as a subsequence of the tol = 0 ones        (harness/props/c12.py)
# ----------------------------------------------------------------------------------------------------------------------
def _is_subseq(a, b):
    it = iter(b)
    return all(any(x == y for y in it) for x in a)


def corr_switched_tol(ctx):
    """C12.f: the three checkable conditions (handler `switched_tol_conds`, Spec/SwitchedTol.lean) against a direct Python
    evaluation on the implementation's peak values, and the theorems as oracles on get_switched_peak_array_indices."""
    from eqsig.fns import peaks_and_crossings as pc
    rng = ctx.rng
    n_cases = 150 if ctx.tier == 'quick' else 3000
    corpus = [[0, 0.01, 0.1, -0.3, -0.25, -4, 1], [0, 1, 0.5, 0.75, -0.25, 0.25, -2, -1, -3, 2], [0, 1, -0.3, -0.25, -4, 1],
              [0, 1, 0.5, 0.75, -1, 2, -2, -1, -3, 2], [5, 1, 3, -1], [0, 0, 0], [1], [1, 1, 2, 1]]
    cases = list(corpus)
    for _ in range(n_cases):
        n = rng.randint(1, 14)
        cases.append([rng.randint(-16, 16) / 4 for _ in range(n)])
    for v in cases:
        arr = np.array(v, dtype=float)
        for tol in (Fraction(1, 2), Fraction(1), Fraction(9, 4), Fraction(1, 4)):
            ctx.count_case(('switched_tol', tuple(v), tol), len(set(v)) > 1)
            inputs = {'values': v, 'tol': float(tol)}
            pk = call_impl(pc.get_peak_array_indices, arr)
            r0 = call_impl(pc.get_switched_peak_array_indices, arr, tol=0.0)
            rt = call_impl(pc.get_switched_peak_array_indices, arr, tol=float(tol))
            if pk[0] != 'ok' or r0[0] != 'ok' or rt[0] != 'ok':
                continue
            pv = [fr(arr[int(i)]) for i in pk[1]]
            sgn = lambda x: (x > 0) - (x < 0)
            split = lambda t, last, p: (p + t * sgn(last)) * last <= 0
            lt = l0 = pv[0]
            incl = True
            for p in pv[1:]:
                st, s0 = split(tol, lt, p), split(0, l0, p)
                incl = incl and ((not st) or s0)
                lt = p if st else lt
                l0 = p if s0 else l0
            first = all((not (a * b > 0 and abs(b) >= tol)) or abs(a) >= tol for a, b in zip(pv, pv[1:]))
            allr = all(abs(p) >= tol for p in pv[1:])
            ctx.hist(f'switched_tol/incl={incl},first={first},all={allr}')
            ctx.corr('C12.f conditions (tolSplitsIncluded, firstPeakReachesTol, allPeaksReachTol)', f"switched_tol_conds|{w_rats(v)}|{w_rat(tol)}",
                     ('ok', (incl, first, allr, pv)),
                     lambda outs, val: None if (outs[0][0] == 'T', outs[1][0] == 'T', outs[2][0] == 'T', p_rats(outs[3])) == val else
                     f"impl-side {val[:3]} model {(outs[0][0], outs[1][0], outs[2][0])}", inputs=inputs)
            a, b = [int(x) for x in rt[1]], [int(x) for x in r0[1]]
            if incl:
                ctx.oracle('C12.f condition 1 (tol-run boundaries included in the 0-run boundaries) => tol>0 result is a subsequence of the tol=0 result',
                           _is_subseq(a, b), inputs, detail={'tol': a, 'zero': b})
            if first:
                ctx.oracle('C12.f condition 3 (first peak of an excursion reaches tol if any does) => condition 1', incl, inputs)
            if allr:
                ctx.oracle('C12.f condition 2 (every later peak reaches tol) => the tol>0 result equals the tol=0 result', a == b, inputs,
                           detail={'tol': a, 'zero': b})
    ctx.flush()
