"""C05 — signal objects own their data; analysis functions do not mutate inputs.

(a) ownership: histories on real eqsig.AccSignal / Signal objects with every array the caller passed in tracked
    (constructor argument, reset_values / add_series / add_signal arguments, settings arrays): no operation changes a caller
    array, the object's `values` never shares memory with one, a caller write changes no values-derived observation; the
    alias / write-count predictions of the Lean state machine (driver `cache_history`, 2nd and 3rd output group) are compared.
(b) values shape: `values` is a 1-d ndarray, len(values) == npts, time == dt*arange(npts) after every operation, including
    Cluster.time_match / same_start / combine_motions.
(d) dynamic purity scan of every public array-level function (pinned builders in _c05_purity.py).
"""
import copy
import os
import re

import numpy as np

import core
import gen
from core import call_impl
import _c04_ops as O
import _c05_purity as P

TABLE = os.environ.get('EQSIG_TABLE', 'gen')

RULE = ("ownership: histories = words over the method rows of the generated effect table + reads + caller writes into any array "
        "passed earlier, on AccSignal / Signal objects constructed from float64 / int64 ndarrays and lists; corpus = witnesses of "
        "F05-1 (reset_values(a); rebase_displacement() and every other in-place correction; Cluster.time_match); exhaustive = "
        "every (array-taking call) x (every method row) pair; random histories of length <= 10 (quick) / <= 25 (thorough), all "
        "clauses evaluated after every operation. purity: every public function of eqsig.{sdof, im, displacements, fns.*, "
        "stockwell, surface, multiple, loader, design_spectra} found by introspection, each call shape with float64 ndarray, "
        "int64 ndarray and list arguments, 3 (quick) / 25 (thorough) random records each. distinct = hash of (history) or of "
        "(function, call shape, variant, record); non-trivial = the history passes an array and later mutates the object, or the "
        "function received a non-constant record")
TIE = ("translator (effect table and per-function in-place summary from the AST) + correspondence (driver cache_history: alias "
       "and caller-array write counts predicted by the state machine vs np.shares_memory / tobytes() on the real objects)")
NOT_PROVED = ["C05.d is runtime behaviour of NumPy/SciPy internals: decided dynamically (tobytes() before/after, call twice), the Lean "
              "side is the syntactic summary Effects_clean only",
              "arrays obtained through the getter (v = sig.values; v[0] = 9) are the object's own array: outside the property (the "
              "caller-held set contains only arrays the caller passed in)",
              "the settings arrays response_times / smooth_fa_freqs are stored by reference by four calls (finding F05-2, recorded in "
              "the input distribution, not a violation: the property speaks about the values array)",
              "functions excluded from the purity scan (plotting, file loading, np.trapz users under NumPy >= 2.4, scalar-only): see "
              "input_distribution 'purity/excluded:*'"]
EXHAUSTIVE = True

CL_NOMOD = 'C05.a no operation on a signal object changes an array the caller passed in'
CL_NOSHARE = 'C05.a the values array of a signal object shares no memory with an array the caller holds'
CL_CWRITE = 'C05.a a write of the caller into an array it passed changes no values-derived observation of the object'
CL_SHAPE = 'C05.b values is a 1-d ndarray with len(values) == npts and time == dt*arange(npts)'
CL_PURE = 'C05.d array-level functions leave their array and signal arguments bit-for-bit unchanged'
CL_REPEAT = 'C05.d array-level functions return the same result when called again'
CL_COVER = 'C05.d every public array-level function is covered'

ARRAY_OPS = ['reset_values', 'add_series', 'add_signal', 'smooth_fa_freqs=', 'response_times=', 'gen_response_spectrum/given',
             'response_series/given', 'gen_smooth_fa_spectrum/given', 'values=']
INPLACE_OPS = ['rebase_displacement', 'remove_rolling_average/other', 'set_zero_residual_velocity',
               'set_zero_residual_displacement', 'set_zero_residual_displacement_and_velocity', 'running_average']


def table_rows():
    names = list(O.ARGS)
    resp = core.run_driver(['cache_history|%s|same|%s|' % (TABLE, n) for n in names])
    return [n for n, r in zip(names, resp) if r[0] == 'ok']


def snap(a):
    if isinstance(a, np.ndarray):
        return (a.dtype.str, a.shape, a.tobytes())
    return repr(a)


def shares(x, a):
    if a is None:
        return False
    if x is a:
        return True
    if isinstance(x, np.ndarray) and isinstance(a, np.ndarray):
        return bool(np.shares_memory(x, a))
    return False


def shape_ok(s):
    """(ok, detail) for clause C05.b"""
    v = s.values
    d = {'type': type(v).__name__}
    if not isinstance(v, np.ndarray):
        return False, d
    d.update(ndim=v.ndim, len=len(v) if v.ndim else None, npts=s.npts)
    if v.ndim != 1 or len(v) != s.npts:
        return False, d
    t = s.time
    want = np.arange(s.npts) * s.dt
    ok = isinstance(t, np.ndarray) and t.shape == want.shape and bool(np.array_equal(t, want))
    if not ok:
        d['time'] = O.brief(t)
    return ok, d


class Own:
    """a history with the caller-held arrays tracked"""

    def __init__(self, report, ctx, cls, ctor_arg, dt, corr=True):
        self.report, self.ctx, self.cls, self.corr = report, ctx, cls, corr
        self.quants = O.QUANTS if cls == 'AccSignal' else O.SIGNAL_QUANTS
        self.vderived = [q for q in O.VALUES_DERIVED if q in self.quants]
        self.start = {'cls': cls, 'ctor_values': ctor_arg.tolist() if isinstance(ctor_arg, np.ndarray) else list(ctor_arg),
                      'ctor_kind': type(ctor_arg).__name__ + (':' + ctor_arg.dtype.name if isinstance(ctor_arg, np.ndarray) else ''),
                      'dt': dt}
        self.snaps = [snap(ctor_arg)]     # as the caller created it, BEFORE the call
        self.s = O.make_sig(cls, ctor_arg, dt, np.array([0.5, 1.0, 2.0, 4.0]), np.array([0.2, 0.5, 1.0]))
        self.held = [ctor_arg]            # k-th entry: what the k-th call passed (None: nothing)
        self.how = ['constructor']
        self.nchg = [0]
        self.ops, self.mnames = [], []
        self.passed_array, self.nontrivial, self.failed = True, False, None
        self.after('constructor', None)

    def inputs(self):
        d = dict(self.start)
        d['history'] = [list(o) for o in self.ops]
        return d

    def do(self, name, args=None, rng=None):
        if name in self.quants:
            r = call_impl(getattr, self.s, name)
            if r[0] != 'ok':
                self.failed = (name, r[1]); return False
            self.ops.append([name, {}]); self.mnames.append(name)
            self.after(name, None)
            return True
        if name == 'caller_write':
            ks = [k for k, a in enumerate(self.held) if isinstance(a, (np.ndarray, list)) and len(a) > 0]
            k = args['k'] if args else rng.choice(ks)
            a = self.held[k]
            j = args['index'] if args else rng.randrange(len(a))
            r = call_impl(O.observe, self.s, self.cls, self.vderived)
            a[j] = a[j] + 1
            r2 = call_impl(O.observe, self.s, self.cls, self.vderived)
            self.ops.append(['caller_write', {'k': k, 'index': j}]); self.mnames.append('caller_write#%d' % (k + 1))
            if r[0] == 'ok' and r2[0] == 'ok':
                changed = [q for q in self.vderived if not O.same(r[1][q], r2[1][q])]
                self.report(CL_CWRITE, not changed, None if not changed else self.inputs(),
                            {'array passed by': self.how[k], 'changed observations': changed},
                            {'passed_by': self.how[k], 'changed': changed})
            self.after('caller_write', k)
            return True
        if args is None:
            args = O.ARGS[name](rng, self.s)
        own = O.own_view_content(self.s, args)      # (round 7) the call hands back an array obtained from the object: its content before the call
        r = call_impl(O.apply_op, self.s, name, args)
        if r[0] != 'ok':
            self.failed = (name, r[1]); return False
        a = r[1]
        self.ops.append([name, args]); self.mnames.append(O.model_name(name, self.s) if isinstance(self.s.values, np.ndarray) else name)
        pl = O.passed_list(name, args) if own is None else own     # the array's content as the caller created it, before the call
        self.held.append(a); self.how.append(name)
        self.snaps.append(snap(np.array(pl)) if a is not None and pl is not None else None); self.nchg.append(0)
        if name in O.VALUE_MUTATORS and self.passed_array:
            self.nontrivial = True
        self.after(name, None)
        return True

    def after(self, name, written_k):
        s = self.s
        # caller arrays bit-for-bit as the caller left them
        for k, a in enumerate(self.held):
            if a is None:
                continue
            now = snap(a)
            if now != self.snaps[k]:
                self.nchg[k] += 1
                self.snaps[k] = now
                if k != written_k:
                    self.report(CL_NOMOD, False, self.inputs(), {'operation': name, 'changed array was passed by': self.how[k]},
                                {'operation': name, 'passed_by': self.how[k], 'class': self.cls})
                    continue
            if k != written_k:
                self.report(CL_NOMOD, True, None, None, None)
        r = call_impl(lambda: s.values)
        v = r[1] if r[0] == 'ok' else None
        alias = [self.how[k] for k, a in enumerate(self.held) if shares(v, a)]
        self.report(CL_NOSHARE, not alias, None if not alias else self.inputs(), {'after': name, 'values is the array passed by': alias},
                    {'operation': name, 'passed_by': alias, 'class': self.cls})
        r = call_impl(shape_ok, s)
        ok, d = r[1] if r[0] == 'ok' else (False, {'raised': r[1]})
        self.report(CL_SHAPE, ok, None if ok else self.inputs(), dict(d, after=name), {'operation': name, 'class': self.cls})
        if self.cls == 'AccSignal' and any(a is not None and s.response_times is a for a in self.held):
            self.ctx.hist('F05-2 response_times is the array the caller passed')
        if any(a is not None and s.smooth_fa_freqs is a for a in self.held):
            self.ctx.hist('F05-2 smooth_fa_freqs is the array the caller passed')
        # model correspondence: alias of _values, write counts of the caller arrays
        if self.corr:
            req = 'cache_history|%s|same|%s|' % (TABLE, ' '.join(self.mnames))
            nchg = list(self.nchg)
            isarr = [isinstance(a, np.ndarray) for a in self.held]

            def compare(outs, value, nchg=nchg, isarr=isarr):
                m_alias = outs[1][0] == 'T'
                if m_alias != value:
                    return 'values shared with a caller array: model=%s object=%s' % (m_alias, value)
                counts = [int(x) for x in outs[2]]
                if len(counts) != len(nchg):
                    return 'model tracks %d caller arrays, harness %d' % (len(counts), len(nchg))
                for k, (c, n) in enumerate(zip(counts, nchg)):
                    if isarr[k] and n > c:
                        return 'caller array %d changed %d times, model predicts %d writes' % (k + 1, n, c)
                return None
            self.ctx.corr('cache_history alias(%s)' % self.cls, req, ('ok', bool(alias)), compare, inputs=self.inputs())



def make_report(ctx):
    def report(clause, ok, inputs, detail, facts):
        ctx.oracle(clause, ok, inputs=inputs, detail=detail, facts=facts)
    return report


def run_history(ctx, report, cls, ctor_arg, dt, word, rng, corr=True):
    h = Own.__new__(Own)
    r = call_impl(Own.__init__, h, report, ctx, cls, ctor_arg, dt, corr)
    if r[0] != 'ok':
        ctx.hist('constructor-raised:' + r[1])
        return None
    for name in word:
        if not h.do(name, rng=rng):
            ctx.hist('op-raised:%s:%s' % h.failed)
            break
    return h


def ctor_arg(rng, n, kind):
    a = O.rec(rng, n)
    if kind == 'int64':
        return np.round(a * 8).astype(np.int64)
    if kind == 'list':
        return a.tolist()
    return a


def ownership(ctx, rows):
    rng = ctx.rng
    report = ctx._c05_report
    quick = ctx.tier == 'quick'
    arr_ops = [r for r in ARRAY_OPS if r in rows]
    inplace = [r for r in INPLACE_OPS if r in rows]

    def go(cls, kind, word, n=64, dt=0.01, tag='random'):
        ctx.hist('ownership/%s/%s/ctor=%s' % (tag, cls, kind))
        h = run_history(ctx, report, cls, ctor_arg(rng, n, kind), dt, word, rng)
        if h is not None:
            ctx.count_case((repr(h.start['ctor_values'][:6]), repr(h.ops)), h.nontrivial,
                           sample={'class': cls, 'ctor': kind, 'history': [o[0] for o in h.ops]} if ctx.evaluations % 211 == 0 else None)
    # corpus: F05-1 and its relatives
    for ip in inplace:
        go('AccSignal', 'float64', ['reset_values', ip], tag='corpus')
        go('AccSignal', 'float64', [ip, 'caller_write'], tag='corpus')
        go('AccSignal', 'float64', ['reset_values', 'pga', 'caller_write', 'pga', ip], tag='corpus')
    for kind in ('float64', 'int64', 'list'):
        for cls in ('AccSignal', 'Signal'):
            go(cls, kind, ['add_constant', 'caller_write', 'remove_average', 'reset_values', 'caller_write'], tag='corpus')
    ctx.flush()
    # exhaustive pairs: (call that takes an array) x (any method row), then a write into every array passed
    for a in arr_ops:
        for b in rows:
            go('AccSignal', 'float64', [a, b, 'caller_write', 'caller_write'], tag='pairs')
    for b in rows:
        go('AccSignal', 'float64', [b, 'caller_write'], tag='pairs')
    ctx.flush()
    # random histories
    n_random, maxlen = (1500, 12) if quick else (12000, 25)
    srows = [r for r in O.SIGNAL_METHODS if r in rows]
    for i in range(n_random):
        cls = 'Signal' if i % 6 == 5 else 'AccSignal'
        meth = srows if cls == 'Signal' else rows
        quants = O.SIGNAL_QUANTS if cls == 'Signal' else O.QUANTS
        kind = 'float64' if i % 5 else rng.choice(['int64', 'list'])
        word = []
        for _ in range(rng.randint(1, maxlen)):
            u = rng.random()
            word.append('caller_write' if u < 0.2 else rng.choice(quants) if u < 0.35 else
                        rng.choice([r for r in arr_ops + inplace if r in meth]) if u < 0.65 else rng.choice(meth))
        go(cls, kind, word, n=rng.choice([33, 64, 100]), dt=rng.choice([0.01, 0.02]))
        if i % 100 == 99:
            ctx.flush()
    ctx.flush()


def cluster(ctx):
    """C05.b (+ ownership) after the Cluster methods that replace the values of their signals"""
    import eqsig
    rng = ctx.rng
    report = ctx._c05_report
    for trial in range(6 if ctx.tier == 'quick' else 60):
        n = rng.choice([128, 160, 200])
        lag = rng.choice([-4, -2, 2, 3, 5])
        b = O.rec(rng, n, 'walk')
        o = np.concatenate([[b[0]] * lag, b[:-lag]]) if lag > 0 else np.concatenate([b[-lag:], [b[-1]] * (-lag)])
        o = o + np.array([rng.gauss(0, 1e-3) for _ in range(n)])
        stype = rng.choice(['acc', 'custom'])
        held = [b, o]
        snaps = [snap(b), snap(o)]
        for meth, call in (('time_match', lambda c: c.time_match()), ('same_start', lambda c: c.same_start()),
                           ('combine_motions', lambda c: c.combine_motions(2.0)), ('time_match+same_start', lambda c: (c.time_match(), c.same_start()))):
            c = eqsig.Cluster([b, o], 0.01, stypes=stype)
            r = call_impl(call, c)
            ctx.hist('cluster/%s/%s' % (meth, 'ok' if r[0] == 'ok' else r[1]))
            inputs = {'cluster_values': [b.tolist(), o.tolist()], 'dt': 0.01, 'stypes': stype, 'method': meth, 'lag': lag}
            ctx.count_case(('cluster', meth, trial, stype), True)
            if r[0] != 'ok':
                continue
            for i in range(2):
                sig = c.signal_by_index(i)
                rr = call_impl(shape_ok, sig)
                ok, d = rr[1] if rr[0] == 'ok' else (False, {'raised': rr[1]})
                report(CL_SHAPE, ok, None if ok else inputs, dict(d, after='Cluster.' + meth, signal=i),
                       {'operation': 'Cluster.' + meth, 'class': 'Cluster'})
                al = [k for k, a in enumerate(held) if shares(sig.values, a)]
                report(CL_NOSHARE, not al, None if not al else inputs, {'after': 'Cluster.' + meth, 'signal': i, 'shares with input': al},
                       {'operation': 'Cluster.' + meth, 'class': 'Cluster'})
            chg = [k for k, a in enumerate(held) if snap(a) != snaps[k]]
            report(CL_NOMOD, not chg, None if not chg else inputs, {'operation': 'Cluster.' + meth, 'changed inputs': chg},
                   {'operation': 'Cluster.' + meth, 'class': 'Cluster'})
            snaps = [snap(a) for a in held]


# ---- C05.d ---------------------------------------------------------------------------------------------------------------

def variant_args(makers, rng, variant):
    args = []
    for m in makers:
        a = m(rng)
        if m.kind == 'arr' and variant == 'int64':
            a = np.round(a * 8).astype(np.int64)
        elif m.kind == 'arr' and variant == 'list':
            a = a.tolist()
        elif variant in ('tiny', 'huge') and m.kind in ('arr', 'sig'):
            # records around 1e-120 / 1e+120: a guard against under/overflow must not normalise the caller's data in place
            sc = 2.0 ** (-400 if variant == 'tiny' else 400)
            if m.kind == 'arr':
                a = a * sc
            else:
                a = type(a)(np.asarray(a.values) * sc, a.dt)
        args.append(a)
    return args


def describe_args(args):
    import eqsig
    out = []
    for a in args:
        if isinstance(a, eqsig.Signal):
            out.append({'signal': type(a).__name__, 'values': np.asarray(a.values).tolist(), 'dt': a.dt})
        elif isinstance(a, np.ndarray):
            out.append({'ndarray': a.dtype.name, 'data': a.tolist() if a.dtype.kind != 'c' else [[x.real, x.imag] for x in a.ravel()]})
        else:
            out.append({'list': a})
    return out


def purity(ctx):
    rng = ctx.rng
    P.build()
    pub = P.public_functions()
    reps = 5 if ctx.tier == 'quick' else 25
    exercised = set()
    for name in sorted(pub):
        if name in P.EXCLUDED:
            ctx.hist('purity/excluded:%s (%s)' % (name, P.EXCLUDED[name]))
            continue
        if name not in P.CALLS:
            ctx.oracle(CL_COVER, False, inputs={'fn': name}, detail='public function without an argument builder or an exclusion reason',
                       facts={'fn': name})
    for name in sorted(P.CALLS):
        if name not in pub and not name.startswith(('single.', 'multiple.Cluster')):
            ctx.hist('purity/builder for a function that no longer exists:' + name)
            continue
        for label, call, makers in P.CALLS[name]:
            has_arr = any(m.kind == 'arr' for m in makers)
            has_sig = any(m.kind == 'sig' for m in makers)
            for variant in (('float64', 'int64', 'list', 'tiny', 'huge') if has_arr else (('float64', 'tiny', 'huge') if has_sig else ('float64',))):
                n_ok, last = 0, None
                for rep in range((reps if variant not in ('tiny', 'huge') else 2) + 4):
                    if rep >= (reps if variant not in ('tiny', 'huge') else 2) and n_ok > 0:
                        break
                    args = variant_args(makers, rng, variant)
                    before = [P.snap(a) for a in args]
                    r1 = call_impl(call, *args)
                    after = [P.snap(a) for a in args]
                    key = 'purity/%s%s/%s' % (name, '[%s]' % label if label else '', variant)
                    changed = [i for i, (x, y) in enumerate(zip(before, after)) if x != y]
                    ctx.oracle(CL_PURE, not changed, inputs=None if not changed else {'fn': name, 'shape': label, 'variant': variant, 'args': describe_args(args)},
                               detail={'changed argument positions': changed, 'outcome': r1[0]}, facts={'fn': name, 'variant': variant})
                    if r1[0] != 'ok':
                        last = (r1[1], args)
                        if variant != 'float64':
                            ctx.hist(key + ' not accepted (%s)' % r1[1])
                            break
                        ctx.hist(key + ' raised %s on this record' % r1[1])
                        continue
                    n_ok += 1
                    ctx.hist(key)
                    exercised.add(name)
                    ctx.count_case((name, label, variant, repr(before)[:200]), True,
                                   sample={'fn': name, 'shape': label, 'variant': variant} if ctx.evaluations % 97 == 0 else None)
                    r2 = call_impl(call, *args)
                    same = r2[0] == 'ok' and P.same_result(r1[1], r2[1])
                    ctx.oracle(CL_REPEAT, same, inputs=None if same else {'fn': name, 'shape': label, 'variant': variant, 'args': describe_args(args)},
                               detail={'second call': r2[0] if r2[0] != 'ok' else 'different result'}, facts={'fn': name, 'variant': variant})
                    # the result depends on the CONTENT of the arrays, not on their identity: refill the same ndarray objects in place with
                    # another record and call again == calling with fresh arrays of that content (no memo keyed on id / weak reference)
                    if variant == 'float64' and has_arr and rep < 2:
                        other = variant_args(makers, rng, variant)
                        refillable = [i for i, (m, x, y) in enumerate(zip(makers, args, other))
                                      if m.kind == 'arr' and isinstance(x, np.ndarray) and isinstance(y, np.ndarray) and x.shape == y.shape and x.dtype == y.dtype]
                        if refillable:
                            for i in refillable:
                                args[i][...] = other[i]
                            fresh = [np.array(x, copy=True) if i in refillable else x for i, x in enumerate(args)]
                            r3, r4 = call_impl(call, *args), call_impl(call, *fresh)
                            ok3 = r3[0] == r4[0] and (r3[0] != 'ok' or P.same_result(r3[1], r4[1]))
                            ctx.hist('purity/same array object refilled in place')
                            ctx.oracle('C05.d the result is a function of the content of its arrays: the same ndarray object refilled in place and analysed again '
                                       '== fresh arrays with that content', ok3,
                                       inputs=None if ok3 else {'fn': name, 'shape': label, 'variant': variant, 'args_after_refill': describe_args(args)},
                                       detail={'refilled': r3[0] if r3[0] != 'ok' else 'result', 'fresh': r4[0] if r4[0] != 'ok' else 'result'}, facts={'fn': name})
                if variant == 'float64' and n_ok == 0:
                    ctx.oracle(CL_COVER, False, inputs={'fn': name, 'shape': label, 'args': describe_args(last[1])},
                               detail={'the pinned call raised on every record': last[0]}, facts={'fn': name, 'raised': last[0]})
    ctx.oracle(CL_COVER, True, inputs=None)
    n_fn = len([n for n in exercised if n in pub])
    ctx.notes.append({'purity': {'public_functions': len(pub), 'exercised': n_fn, 'excluded': len([n for n in P.EXCLUDED if n in pub]),
                                 'constructors_exercised': sorted(n for n in exercised if n not in pub)}})
    ctx.hist('purity/functions exercised', n_fn)
    return pub


def effects_tie(ctx, pub):
    """the generated per-function in-place summary should list the same public functions (note only)"""
    p = os.path.join(core.LEAN_DIR, 'EqsigVerif', 'Gen', 'Effects.lean')
    try:
        txt = open(p).read()
        names = re.findall(r'name\s*:=\s*"([^"]+)"', txt)
        short = {n.split('.')[-1] for n in names}
        missing = sorted(n for n in pub if n.split('.')[-1] not in short)
        ctx.notes.append({'effects_table': {'rows': len(names), 'public_functions_by_introspection': len(pub),
                                            'introspected_but_not_in_table': missing[:30],
                                            'inplace_rows': len(re.findall(r'inplaceOnParam\s*:=\s*true', txt))}})
        ctx.hist('effects-table rows', len(names))
        ctx.hist('effects-table: introspected functions not in the table', len(missing))
    except OSError as e:
        ctx.notes.append('Gen/Effects.lean not readable: %s' % e)


def time_sweep(ctx):
    """C05.b on many (npts, dt) pairs: `time` must have exactly npts entries and equal dt*arange(npts) whatever npts*dt rounds to"""
    import eqsig
    rng = ctx.rng
    dts = [0.1, 0.01, 0.02, 0.005, 0.001, 0.05, 0.2, 0.025, 0.004, 1.0, 0.5, 0.3, 0.03, 0.07]
    pairs = [(3, 0.1), (4091, 0.01), (2045, 0.02), (2, 0.1), (7, 0.3)]
    for _ in range(400 if ctx.tier == 'quick' else 6000):
        pairs.append((rng.randint(1, 6000), rng.choice(dts)))
    # source hints: lengths around every new integer constant, steps at / around every new float constant (and 1/constant) of the anchored files
    hdt = gen.hint_values(ctx, 1e-4, 10.0, cap=14, maps=(lambda c: c, lambda c: 1 / c))
    pairs += [(m, d) for m in gen.hint_sizes(ctx, lo=1, hi=2 ** 21, cap=10) for d in dts[:4] + hdt[:4]] + [(m, d) for d in hdt for m in (7, 1000, 4091)]
    bad = 0
    for npts, dt in pairs:
        for cls in (eqsig.Signal, eqsig.AccSignal):
            s = cls(np.zeros(npts), dt)
            ok, d = shape_ok(s)
            if not ok:
                bad += 1
            ctx.oracle(CL_SHAPE, ok, {'class': cls.__name__, 'npts': npts, 'dt': dt, 'values': 'zeros(npts)'}, detail=d,
                       facts={'operation': 'constructor', 'class': cls.__name__})
    ctx.hist('time sweep over (npts, dt) pairs', len(pairs))
    ctx.count_case(('time-sweep', len(pairs)), True, sample={'fn': 'Signal.time', 'pairs': len(pairs), 'first': pairs[:5]})


def run(ctx):
    ctx._c05_report = make_report(ctx)
    rows = table_rows()
    ctx.notes.append({'table': TABLE, 'rows': len(rows), 'rows_not_in_table': [n for n in O.ARGS if n not in rows]})
    if len(rows) < 30:
        raise RuntimeError('effect table %s lacks rows: %d' % (TABLE, len(rows)))
    ownership(ctx, rows)
    time_sweep(ctx)
    cluster(ctx)
    pub = purity(ctx)
    effects_tie(ctx, pub)
    ctx.flush()


# ---- failing-input search (when allCopies_gen / effects_clean_gen break but the run found nothing) -----------------------

def search(ctx, broken):
    found = []

    def report(clause, ok, inputs, detail, facts):
        if not ok:
            found.append({'clause': clause, 'inputs': inputs, 'detail': detail, 'facts': facts})
    rows = table_rows()
    rng = ctx.rng
    for kind in ('float64', 'int64', 'list'):
        for a in [r for r in ARRAY_OPS if r in rows] + [None]:
            for b in rows:
                for c in [r for r in INPLACE_OPS if r in rows]:
                    word = ([a] if a else []) + [b, c, 'caller_write', 'caller_write']
                    run_history(ctx, report, 'AccSignal', ctor_arg(rng, 64, kind), 0.01, word, rng, corr=False)
                    if found:
                        return core.jsonable(found[0])
    return None


# ---- replay ------------------------------------------------------------------------------------------------------------------

def replay_case(ctx, payload):
    inp = payload.get('inputs') or {}
    bad = []

    def report(clause, ok, inputs, detail, facts):
        if not ok:
            bad.append((clause, detail))
    if 'history' in inp:
        kind = inp.get('ctor_kind', 'ndarray:float64')
        arg = list(inp['ctor_values']) if kind.startswith('list') else np.array(inp['ctor_values'], dtype=np.int64 if 'int64' in kind else float)
        if 'ctor_view' in inp:        # (round 7) the constructor received an array obtained from ANOTHER signal object (its values / a view of them)
            import eqsig
            arg = O.own_view(eqsig.AccSignal(np.array(inp['ctor_donor_values'], dtype=float), inp['dt']), inp['ctor_view'])
        h = Own(report, ctx, inp.get('cls', 'AccSignal'), arg, inp['dt'], corr=False)
        for name, args in inp['history']:
            if not h.do(name, args if name not in h.quants else None):
                print('operation raised:', h.failed)
                break
    elif 'cluster_values' in inp:
        import eqsig
        b, o = (np.array(x) for x in inp['cluster_values'])
        c = eqsig.Cluster([b, o], inp['dt'], stypes=inp['stypes'])
        for m in inp['method'].split('+'):
            getattr(c, m)(2.0) if m == 'combine_motions' else getattr(c, m)()
        for i in range(2):
            ok, d = shape_ok(c.signal_by_index(i))
            report(CL_SHAPE, ok, None, d, None)
    elif 'fn' in inp:
        P.build()
        rng = ctx.rng
        for label, call, makers in P.CALLS.get(inp['fn'], []):
            if label != inp.get('shape', label):
                continue
            args = variant_args(makers, rng, inp.get('variant', 'float64'))
            before = [P.snap(a) for a in args]
            r1 = call_impl(call, *args)
            if [P.snap(a) for a in args] != before:
                report(CL_PURE, False, None, 'arguments changed', None)
            r2 = call_impl(call, *args)
            if r1[0] != 'ok' or r2[0] != 'ok' or not P.same_result(r1[1], r2[1]):
                report(CL_REPEAT, False, None, (r1[0], r2[0]), None)
    for b in bad:
        print('fails:', b)
    return not bad


# ---- extras2 (harness extension hx_a): large inputs and further containers for the purity scan; further constructor containers and large
#      records for the ownership histories ---------------------------------------------------------------------------------------------------
#
# A variant that the pinned function does not accept (it raises) is a restriction of the domain: counted in the histogram, never demanded.

X2_LARGE_N = 5200
X2_SLOW = ('stockwell.', 'fns.average.calc_step_fn', 'fns.time_step.resample_to_approx_dt', 'sdof.slow_response_spectra', 'sdof.single_elastic_response')


def _x2_variant(m, a, variant):
    """(argument in the variant's container, arrays whose bytes must not change) for one maker output"""
    import eqsig
    is_sig = isinstance(a, eqsig.Signal)
    v = np.asarray(a.values, dtype=float) if is_sig else a
    if not (isinstance(v, np.ndarray) and v.ndim == 1 and v.dtype.kind == 'f') or m.kind not in ('arr', 'sig'):
        return a, []
    extra = []
    if variant.startswith('large'):
        if len(v) < 32:
            return a, []
        N = int(variant[6:]) if variant[5:6] == ':' else X2_LARGE_N           # 'large:<n>': a hinted size (source hints)
        reps = -(-N // len(v))
        c = np.tile(v, reps)[:N] * (1 + 0.01 * np.arange(N) / N)
    elif variant == 'int32':
        c = np.round(v * 8).astype(np.int32)
    elif variant == 'float32':
        c = v.astype(np.float32)
    elif variant == 'strided':
        wide = np.empty(2 * len(v))
        wide[::2] = v
        wide[1::2] = 12345.0
        c = wide[::2]
        extra = [wide]
    elif variant == 'tuple':
        if is_sig:
            return a, []
        c = tuple(v.tolist())
    else:
        raise ValueError(variant)
    return (type(a)(c, a.dt) if is_sig else c), extra


def x2_purity(ctx):
    """C05.d on LARGE inputs (5 200 samples: above the 4 096 / 5 000 thresholds behind which a second algorithm may sit) and on int32 / float32 /
    strided / tuple containers: arguments bit-for-bit unchanged (for a strided view also the buffer behind it), same result when called again"""
    rng = ctx.rng
    P.build()
    quick = ctx.tier == 'quick'
    hinted = tuple('large:%d' % m for m in gen.hint_sizes(ctx, lo=600, hi=20000, cap=3))       # source hints: sizes around every new integer constant
    for name in sorted(P.CALLS):
        for label, call, makers in P.CALLS[name]:
            if not any(m.kind in ('arr', 'sig') for m in makers):
                continue
            has_arr = any(m.kind == 'arr' for m in makers)
            for variant in ('large', 'int32', 'float32', 'strided') + (('tuple',) if has_arr else ()) + hinted:
                if variant.startswith('large') and (quick or variant in hinted) and name.startswith(X2_SLOW):
                    continue
                for rep in range(1 if quick else 3):
                    pairs = [_x2_variant(m, m(rng), variant) for m in makers]
                    args = [p[0] for p in pairs]
                    watched = args + [x for p in pairs for x in p[1]]
                    before = [P.snap(a) for a in watched]
                    r1 = call_impl(call, *args)
                    changed = [i for i, (x, a) in enumerate(zip(before, watched)) if x != P.snap(a)]
                    key = 'purity2/%s%s/%s' % (name, '[%s]' % label if label else '', variant)
                    big = variant.startswith('large')
                    ctx.oracle(CL_PURE, not changed, inputs=None if not changed else {'fn': name, 'shape': label, 'variant': variant,
                                                                                        'args': 'default arguments tiled to N samples x (1 + 0.01 j/N), N = 5200 or as in the variant' if big else describe_args(args)},
                               detail={'changed argument positions (>= number of arguments: the buffer behind a strided view)': changed, 'outcome': r1[0]}, facts={'fn': name, 'variant': variant})
                    if r1[0] != 'ok':
                        ctx.hist(key + ' not accepted (%s)' % r1[1])
                        break
                    ctx.hist('purity2/' + variant)
                    ctx.count_case((name, label, variant, repr(before)[:200]), True, sample={'fn': name, 'shape': label, 'variant': variant} if ctx.evaluations % 197 == 0 else None)
                    r2 = call_impl(call, *args)
                    same = r2[0] == 'ok' and P.same_result(r1[1], r2[1])
                    ctx.oracle(CL_REPEAT, same, inputs=None if same else {'fn': name, 'shape': label, 'variant': variant, 'args': 'tiled to N samples (5200 or as in the variant)' if big else describe_args(args)},
                               detail={'second call': r2[0] if r2[0] != 'ok' else 'different result'}, facts={'fn': name, 'variant': variant})


def x2_ownership(ctx, rows):
    """C05.a/b with further constructor containers (tuple, int32, float32, strided view, narrow integers) and with LARGE records (5 200 and
    8 192 samples), short histories around the calls that take or edit arrays"""
    rng = ctx.rng
    report = ctx._c05_report
    quick = ctx.tier == 'quick'
    arr_ops = [r for r in ARRAY_OPS if r in rows]
    inplace = [r for r in INPLACE_OPS if r in rows]
    cheap_reads = [q for q in ('values', 'npts', 'time', 'velocity', 'displacement', 'pga', 'pgd', 'fa_spectrum') if q in O.QUANTS]

    def ctor(kind, n):
        a = O.rec(rng, n)
        if kind == 'tuple':
            return tuple(a.tolist())
        if kind == 'int32':
            return np.round(a * 8).astype(np.int32)
        if kind == 'float32':
            return a.astype(np.float32)
        if kind == 'strided':
            wide = np.zeros(2 * n)
            wide[::2] = a
            return wide[::2]
        if kind == 'int8':
            return np.clip(np.round(a * 40), -120, 120).astype(np.int8)
        if kind == 'uint16':
            return (np.clip(np.round(a * 200), -600, 600) + 600).astype(np.uint16)
        return a
    for i in range(60 if quick else 600):
        kind = ('tuple', 'int32', 'float32', 'strided', 'int8', 'uint16')[i % 6]
        cls = 'Signal' if i % 5 == 4 else 'AccSignal'
        meth = [r for r in O.SIGNAL_METHODS if r in rows] if cls == 'Signal' else rows
        quants = O.SIGNAL_QUANTS if cls == 'Signal' else O.QUANTS
        word = []
        for _ in range(rng.randint(1, 8)):
            u = rng.random()
            word.append('caller_write' if (u < 0.2 and kind != 'tuple') else rng.choice(quants) if u < 0.35 else
                        rng.choice([r for r in arr_ops + inplace if r in meth]) if u < 0.7 else rng.choice(meth))
        ctx.hist('ownership2/%s/ctor=%s' % (cls, kind))
        h = run_history(ctx, report, cls, ctor(kind, rng.choice([33, 64])), rng.choice([0.01, 0.02]), word, rng)
        if h is not None:
            ctx.count_case(('x2-own', kind, repr(h.start['ctor_values'][:6]), repr(h.ops)), True, sample={'class': cls, 'ctor': kind, 'history': [o[0] for o in h.ops]} if i < 2 else None)
        if i % 30 == 29:
            ctx.flush()
    # large records: the calls that take or edit arrays, each followed by a caller write and a cheap read (no model run: corr=False)
    words = [['reset_values', ip, 'caller_write', 'pga'] for ip in inplace] + [[a, 'caller_write', 'caller_write', 'velocity'] for a in arr_ops if a in ('reset_values', 'add_series', 'add_signal')]
    rng.shuffle(words)
    for i, word in enumerate(words[:(4 if quick else len(words))]):
        n = (X2_LARGE_N, 8192)[i % 2]
        ctx.hist('ownership2/large record n=%d' % n)
        h = run_history(ctx, report, 'AccSignal', O.rec(rng, n), 0.01, [w for w in word if w in rows or w in cheap_reads or w == 'caller_write'], rng, corr=False)
        if h is not None:
            ctx.count_case(('x2-own-large', n, repr(h.ops)[:200]), True, sample={'class': 'AccSignal', 'n': n, 'history': [o[0] for o in h.ops]} if i < 1 else None)
    ctx.flush()


def extras2(ctx):
    rows = table_rows()
    x2_ownership(ctx, rows)
    x2_purity(ctx)


_run_main2 = run


def run(ctx):
    _run_main2(ctx)
    extras2(ctx)
    ctx.flush()


# ---- round-4 lesson: every array handed to the CONSTRUCTOR is owned by the object afterwards ---------------------------------------------

def extras_ctor(ctx):
    """values, response_times and smooth_fa_freqs given to the constructor are copied: editing the caller's arrays afterwards changes
    nothing in the object (periods, smoothing frequencies, spectra regenerated later), and the object never edits them"""
    import eqsig
    rng = ctx.rng
    for it in range(6 if ctx.tier == 'quick' else 40):
        n = rng.randint(40, 200)
        a = np.array([rng.gauss(0, 1) for _ in range(n)])
        rt = np.array(sorted(rng.uniform(0.05, 2.0) for _ in range(rng.randint(2, 5))))
        sf_ = np.array(sorted(rng.uniform(0.5, 20.0) for _ in range(rng.randint(3, 6))))
        a0, rt0, sf0 = a.copy(), rt.copy(), sf_.copy()
        obj = eqsig.AccSignal(a, 0.01, response_times=rt, smooth_fa_freqs=sf_)
        ref = eqsig.AccSignal(a0.copy(), 0.01, response_times=rt0.copy(), smooth_fa_freqs=sf0.copy())
        if it % 2:
            _ = obj.s_a, obj.smooth_fa_spectrum          # caches filled before the caller edits its arrays
        a *= 3.0
        rt *= 2.0
        sf_ += 1.0
        obj.gen_response_spectrum()
        obj.gen_smooth_fa_spectrum()
        ok = bool(np.array_equal(obj.values, a0) and np.array_equal(np.asarray(obj.response_times), rt0) and np.array_equal(np.asarray(obj.smooth_fa_freqs), sf0) and
                  np.array_equal(obj.s_a, ref.s_a) and np.array_equal(obj.smooth_fa_spectrum, ref.smooth_fa_spectrum))
        ctx.hist('constructor arrays edited by the caller afterwards')
        ctx.count_case(('ctor', a0.tobytes(), rt0.tobytes(), sf0.tobytes()), True)
        ctx.oracle('C05.a arrays given to the constructor (values, response_times, smooth_fa_freqs) are owned by the object: later edits of the '
                   "caller's arrays change nothing in the object", ok,
                   {'values': a0, 'dt': 0.01, 'response_times': rt0, 'smooth_fa_freqs': sf0, 'caller_then': 'values *= 3; response_times *= 2; smooth_fa_freqs += 1'},
                   detail={'values_kept': bool(np.array_equal(obj.values, a0)), 'response_times_kept': bool(np.array_equal(np.asarray(obj.response_times), rt0)),
                           'smooth_fa_freqs_kept': bool(np.array_equal(np.asarray(obj.smooth_fa_freqs), sf0))})
        ctx.oracle("C05.a the object never edits the arrays given to its constructor", bool(np.array_equal(a, a0 * 3.0) and np.array_equal(rt, rt0 * 2.0) and np.array_equal(sf_, sf0 + 1.0)),
                   {'values': a0, 'dt': 0.01, 'response_times': rt0, 'smooth_fa_freqs': sf0})


_run_main_ct = run


def run(ctx):
    _run_main_ct(ctx)
    extras_ctor(ctx)
    ctx.flush()


# ---- extras3 (hx_r7a, round 7): caller arrays that are VIEWS / THE VERY ARRAY obtained from a signal object ---------------------------------
#
# v = sig.values[i0:i1] (the trim idiom), v = sig.values, v = sig.values[::1], v = sig.values[::-1] handed back through reset_values / add_series /
# add_signal of the SAME object, or handed to the constructor / reset_values / add_series of a SECOND object.  From that call on v is an array the
# caller passed in (C05.a): no later operation on the receiving object may change it, the receiving object's values share no memory with it, and a
# caller-side edit of v changes nothing in the receiving object.  A copy that is skipped for "my own buffer" / "a view" / "an array that does not
# own its data" shows here and nowhere else.  (_c04_ops.ARGS draws such arguments in the random histories too; this is the directed part.)

def extras3(ctx):
    import eqsig
    rng = ctx.rng
    report = ctx._c05_report
    rows = table_rows()
    quick = ctx.tier == 'quick'
    inplace = [r for r in INPLACE_OPS if r in rows]
    follow = inplace + ['caller_write']
    reads = ['pga', 'velocity', 'fa_spectrum', 'values', 'displacement']

    def specs(n, full):
        i0, i1 = rng.randint(1, n // 3), rng.randint(n - n // 3, n - 1)
        out = ['self', [0, None, 1], [None, None, -1]]
        return out if full else out + [[i0, i1, 1], [i0, None, 1], [0, i1, 1], [0, None, 2]]

    def finish(h, tag, i):
        ctx.hist('ownership3/' + tag)
        ctx.count_case(('x3-own', tag, repr(h.start['ctor_values'][:6]), repr(h.ops)[:300]), True,
                       sample={'class': h.cls, 'family': tag, 'history': [[o[0], {k: v for k, v in o[1].items() if k != 'donor_values'}] for o in h.ops]} if i < 1 else None)

    # (a) handed back to the SAME object
    i = 0
    for rep in range(1 if quick else 6):
        for op in ('reset_values', 'add_series', 'add_signal'):
            if op not in rows:
                continue
            n = rng.choice([48, 64, 100])
            for spec in specs(n, op != 'reset_values'):
                for nxt in (follow if (not quick or op == 'reset_values') else follow[i % 3::3]):
                    cls = 'Signal' if (nxt in ('caller_write', 'running_average') and rng.random() < 0.3) else 'AccSignal'
                    h = run_history(ctx, report, cls, O.rec(rng, n), rng.choice([0.01, 0.02]), [rng.choice(reads)] if rng.random() < 0.5 and cls == 'AccSignal' else [], rng)
                    if h is None:
                        continue
                    i += 1
                    ok = h.do(op, {'own_view': spec})
                    k = len(h.held) - 1
                    for name, args in ((nxt, {'k': k, 'index': rng.randrange(len(h.held[k]))} if nxt == 'caller_write' else None),
                                       ('caller_write', {'k': k, 'index': rng.randrange(len(h.held[k]))}), (rng.choice(follow[:-1]), None)):
                        if not ok:
                            break
                        if name not in rows and name != 'caller_write':
                            continue
                        ok = h.do(name, args, rng=rng)
                    if not ok:
                        ctx.hist('op-raised:%s:%s' % h.failed)
                    finish(h, 'own array handed back through %s' % op, i)
        ctx.flush()
    # (b) an array obtained from ONE object handed to ANOTHER: constructor, reset_values, add_series
    for rep in range(1 if quick else 6):
        n = rng.choice([48, 64, 100])
        dt = rng.choice([0.01, 0.02])
        for spec in specs(n, False):
            donor_values = O.rec(rng, n)
            donor = eqsig.AccSignal(donor_values, dt)
            if rng.random() < 0.5:
                gen._touch(donor)
            v = O.own_view(donor, spec)
            keep = np.array(donor.values, copy=True)
            cls = 'Signal' if rng.random() < 0.25 else 'AccSignal'
            h = Own.__new__(Own)
            r = call_impl(Own.__init__, h, report, ctx, cls, v, dt, True)
            if r[0] != 'ok':
                ctx.hist('constructor-raised:' + r[1])
                continue
            h.start.update(ctor_kind='ndarray:float64 obtained from another signal object (ctor_view of its values)', ctor_donor_values=donor_values.tolist(), ctor_view=spec)
            i += 1
            ok = True
            for name in [rng.choice(inplace)] + ['caller_write'] + [x for x in inplace if cls == 'AccSignal' or x == 'running_average'][:(2 if quick else 6)]:
                if name not in rows and name != 'caller_write':
                    continue
                if cls == 'Signal' and name not in O.SIGNAL_METHODS and name != 'caller_write':
                    continue
                ok = h.do(name, {'k': 0, 'index': rng.randrange(len(v))} if name == 'caller_write' else None, rng=rng)
                if not ok:
                    ctx.hist('op-raised:%s:%s' % h.failed)
                    break
            # the donor object is untouched by everything the second object did (its buffer is what v views); only the caller's own write reached it
            nw = sum(1 for o in h.ops if o[0] == 'caller_write')
            diff = int(np.sum(np.asarray(donor.values) != keep))
            report('C05.a operations on a signal object constructed from (a view of) another object\'s values change neither that array nor the other object', diff <= nw,
                   None if diff <= nw else h.inputs(), {'donor samples changed': diff, 'caller writes': nw}, {'class': cls, 'operation': 'constructor(view)'})
            finish(h, 'view of another object given to the constructor', i)
            # reset_values / add_series / add_signal of a second object
            for op in ('reset_values', 'add_series', 'add_signal'):
                if op not in rows or (op != 'reset_values' and not (spec == 'self' or spec[2] in (1, -1) and spec[0] in (0, None) and spec[1] is None)):
                    continue
                h2 = run_history(ctx, report, 'AccSignal', O.rec(rng, n), dt, [], rng)
                if h2 is None:
                    continue
                ok = h2.do(op, {'own_view': spec, 'donor_values': donor_values.tolist()})
                k = len(h2.held) - 1
                for name, args in ((rng.choice(inplace), None), ('caller_write', {'k': k, 'index': rng.randrange(len(h2.held[k]))}), (rng.choice(inplace), None)):
                    if not ok:
                        break
                    ok = h2.do(name, args, rng=rng)
                if not ok:
                    ctx.hist('op-raised:%s:%s' % h2.failed)
                finish(h2, 'view of another object handed to %s' % op, i)
        ctx.flush()


_run_main3 = run


def run(ctx):
    _run_main3(ctx)
    extras3(ctx)
    ctx.flush()



# ---- round 8: an array-level function called on a signal object returns what it returns for any other object holding the same record -----------
# (seed C05-r8-1: the result depended on which transform length the object had used for its OWN spectrum before)
_run_main_fc5 = run


def run(ctx):
    _run_main_fc5(ctx)
    import c06
    c06._x4_foreign_cache(ctx, clause='C05.d an array-level function returns the same result when called again on an object holding the same record '
                                       '(fresh object vs an object that generated its own spectrum with another transform length; bit for bit)')
    ctx.flush()


# ---- round 9 (hx_r9c): records held in containers that are not plain ndarrays but hand NumPy their own buffer -----------------------------------
# np.ma.MaskedArray, np.memmap (a file under .work/), a trivial ndarray subclass (also strided), np.recarray (view / field), an object with
# __array__, array.array: np.asarray of these is ANOTHER object viewing the caller's memory, so "asarray returned something new" is not a copy.
# Given to the constructor / reset_values / add_series they are arrays the caller passed in (C05.a): the usual ownership clauses, evaluated by the
# same history machinery (in-place corrections afterwards, caller writes, reads in between).

def _x5_shares(s, held):
    try:
        return bool(np.shares_memory(np.asarray(s.values), np.asarray(held)))
    except Exception:  # noqa
        return False


def extras5(ctx):
    rng = ctx.rng
    report = ctx._c05_report
    rows = table_rows()
    quick = ctx.tier == 'quick'
    inplace = [r for r in INPLACE_OPS if r in rows]
    nd_kinds = [k for k in O.WRAP_KINDS if k not in ('__array__ wrapper', 'array.array')]
    for rep in range(1 if quick else 8):
        for kind in O.WRAP_KINDS:
            for how in ('constructor', 'reset_values', 'add_series'):
                if how != 'constructor' and (kind not in nd_kinds or how not in rows):
                    continue
                n = rng.choice([48, 64, 100])
                dt = rng.choice([0.01, 0.02])
                cls = 'Signal' if rng.random() < 0.2 else 'AccSignal'
                vals = O.rec(rng, n)
                if how == 'constructor':
                    w = O.wrap_array(vals, kind)
                    h = Own.__new__(Own)
                    r = call_impl(Own.__init__, h, report, ctx, cls, w, dt, False)
                    if r[0] != 'ok':
                        ctx.hist('constructor-raised(%s):%s' % (kind, r[1]))
                        continue
                    h.start.update(ctor_wrap=kind, ctor_kind='%s (%s) holding float64 samples' % (type(w).__name__, kind))
                    k = 0
                else:
                    h = run_history(ctx, report, cls, O.rec(rng, n), dt, [rng.choice(['pga', 'fa_spectrum', 'values'])] if cls == 'AccSignal' and rng.random() < 0.5 else [], rng, corr=False)
                    if h is None or not h.do(how, {('values' if how == 'reset_values' else 'series'): vals.tolist(), 'wrap': kind}):
                        ctx.hist('op-raised(%s)' % kind)
                        continue
                    k = len(h.held) - 1
                    w = h.held[k]
                ctx.hist('ownership5/%s given to %s' % (kind, how))
                ctx.count_case(('x5-own', kind, how, vals.tobytes()[:64]), True, sample={'class': cls, 'container': kind, 'given to': how} if rep == 0 and how == 'constructor' else None)
                sh = _x5_shares(h.s, w)
                report(CL_NOSHARE, not sh, None if not sh else h.inputs(), {'after': how, 'container': kind}, {'operation': how, 'passed_by': [how], 'class': cls, 'container': kind})
                ok = True
                todo = [x for x in inplace if cls == 'AccSignal' or x in O.SIGNAL_METHODS]
                for name, args in ((rng.choice(todo) if todo else 'caller_write', None), ('caller_write', {'k': k, 'index': rng.randrange(n)}),
                                   (rng.choice(todo) if todo else 'caller_write', None)):
                    if name == 'caller_write' and args is None:
                        args = {'k': k, 'index': rng.randrange(n)}
                    ok = h.do(name, args, rng=rng)
                    if not ok:
                        ctx.hist('op-raised:%s:%s' % h.failed)
                        break
                    sh = _x5_shares(h.s, w)
                    report(CL_NOSHARE, not sh, None if not sh else h.inputs(), {'after': name, 'container': kind}, {'operation': name, 'passed_by': [how], 'class': cls, 'container': kind})
        ctx.flush()


_run_main5 = run
_replay_case_r8 = replay_case


def replay_case(ctx, payload):
    inp = payload.get('inputs') or {}
    if 'ctor_wrap' not in inp and 'history' in inp:     # a failure reported from inside the constructor step carries the container's type name only
        tname = str(inp.get('ctor_kind', '')).split(':')[0].split(' ')[0]
        wrap = {'MaskedArray': 'masked', 'memmap': 'memmap', '_PlainSub': 'subclass', 'recarray': 'recarray-view', 'ArrayHolder': '__array__ wrapper', 'array': 'array.array'}.get(tname)
        if wrap:
            inp = dict(inp, ctor_wrap=wrap)
    if 'ctor_wrap' not in inp:
        return _replay_case_r8(ctx, payload)
    bad = []
    h = Own(lambda clause, ok, inputs, detail, facts: None if ok else bad.append((clause, detail)), ctx, inp.get('cls', 'AccSignal'),
            O.wrap_array(inp['ctor_values'], inp['ctor_wrap']), inp['dt'], corr=False)
    if _x5_shares(h.s, h.held[0]):
        bad.append((CL_NOSHARE, 'constructor'))
    for name, args in inp['history']:
        if not h.do(name, args if name not in h.quants else None):
            print('operation raised:', h.failed)
            break
    for b in bad:
        print('fails:', b)
    return not bad


def run(ctx):
    _run_main5(ctx)
    extras5(ctx)
    ctx.flush()
