"""C18 — two-component rotation and cluster alignment do what they say."""
import math
from fractions import Fraction

import numpy as np

import gen
from core import fr, w_rat, w_rats, p_rats, p_ints, cmp_exact, cmp_budget, call_impl
from _c17_common import norm_res, cmp_seq, cmp_rows, w_rows, p_rows, R9, LCM25, DYADIC_DTS

RULE = ("rotation: random component pairs (dyadic/noise/sine, n 1..300/3000), angles {0,90,180,270,-90,360,random}, offsets "
        "{0,10,30.5,90,180,200,359,360,400,-45.25,-200,725}, points {1,2,5,100}, parameter in {pga,pgv,arias_intensity}, scalar- and "
        "array-valued callables, failing assertions (dt, npts) and missing measure; clusters of 2..4 signals, every master_index: "
        "time_match with integer lags -steps+1..steps-1 in both directions (steps in {1,2,3,5,10}), slaves = shifted master with random "
        "padding, unrelated and 0/1 records (ties: scan order), ragged and degenerate clusters (error kinds); same_start with windows "
        "(start,end) in time on dyadic dt (exact) and decimal dt (window ends at half steps), default window, windows beyond the record, "
        "empty windows; get_section_average / time_indices on a grid of (npts, dt, start, end) incl. end = -1 and index form. "
        "distinct = hash of (function, records, options); non-trivial = some record has length >= 3 and is not constant")
TIE = ("correspondence (hand model Model/Multiple.lean on exact rationals: combineAtAngle with the impl's cos/sin doubles, rotatedDegrees, "
       "timeMatch, sameStart, sectionAverage, timeIndices)")
NOT_PROVED = ["libm cos/sin/radians are the real functions up to rounding (C18.a is proved over the reals; checked to 1e-12)",
              "time_match on clusters whose records have different lengths IS proved (Props/C18Ragged: time_match_ragged_spec, time_match_ragged_short_raises); the base theorem time_match_spec assumes equal lengths",
              "IEEE rounding of the section means and squared residuals (exact on the dyadic/integer cases, measured otherwise)"]
ASSUMPTIONS = ["np.cos/np.sin/np.radians are the real functions up to rounding"]


PROP_MODULES = ['C18', 'C18Ragged', 'C18Gen', 'C18Combine', 'C18GenCombine']

def nontriv(recs):
    return any(gen.nontrivial_record(r) for r in recs)


# ------------------------------------------------------------------------------------------------------------ rotation

def rotation(ctx):
    import eqsig
    from eqsig import im
    from eqsig.multiple import combine_at_angle, compute_rotated
    rng = ctx.rng
    n_cases = 200 if ctx.tier == 'quick' else 2000
    hv_th = gen.hint_values(ctx, -720.0, 1080.0, cap=24, maps=(lambda c: c, lambda c: math.degrees(c)))     # source hints: angles (degrees, or given in radians) at / around every new float constant
    for i in range(n_cases):
        exact = i % 3 == 0
        n = gen.log_int(rng, 1, 64 if exact else (300 if ctx.tier == 'quick' else 3000))
        dt = rng.choice(DYADIC_DTS) if exact else gen.any_dt(rng)
        mk = (lambda: gen.dyadic_record(rng, n)) if exact else (lambda: gen.any_record(rng, n, dt)[1])
        ns, we = mk(), mk()
        a_ns, a_we = ctx.aged(eqsig.AccSignal, ns, dt), ctx.aged(eqsig.AccSignal, we, dt)
        ctx.hist('rotation/' + ('dyadic' if exact else 'mixed'))
        ctx.count_case(('rot', ns.tobytes(), we.tobytes(), dt), nontriv([ns, we]),
                       sample={'fn': 'combine_at_angle/compute_rotated', 'n': n, 'dt': dt} if i < 2 else None)
        scale = max(float(np.max(np.abs(ns))), float(np.max(np.abs(we))), 1e-300)
        for theta in [0, 90, 180, 270, -90, 360, rng.uniform(-400, 800), rng.choice([30, 45, 60, 123.5])] + (rng.sample(hv_th, min(3, len(hv_th))) if hv_th else []):
            inputs = {'ns': ns, 'we': we, 'dt': dt, 'angle': theta}
            res = call_impl(combine_at_angle, a_ns, a_we, theta)
            if res[0] != 'ok':
                ctx.oracle('C18.a combine_at_angle returns for equally sampled components', False, inputs, detail=res)
                continue
            sig = res[1]
            c, s = float(np.cos(np.radians(theta))), float(np.sin(np.radians(theta)))
            ctx.corr('combine_at_angle', f"c18.combine|{w_rat(c)}|{w_rat(s)}|{w_rats(ns)}|{w_rats(we)}", ('ok', np.array(sig.values)),
                     # budget relative to the size of the TERMS ns*cos, we*sin (not of their sum, which cancels for ns = -we at 45 degrees)
                     lambda outs, val, sc=fr(float(max(np.max(np.abs(ns)), np.max(np.abs(we)), 1e-300))): cmp_budget(list(val), p_rats(outs[0]), Fraction(1, 10**12), scale=sc)[0],
                     inputs=inputs)
            ctx.oracle('C18.a combine_at_angle returns an AccSignal with the components\' time step and length',
                       isinstance(sig, eqsig.AccSignal) and sig.dt == dt and sig.npts == n, inputs)
            want = ns * math.cos(math.radians(theta)) + we * math.sin(math.radians(theta))
            dev = float(np.max(np.abs(sig.values - want))) / scale
            ctx.gap('combine_at_angle vs ns*cos+we*sin', dev)
            ctx.oracle('C18.a combination at angle theta == ns*cos(theta) + we*sin(theta)', dev <= 1e-12, inputs, detail={'deviation/scale': dev})
            if theta == 0:
                ctx.oracle('C18.a theta = 0 gives ns', np.array_equal(sig.values, ns), inputs)
            if theta == 90:
                ctx.oracle('C18.a theta = 90 gives we', float(np.max(np.abs(sig.values - we))) <= 1e-15 * scale, inputs)
            opp = combine_at_angle(a_ns, a_we, theta + 180)
            ctx.oracle('C18.a theta + 180 negates the combination', float(np.max(np.abs(opp.values + sig.values))) <= 1e-12 * scale, inputs)
        # ---- compute_rotated
        off = rng.choice([0, 0.0, 10, 30.5, 90, 180, 200, 359, 360, 400, -45.25, -200, 725]) if rng.random() < 0.8 else rng.uniform(-720, 720)
        points = rng.choice([2, 5, 100, 1]) if n <= 400 else rng.choice([2, 5])
        measures = [('parameter', 'pga', lambda sg: sg.pga), ('parameter', 'pgv', lambda sg: sg.pgv),
                    ('parameter', 'arias_intensity', lambda sg: im.calc_arias_intensity(sg)[-1]),
                    ('func', 'scalar callable (sum of squares)', lambda sg: float(np.sum(sg.values ** 2))),
                    ('func', 'array-valued callable (cumulative |a|; last element taken)', lambda sg: np.cumsum(np.abs(sg.values))),
                    # a parameter NAME is getattr(combination, name) whatever its type: array-valued attributes are returned whole
                    ('parameter', 'velocity', lambda sg: sg.velocity), ('parameter', 'values', lambda sg: sg.values),
                    ('parameter', 'pgd', lambda sg: sg.pgd), ('parameter', 'displacement', lambda sg: sg.displacement),
                    ('parameter', 'npts', lambda sg: sg.npts)]
        how, name, fn = measures[i % len(measures)]
        inputs = {'ns': ns, 'we': we, 'dt': dt, 'angle_off_ns': off, 'points': points, 'measure': name}
        ctx.hist('rotated/measure=' + name.split(' ')[0])
        ctx.hist(f'rotated/points={points}')
        if how == 'parameter':
            res = call_impl(compute_rotated, a_ns, a_we, angle_off_ns=off, parameter=name, points=points)
        else:
            res = call_impl(compute_rotated, a_ns, a_we, angle_off_ns=off, func=fn, points=points)
        if res[0] != 'ok':
            ctx.oracle('C18.b compute_rotated returns for equally sampled components and a given measure', False, inputs, detail=res)
        else:
            deg, vals = res[1]
            ctx.corr('compute_rotated/degrees', f"c18.rotated_degrees|{w_rat(off)}|{points}", ('ok', deg),
                     lambda outs, val: cmp_budget(list(val), p_rats(outs[0]), Fraction(1, 10**12), scale=360)[0], inputs=inputs)
            ctx.oracle('C18.b one angle and one value per requested point', len(deg) == points and len(vals) == points, inputs)
            ok_deg = bool(np.all((deg >= 0) & (deg < 360)))
            if points >= 2:
                for k in range(points):
                    raw = -fr(off) + Fraction(180 * k, points - 1)
                    d = (fr(float(deg[k])) - raw) / 360
                    ok_deg = ok_deg and abs(d - round(d)) <= Fraction(1, 10**12)
                span = float((deg[-1] - deg[0]) % 360)
                ok_deg = ok_deg and abs(span - 180) <= 1e-9
            ctx.oracle('C18.b the angles span a half circle from -offset: degrees[i] = -off + 180 i/(points-1) mod 360, in [0, 360)', ok_deg,
                       inputs, detail={'degrees': deg[:6]})
            want = []
            for d in deg:
                val = fn(combine_at_angle(a_ns, a_we, d))
                want.append(val[-1] if (how == 'func' and hasattr(val, '__len__')) else val)
            want = np.array(want, dtype=float)
            sc = max(float(np.max(np.abs(want))), 1e-300)
            got = np.asarray(vals, dtype=float)
            ctx.oracle('C18.b the i-th value is exactly the measure of the combination at degrees[i]',
                       got.shape == want.shape and float(np.max(np.abs(got - want))) <= 1e-12 * sc, inputs,
                       detail={'shape': got.shape, 'want_shape': want.shape})
        if i % 6 == 0:
            r1 = call_impl(compute_rotated, a_ns, a_we, angle_off_ns=off, points=5)
            ctx.oracle('C18.b without parameter and func compute_rotated raises ValueError', r1 == ('err', 'ValueError'), inputs, detail=r1)
            r2 = call_impl(compute_rotated, a_ns, eqsig.AccSignal(we, dt / 2), parameter='pga', points=5)
            r3 = call_impl(compute_rotated, a_ns, eqsig.AccSignal(np.concatenate([we, [0.0]]), dt), parameter='pga', points=5)
            ctx.oracle('C18.b components with different dt or length fail the assertions', r2 == ('err', 'AssertionError') and
                       r3 == ('err', 'AssertionError'), inputs, detail=[r2, r3])
    ctx.flush()


# -------------------------------------------------------------------------------------------------------- time_match

def residuals(bm, om, steps):
    """exact residual of every candidate lag over the compared window (records of equal length)"""
    n = len(bm)
    W = n - steps
    out = {}
    for l in range(-steps + 1, steps):
        if W <= 0:
            out[l] = 0
        elif l >= 0:
            out[l] = sum((om[k + l] - bm[k]) ** 2 for k in range(W))
        else:
            out[l] = sum((bm[k - l] - om[k]) ** 2 for k in range(W))
    return out


def shifted(rng, base, lag):
    n = len(base)
    if lag >= 0:
        return [rng.randint(-3, 3) for _ in range(lag)] + base[:n - lag]
    return base[-lag:] + [rng.randint(-3, 3) for _ in range(-lag)]


def tm_case(ctx, sigs, master, steps, kind, want_lags=None):
    import eqsig
    recs = [np.array(x, dtype=float) for x in sigs]
    inputs = {'signals': recs, 'master_index': master, 'steps': steps, 'dt': 0.5}
    ctx.hist('time_match/' + kind)
    ctx.hist(f'time_match/n_signals={len(sigs)}')
    ctx.count_case(('tm', tuple(r.tobytes() for r in recs), master, steps), nontriv(recs))
    holder = {}

    def f():
        cl = eqsig.Cluster(recs, 0.5, master_index=master)
        holder['cl'] = cl
        lag = cl.time_match(steps=steps)
        return int(lag), [cl.values_by_index(i) for i in range(len(recs))]
    res = norm_res(call_impl(f))
    req = f"c18.time_match|{master}|{steps}|{w_rows(recs)}"

    def compare(outs, val):
        if p_ints(outs[0]) != [val[0]]:
            return f"returned lag impl={val[0]} model={outs[0]}"
        return cmp_rows(ctx, 'time_match', [list(np.asarray(v, dtype=float)) for v in val[1]], p_rows(outs[1]), True)
    ctx.corr('Cluster.time_match', req, res if res[0] == 'err' else ('ok', res[1]), compare, inputs=inputs)
    if want_lags is None:
        return
    if res[0] != 'ok':
        ctx.oracle('C18.d time_match returns on a cluster of equally long records', False, inputs, detail=res)
        return
    lag, out = res[1]
    n = len(recs[0])
    ctx.oracle('C18.d time_match leaves every record length unchanged', all(len(o) == n for o in out), inputs,
               detail=[len(o) for o in out])
    ctx.oracle('C18.d after time_match the values remain arrays (ndarray)', all(isinstance(o, np.ndarray) for o in out), inputs,
               detail=[type(o).__name__ for o in out])
    ctx.oracle('C18.d time_match leaves the master unchanged', np.array_equal(np.asarray(out[master]), recs[master]), inputs)
    slaves = [k for k in range(len(recs)) if k != master]
    bm = [Fraction(int(x)) for x in sigs[master]]
    for k in slaves:
        L = want_lags.get(k)
        if L is None:
            continue
        r = residuals(bm, [Fraction(int(x)) for x in sigs[k]], steps)
        unique = r[L] == 0 and all(v > 0 for l, v in r.items() if l != L)
        ctx.hist('time_match/unique-min=' + str(unique))
        if not unique:
            continue
        o = np.asarray(out[k], dtype=float)
        W = n - steps
        if len(o) == n:
            if L >= 0:
                ok = all(o[j] == recs[master][j] for j in range(W))
            else:
                ok = all(o[j - L] == recs[master][j - L] for j in range(W))
            ctx.oracle('C18.d after time_match the overlapping samples of a slave that was the master delayed/advanced by L coincide with '
                       'the master', ok, {**inputs, 'slave': k, 'lag': L})
        if k == slaves[-1]:
            ctx.oracle('C18.d time_match returns the lag L of the (last) slave, -steps < L < steps, either direction', lag == L,
                       {**inputs, 'slave': k, 'lag': L}, detail={'returned': lag})


def time_match(ctx):
    rng = ctx.rng
    reps = 2 if ctx.tier == 'quick' else 12
    # corpus: the two-signal, master 0, lag 6 case of the test-suite shape, and a 3-signal master-1 case
    base = [0, 0, 1, 4, 2, -3, 5, 1, 0, 2, -1, 3, 0, 0, 1, 2, -2, 4, 0, 0, 0, 1, 0, 0]
    tm_case(ctx, [base, shifted(rng, base, 6)], 0, 10, 'corpus', {1: 6})
    tm_case(ctx, [shifted(rng, base, 1), base, shifted(rng, base, -2)], 1, 3, 'corpus', {0: 1, 2: -2})
    for _ in range(reps):
        for nsig in (2, 3, 4):
            for master in range(nsig):
                for steps in (1, 2, 3, 5, 10):
                    for lag in range(-steps + 1, steps):
                        if ctx.tier == 'quick' and steps == 10 and lag % 3:
                            continue
                        n = rng.choice([steps + 2, 2 * steps + 3, 12 + steps, 20 + steps, 40])
                        base = [rng.randint(-9, 9) for _ in range(n)]
                        sigs, want = [], {}
                        for k in range(nsig):
                            if k == master:
                                sigs.append(list(base))
                                continue
                            u = rng.random()
                            if u < 0.75 or k == (master + 1) % nsig:
                                L = lag if k == (master + 1) % nsig else rng.randint(-steps + 1, steps - 1)
                                sigs.append(shifted(rng, base, L))
                                want[k] = L
                            elif u < 0.9:
                                sigs.append([rng.randint(-2, 2) for _ in range(n)])
                            else:
                                sigs.append([rng.choice([0, 1]) for _ in range(n)])
                        tm_case(ctx, sigs, master, steps, 'shifted', want)
        ctx.flush()
    # LONG records (the lag search and the rebuilt slave have no length limit)
    for n, steps, L in ([(5003, 3, 2), (7000, 2, -1)] if ctx.tier == 'quick' else [(5003, 3, 2), (7000, 2, -1), (5001, 5, -4), (12000, 3, 1), (20000, 2, 1)]) + \
            [(m, 2, 1) for m in gen.hint_sizes(ctx, lo=301, hi=30000, cap=3)]:          # source hints: record lengths around every new integer constant
        base = [rng.randint(-9, 9) for _ in range(n)]
        tm_case(ctx, [base, shifted(rng, base, L)], 0, steps, 'long', {1: L})
        tm_case(ctx, [shifted(rng, base, L), base, shifted(rng, base, -L)], 1, steps, 'long', {0: L, 2: -L})
    ctx.flush()
    for _ in range(40 if ctx.tier == 'quick' else 400):
        nsig = rng.choice([1, 2, 3, 4])
        sigs = [[rng.randint(-4, 4) for _ in range(rng.choice([0, 1, 2, 3, 5, 6, 9]))] for _ in range(nsig)]
        tm_case(ctx, sigs, rng.randrange(nsig), rng.choice([0, 1, 2, 3, 4]), 'ragged/degenerate')
    ctx.flush()


# -------------------------------------------------------------------------------------- same_start / section average

def sec_spec(v, dt, start, end):
    """mean of values[floor(start/dt) : floor(end/dt)+1] for start, end >= 0 (exact); 'err' if the cut exceeds the record; None if empty"""
    s = math.floor(fr(start) / fr(dt))
    e = math.floor(fr(end) / fr(dt)) + 1
    if e > len(v):
        return 'err'
    w = [fr(x) for x in v[s:e]]
    return None if not w else sum(w) / len(w)


def same_start(ctx):
    import eqsig
    rng = ctx.rng
    cases = []
    # corpus: F18-1 witnesses (3 signals: the third is never aligned on the unchanged tree; master 1: signal 0 is never aligned)
    w3 = [np.array([1.0, 2.0, 3.0, 4.0]), np.array([10.0, 20.0, 30.0, 40.0]), np.array([5.0, 5.0, 8.0, 0.0])]
    cases.append(('corpus-F18-1', w3, 0.5, 0, 0, 1))
    cases.append(('corpus-F18-1', w3, 0.5, 1, 0, 1))
    reps = 4 if ctx.tier == 'quick' else 30
    for _ in range(reps):
        for nsig in (2, 3, 4):
            for master in range(nsig):
                for (dt, start, end) in [(0.5, 0, 1), (0.25, 0, 1), (0.5, 0.5, 2.0), (1.0, 0, -1), (0.5, 0, 10.0), (0.5, 2.0, 1.0),
                                         (0.5, 1.0, 1.0), (2.0, 0, 1), (0.01, 0, 0.105), (0.01, 0.025, 0.205), (0.005, 0, 0.0525),
                                         (0.02, 0.01, 1.01)]:
                    exact = dt in DYADIC_DTS
                    n = rng.choice([3, 4, 6, 9, 12]) if exact else rng.choice([30, 60, 200])
                    lens = [n] * nsig if rng.random() < 0.7 else [rng.choice([2, 3, 5, 8, 25]) if exact else rng.choice([8, 30, 100]) for _ in range(nsig)]
                    if exact:
                        recs = [gen.dyadic_record(rng, m) * LCM25 for m in lens]
                    else:
                        recs = [gen.noise_record(rng, m) + rng.uniform(-5, 5) for m in lens]
                    cases.append(('dyadic' if exact else 'decimal', recs, dt, master, start, end))
    for kind, recs, dt, master, start, end in cases:
        inputs = {'signals': recs, 'dt': dt, 'master_index': master, 'start': start, 'end': end}
        exact = dt in DYADIC_DTS
        ctx.hist('same_start/' + kind)
        ctx.hist(f'same_start/n_signals={len(recs)}')
        ctx.count_case(('ss', tuple(r.tobytes() for r in recs), dt, master, start, end), nontriv(recs),
                       sample={'fn': 'Cluster.same_start', **inputs} if kind.startswith('corpus') and master == 1 else None)

        def f():
            cl = eqsig.Cluster([r.copy() for r in recs], dt, master_index=master)
            cl.same_start(start=start, end=end)
            return [np.array(cl.values_by_index(i)) for i in range(len(recs))]
        res = norm_res(call_impl(f))
        ctx.hist('same_start/outcome=' + (res[1] if res[0] == 'err' else 'ok'))
        ctx.corr('Cluster.same_start', f"c18.same_start|{w_rat(dt)}|{master}|{w_rat(start)}|{w_rat(end)}|{w_rows(recs)}", res,
                 lambda outs, val, exact=exact: cmp_rows(ctx, 'same_start', [list(v) for v in val], p_rows(outs[0]), exact, Fraction(1, 10**12)),
                 inputs=inputs)
        if end == -1 or end < 0 or start < 0:
            continue
        specs = [sec_spec(r, dt, start, end) for r in recs]
        if any(s == 'err' for s in specs):
            ctx.oracle('C18.e a section cut beyond the record raises', res[0] == 'err', inputs, detail=res)
            continue
        if any(s is None for s in specs):
            continue                                   # empty window: nan, outside the property's domain
        if res[0] != 'ok':
            ctx.oracle('C18.c same_start returns when every record covers the section', False, inputs, detail=res)
            continue
        out = res[1]
        ctx.oracle('C18.c same_start leaves the master unchanged', np.array_equal(out[master], recs[master]), inputs)
        ctx.oracle('C18.c same_start keeps the number of signals and their lengths', [len(o) for o in out] == [len(r) for r in recs], inputs)
        for k in range(len(recs)):
            if k == master:
                continue
            after = sec_spec(out[k], dt, start, end)
            scale = max(abs(specs[master]), abs(specs[k]), Fraction(1, 10**300))
            tol = Fraction(0) if exact else Fraction(1, 10**9) * scale
            ctx.oracle('C18.c after same_start the section average of every non-master signal equals the master\'s',
                       after is not None and abs(after - specs[master]) <= tol, {**inputs, 'signal': k},
                       detail={'after': float(after) if after is not None else None, 'master': float(specs[master])})
            if len(out[k]) != len(recs[k]):
                continue
            shift = np.asarray(out[k]) - recs[k]
            ctx.oracle('C18.c same_start shifts a signal by one constant', float(np.max(shift) - np.min(shift)) <= 1e-9 * float(scale) + 0.0,
                       {**inputs, 'signal': k})
    ctx.flush()


def section_average(ctx):
    import eqsig
    from eqsig.fns.time_shift import time_indices
    rng = ctx.rng
    grid_n = (1, 2, 3, 5, 8, 9)
    starts = (0, 0.25, 0.5, 1.0, 1.75, -0.5, -1.0, 3.0)
    ends = (-1, 0, 0.5, 1, 1.25, 2.0, 3.75, 4.0, 4.5, -0.5, -2.0)
    p_keep = 0.25 if ctx.tier == 'quick' else 1.0
    for npts in grid_n:
        for dt in (0.5, 0.25, 1.0, 2.0):
            for start in starts:
                for end in ends:
                    if rng.random() > p_keep:
                        continue
                    inputs = {'npts': npts, 'dt': dt, 'start': start, 'end': end}
                    ctx.hist('time_indices')
                    res = norm_res(call_impl(time_indices, npts, dt, start, end, False))
                    ctx.corr('time_indices', f"c18.time_indices|{npts}|{w_rat(dt)}|{w_rat(start)}|{w_rat(end)}",
                             res if res[0] == 'err' else ('ok', [int(res[1][0]), int(res[1][1])]),
                             lambda outs, val: None if p_ints(outs[0]) == list(val) else f"impl={val} model={outs[0]}", inputs=inputs)
                    v = gen.dyadic_record(rng, npts) * LCM25
                    sig = eqsig.Signal(v, dt)
                    res = norm_res(call_impl(lambda sig=sig: [float(sig.get_section_average(start=start, end=end))]))
                    inputs = {'values': v, 'dt': dt, 'start': start, 'end': end}
                    ctx.count_case(('sa', v.tobytes(), dt, start, end), gen.nontrivial_record(v))
                    ctx.corr('get_section_average', f"c18.section_average|{w_rat(dt)}|{w_rat(start)}|{w_rat(end)}|{w_rats(v)}", res,
                             lambda outs, val: cmp_exact(list(val), p_rats(outs[0])), inputs=inputs)
                    if start >= 0 and end >= 0:
                        want = sec_spec(v, dt, start, end)
                        if want == 'err':
                            ctx.oracle('C18.e a section cut beyond the record raises', res[0] == 'err', inputs, detail=res)
                        elif want is not None:
                            ctx.oracle('C18.e section average == mean of values[floor(start/dt) : floor(end/dt)+1]',
                                       res[0] == 'ok' and fr(res[1][0]) == want, inputs, detail=res)
        for si in (0, 1, 2, -1, -3, 7):
            for ei in (-1, 0, 1, 2, 3, npts, npts + 1, -2, 20):
                v = gen.dyadic_record(rng, npts) * LCM25
                sig = eqsig.Signal(v, 0.5)
                res = norm_res(call_impl(lambda sig=sig: [float(sig.get_section_average(start=si, end=ei, index=True))]))
                inputs = {'values': v, 'start_index': si, 'end_index': ei}
                ctx.hist('section_average/index-form')
                ctx.corr('get_section_average(index=True)', f"c18.section_average_idx|{si}|{ei}|{w_rats(v)}", res,
                         lambda outs, val: cmp_exact(list(val), p_rats(outs[0])), inputs=inputs)
                if si >= 0 and ei >= 0:
                    if ei > npts:
                        ctx.oracle('C18.e a section cut beyond the record raises', res[0] == 'err', inputs, detail=res)
                    elif si < ei:
                        want = sum(fr(x) for x in v[si:ei]) / len(v[si:ei]) if len(v[si:ei]) else None
                        if want is not None:
                            ctx.oracle('C18.e section average (index form) == mean of values[start:end]',
                                       res[0] == 'ok' and fr(res[1][0]) == want, inputs, detail=res)
    ctx.flush()


def run(ctx):
    rotation(ctx)
    time_match(ctx)
    same_start(ctx)
    section_average(ctx)
    ctx.flush()


# ---- extras2 (harness extension hx_b): exact scaling, top-level names and defaults, containers, large rotation / same_start instances -----------

def _x2_scale(ctx, cur):
    """(2) the combination, peak measures and section averages are of degree 1 in the records (exact for 2^+-600), the Arias intensity of degree 2
    (2^+-200 / 2^+-400), the lags found by time_match of degree 0: the aligned cluster of the scaled records is the scaled aligned cluster (the
    search compares sums of SQUARED residuals: 2^+-200 / 2^+-400; at 2^-600 every square underflows to 0 -- see NOTES, not demanded)"""
    import eqsig
    from eqsig.multiple import combine_at_angle, compute_rotated
    from _hxb_common import same, val
    rng = ctx.rng
    for it in range(30 if ctx.tier == 'quick' else 300):
        n = gen.log_int(rng, 3, 200)
        dt = gen.any_dt(rng)
        ns, we = gen.any_record(rng, n, dt)[1], gen.any_record(rng, n, dt)[1]
        theta = rng.choice([0, 90, 180, 33.0, -77.5, rng.uniform(-400, 800)])
        off = rng.choice([0, 30.5, 200, -45.25])
        inputs = {'ns': ns, 'we': we, 'dt': dt, 'angle': theta, 'angle_off_ns': off}
        cur.clear()
        cur.update(inputs)
        ctx.hist('extras2/scale/rotation')
        ctx.count_case(('x2s', ns.tobytes(), we.tobytes(), dt, theta), nontriv([ns, we]))
        mk = lambda a, f=1.0, d=dt: eqsig.AccSignal(a * f, d)   # noqa: E731
        base = np.array(combine_at_angle(mk(ns), mk(we), theta).values)
        rot = {p: compute_rotated(mk(ns), mk(we), angle_off_ns=off, parameter=p, points=5) for p in ('pga', 'pgv', 'arias_intensity')}
        for k in gen.EXTREME_POW2 + (-200, 200):
            f = 2.0 ** k
            sc = {**inputs, 'scale': '2**%d' % k}
            with np.errstate(all='ignore'):
                g = val(call_impl(lambda: np.array(combine_at_angle(mk(ns, f), mk(we, f), theta).values)))
                ctx.oracle('C18.a the combination is linear: scaling both components by a power of two scales it exactly', g is not None and gen.scaled_exactly(g, base, f), sc)
                for p, deg in (('pga', 1), ('pgv', 1), ('arias_intensity', 2)):
                    if deg == 2 and abs(k) > 400:
                        continue
                    r = val(call_impl(compute_rotated, mk(ns, f), mk(we, f), angle_off_ns=off, parameter=p, points=5))
                    ctx.oracle('C18.b the rotated %s scan is homogeneous of degree %d: same angles, values scaled exactly by the power of two' % (p, deg),
                               r is not None and same(r[0], rot[p][0]) and gen.scaled_exactly(r[1], rot[p][1], f ** deg), sc,
                               detail=None if r is None else {'got': r[1], 'base': rot[p][1]})
                # the time step does not enter the combination; pga scan unchanged, angles unchanged
                r = val(call_impl(compute_rotated, mk(ns, 1.0, dt * f), mk(we, 1.0, dt * f), angle_off_ns=off, parameter='pga', points=5))
                ctx.oracle('C18.b the rotated pga scan does not depend on the time step (dt x 2^k)', r is not None and same(r[0], rot['pga'][0]) and same(r[1], rot['pga'][1]), sc)
    for it in range(30 if ctx.tier == 'quick' else 300):
        nsig = rng.choice([2, 3, 4])
        master = rng.randrange(nsig)
        steps = rng.choice([1, 2, 3, 5])
        n = rng.choice([2 * steps + 3, 12 + steps, 40, 90])
        basev = [rng.randint(-9, 9) / rng.choice([1.0, 8.0]) for _ in range(n)]
        lags = [0 if k == master else rng.randint(-steps + 1, steps - 1) for k in range(nsig)]
        sigs = [list(basev) if k == master else shifted(rng, basev, lags[k]) for k in range(nsig)]
        dt = rng.choice(DYADIC_DTS)
        start, end = sorted([rng.choice([0, dt, 3 * dt]), rng.choice([2 * dt, 5 * dt, n * dt])])
        inputs = {'signals': sigs, 'dt': dt, 'master_index': master, 'steps': steps, 'lags': lags, 'start': start, 'end': end}
        cur.clear()
        cur.update(inputs)
        ctx.hist('extras2/scale/cluster')
        ctx.count_case(('x2sc', repr(sigs), master, steps), True)

        def run_cluster(f, what, d=dt):
            c = eqsig.Cluster([np.array(s, dtype=float) * f for s in sigs], d, master_index=master)
            if what == 'time_match':
                c.time_match(steps=steps)
            else:
                c.same_start(start=start, end=end)
            return [np.array(c.values_by_index(i), dtype=float) for i in range(nsig)]
        for what, ks in (('time_match', (200, -200, 400, -400)), ('same_start', gen.EXTREME_POW2)):
            b = val(call_impl(run_cluster, 1.0, what))
            if b is None:
                continue
            for k in ks:
                with np.errstate(all='ignore'):
                    g = val(call_impl(run_cluster, 2.0 ** k, what))
                ctx.oracle('C18 %s: the result for records scaled by a power of two is the scaled result (every signal, exactly)' % what,
                           g is not None and len(g) == nsig and all(gen.scaled_exactly(x, y, 2.0 ** k) for x, y in zip(g, b)), {**inputs, 'scale': '2**%d' % k})
            if what == 'time_match':
                k = rng.choice([-600, 600, -30])
                g = val(call_impl(run_cluster, 1.0, what, dt * 2.0 ** k))
                ctx.oracle('C18.c time_match does not depend on the time step (dt x 2^k)', g is not None and all(same(x, y) for x, y in zip(g, b)), {**inputs, 'dt scale': '2**%d' % k})


def _x2_options(ctx, cur):
    """(3) top-level names eqsig.combine_at_angle / eqsig.compute_rotated / eqsig.Cluster, documented defaults (angle_off_ns=0, points=100;
    same_start window 0..1 s; time_match steps=10; master_index=0), Signal.get_section_average == fns.average.get_section_average;
    (4) components built from any container / dtype"""
    import eqsig
    import eqsig.multiple as mu
    from eqsig.fns import average
    from _hxb_common import same, val
    rng = ctx.rng
    ctx.oracle('C18 eqsig.combine_at_angle / eqsig.compute_rotated / eqsig.Cluster are the functions of eqsig.multiple', eqsig.combine_at_angle is mu.combine_at_angle and
               eqsig.compute_rotated is mu.compute_rotated and eqsig.Cluster is mu.Cluster, {})
    for it in range(20 if ctx.tier == 'quick' else 200):
        n = gen.log_int(rng, 110, 300)         # longer than the default 1 s window of same_start for every step below
        dt = rng.choice([0.01, 0.02, 0.05, 0.125])
        ns, we = gen.int_record(rng, n, -9, 9), gen.int_record(rng, n, -9, 9)
        inputs = {'ns': ns, 'we': we, 'dt': dt}
        cur.clear()
        cur.update(inputs)
        ctx.hist('extras2/options')
        ctx.count_case(('x2o', ns.tobytes(), we.tobytes(), dt), True)
        a, b = eqsig.AccSignal(ns, dt), eqsig.AccSignal(we, dt)
        g, want = val(call_impl(eqsig.compute_rotated, a, b, parameter='pga')), mu.compute_rotated(a, b, angle_off_ns=0.0, parameter='pga', func=None, points=100)
        ctx.oracle('C18.b compute_rotated defaults: angle_off_ns=0, points=100 (100 angles from 0 to 180)', g is not None and same(g[0], want[0]) and same(g[1], want[1]) and
                   len(g[0]) == 100 and g[0][0] == 0 and g[0][-1] == 180, inputs)
        g = val(call_impl(eqsig.compute_rotated, a, b, 30.0, 'pga', None, 7))
        want = mu.compute_rotated(a, b, angle_off_ns=30.0, parameter='pga', points=7)
        ctx.oracle('C18.b compute_rotated positional form == keyword form', g is not None and same(g[0], want[0]) and same(g[1], want[1]), inputs)
        ref = np.array(mu.combine_at_angle(a, b, 33.0).values)
        for lab, c in gen.container_variants(ns):
            ctx.hist('extras2/container/' + lab)
            c2 = dict(gen.container_variants(we))[lab]
            g = val(call_impl(lambda: np.array(eqsig.combine_at_angle(eqsig.AccSignal(c, dt), eqsig.AccSignal(c2, dt), 33.0).values)))
            ctx.oracle('C18.a the combination does not depend on the container or dtype the components were built from', same(g, ref), {**inputs, 'container': lab})
        # cluster defaults
        lag = rng.randint(-9, 9)
        sl = np.array(shifted(rng, list(ns), lag), dtype=float) + 2.5
        for what, dflt, expl in (('same_start', lambda c: c.same_start(), lambda c: c.same_start(start=0, end=1)),
                                 ('time_match', lambda c: c.time_match(), lambda c: c.time_match(steps=10))):
            outs = []
            for f in (dflt, expl):
                c = eqsig.Cluster([ns.copy(), sl.copy() - (2.5 if what == 'time_match' else 0.0)], dt)
                r = call_impl(f, c)
                outs.append(None if r[0] != 'ok' else [np.array(c.values_by_index(i), dtype=float) for i in range(2)] + [c.master_index])
            ctx.oracle('C18 Cluster defaults (master_index=0; %s)' % ('same_start window 0..1 s' if what == 'same_start' else 'time_match steps=10'),
                       outs[0] is not None and outs[1] is not None and outs[0][2] == 0 and same(outs[0][0], outs[1][0]) and same(outs[0][1], outs[1][1]) and same(outs[0][0], ns),
                       {**inputs, 'slave': sl, 'lag': lag})
        s_, e_ = sorted([rng.choice([0, dt, 0.1]), rng.choice([0.2, 0.5, n * dt, -1])]) if rng.random() < 0.7 else (0, -1)
        sig = eqsig.Signal(ns, dt)
        g1, g2 = call_impl(sig.get_section_average, start=s_, end=e_), call_impl(average.get_section_average, sig, start=s_, end=e_)
        ctx.oracle('C18.d Signal.get_section_average == fns.average.get_section_average', g1[0] == g2[0] and (g1[0] != 'ok' or g1[1] == g2[1] or (g1[1] != g1[1] and g2[1] != g2[1])),
                   {**inputs, 'start': s_, 'end': e_}, detail=[g1, g2])


def _x2_large(ctx, cur):
    """(1) components of 20 000 - 70 000 samples: combination against ns*cos+we*sin, the 0 / 90 / +180 identities, the pga scan against the
    combinations; same_start on clusters of long records (section averages equal the master's, master unchanged)"""
    import eqsig
    from eqsig.multiple import combine_at_angle, compute_rotated
    from _hxb_common import same, val, light_history
    rng = ctx.rng
    for n in ([rng.choice([20000, 32768, 32769]), rng.choice([50000, 65536, 70001])] if ctx.tier == 'quick' else [20000, 32768, 32769, 50000, 65536, 65537, 100000]) + \
            gen.hint_sizes(ctx, lo=4100, hi=1000000, cap=6):         # source hints: record lengths (>= 20.5 s at every step used here: the sections below) around every new integer constant, angles around every new float constant
        seed = rng.randrange(2 ** 31)
        g = np.random.default_rng(seed)
        dt = rng.choice([0.01, 0.005, 0.02])
        ns, we = g.standard_normal(n), g.standard_normal(n) * 3.0
        theta = rng.choice([33.0, 123.5, -77.25, 301.0] + gen.hint_values(ctx, -720.0, 1080.0, cap=12, maps=(lambda c: c, lambda c: math.degrees(c))))
        desc = {'generator': 'c18._x2_large: ns = standard_normal(n), we = 3 standard_normal(n)', 'n': n, 'numpy_seed': seed, 'dt': dt, 'angle': theta}
        cur.clear()
        cur.update(desc)
        ctx.hist('extras2/large')
        ctx.count_case(('x2l', n, seed, dt, theta), True, sample=desc)
        a, b = light_history(ctx, eqsig.AccSignal, ns, dt), light_history(ctx, eqsig.AccSignal, we, dt)
        ctx.last_object_history = None
        scale = float(max(np.max(np.abs(ns)), np.max(np.abs(we))))
        r = call_impl(combine_at_angle, a, b, theta)
        ok = r[0] == 'ok' and isinstance(r[1], eqsig.AccSignal) and r[1].npts == n and r[1].dt == dt
        if ok:
            want = ns * math.cos(math.radians(theta)) + we * math.sin(math.radians(theta))
            ok = float(np.max(np.abs(r[1].values - want))) <= 1e-12 * scale
        ctx.oracle('C18.a (large) combination at angle theta == ns*cos(theta) + we*sin(theta), an AccSignal with the components\' step and length', ok, desc)
        ctx.oracle('C18.a (large) theta = 0 gives ns, theta = 90 gives we, theta + 180 negates', same(combine_at_angle(a, b, 0).values, ns) and
                   float(np.max(np.abs(combine_at_angle(a, b, 90).values - we))) <= 1e-15 * scale and
                   float(np.max(np.abs(combine_at_angle(a, b, theta + 180).values + combine_at_angle(a, b, theta).values))) <= 1e-12 * scale, desc)
        off = rng.choice([0, 30.5, -45.25])
        rr = val(call_impl(compute_rotated, a, b, angle_off_ns=off, parameter='pga', points=4))
        ok = rr is not None and len(rr[0]) == 4 and len(rr[1]) == 4
        if ok:
            want = np.array([float(np.max(np.abs(ns * math.cos(math.radians(d)) + we * math.sin(math.radians(d))))) for d in rr[0]])
            ok = bool(np.all(np.abs(np.asarray(rr[1], dtype=float) - want) <= 1e-12 * scale)) and abs(float((rr[0][-1] - rr[0][0]) % 360) - 180) <= 1e-9
        ctx.oracle('C18.b (large) the pga scan returns, for angles spanning a half circle, the peak of each combination', ok, {**desc, 'angle_off_ns': off})
        ctx.oracle('C18 (large) rotation leaves the components unchanged', same(a.values, ns) and same(b.values, we), desc)
        # same_start on long records
        nsig = rng.choice([2, 3, 4])
        master = rng.randrange(nsig)
        recs = [g.standard_normal(n) + float(k) for k in range(nsig)]
        start, end = rng.choice([(0, 1), (0.5, 20.0), (0, (n - 2) * dt), (10.0, n * dt / 2)])
        c = eqsig.Cluster([x.copy() for x in recs], dt, master_index=master)
        r = call_impl(c.same_start, start=start, end=end)
        ok = r[0] == 'ok'
        if ok:
            for k in range(nsig):
                v = np.asarray(c.values_by_index(k))
                ok = ok and isinstance(c.values_by_index(k), np.ndarray) and v.shape == (n,)
                if k == master:
                    ok = ok and same(v, recs[master])
                else:
                    ok = ok and abs(c.signal_by_index(k).get_section_average(start=start, end=end) - c.signal_by_index(master).get_section_average(start=start, end=end)) <= 1e-11
                    ok = ok and float(np.max(np.abs((v - recs[k]) - (v[0] - recs[k][0])))) <= 1e-12 * (1 + nsig)
        ctx.oracle('C18.d (large) same_start: every non-master section average equals the master\'s, by a constant shift; master unchanged; values stay arrays', ok,
                   {**desc, 'signals': nsig, 'master_index': master, 'start': start, 'end': end}, detail=r if r[0] != 'ok' else None)


def extras2(ctx):
    from _hxb_common import guarded_sections
    guarded_sections(ctx, 'C18', [('scale', _x2_scale), ('options', _x2_options), ('large', _x2_large)])


_run_main2 = run


def run(ctx):
    _run_main2(ctx)
    extras2(ctx)
    ctx.flush()


# evidence: how the model is tied to the source on every run (as built, supersedes the value above)
TIE = 'translator (eqsig/multiple.py, get_section_average -> Gen/MultipleFns; Props/C18Gen) + correspondence (exact on dyadic inputs)'


# ---- round-7 deliveries (lw_small / tw_single3): further correspondences of models with new theorems -------------------------
import _lw_small as _LW  # noqa: E402
from _single3_corr import corr_single3  # noqa: E402
_run_main_r7 = run


def run(ctx):
    _run_main_r7(ctx)
    corr_single3(ctx, parts=('cluster',))
    ctx.flush()


# ---- tw_rest2: generated zero-and-peak / cluster / slow-Stockwell definitions vs the implementation ---------------------------
from _rest2_corr import corr_rest2  # noqa: E402
_run_main_rest2 = run


def run(ctx):
    _run_main_rest2(ctx)
    corr_rest2(ctx, parts=('cluster',))
    ctx.flush()


# ---- extras3 (hx_r7d, round 7): measures that keep STATE on the object they are given; lag matching on exactly linear records --------------------
# compute_rotated hands `func` (or getattr) one signal per angle.  The property promises "exactly the measure of that combination" for ALL callables,
# including those written like the library's own eqsig.stockwell helpers (store a transform on the signal and reuse it if present), those that
# memoise in an attribute / in a dictionary keyed on the object, and those that change the object they were given.  Any implementation that hands
# the same object (or an object with left-over lazily computed state) to two angles, or to two scans, answers such a measure with a stale value.

def _x3_measures(n, dt):
    """[(label, make() -> callable with its own private state, pure(sig) -> the same measure without any state)]"""
    from eqsig import stockwell

    def energy(sg):
        return float(np.sum(np.asarray(sg.values, dtype=float) ** 2))

    def mk_attr():
        def f(sg):
            if not hasattr(sg, '_x3_energy'):
                sg._x3_energy = energy(sg)
            return sg._x3_energy
        return f

    def mk_dict_attr():
        def f(sg):
            return sg.__dict__.setdefault('x3_cache', {}).setdefault('abs-sum', np.cumsum(np.abs(sg.values)))   # array-valued: last element taken
        return f

    def mk_keyed_on_object():
        seen = {}                                   # keyed on the object itself (keeps it alive, so ids are never reused)

        def f(sg):
            if sg not in seen:
                seen[sg] = float(np.max(sg.values) - np.min(sg.values))
            return seen[sg]
        return f

    def mk_counting():
        calls = {}

        def f(sg):
            k = calls[id(sg)][1] + 1 if id(sg) in calls else 1
            calls[id(sg)] = (sg, k)                 # the object is kept alive together with its count
            return float(sg.values[0]) if k == 1 else float('nan')   # only the FIRST look at an object is answered
        return f

    def mk_mutating():
        def f(sg):
            sg.add_constant(1.0)                    # works on the object it was given (a copy of the combination as far as the caller can tell)
            return sg.pga
        return f

    def mk_reading_then_memo():
        def f(sg):
            if getattr(sg, 'x3_pgv', None) is None:
                sg.x3_pgv = (sg.pgv, sg.pgd, float(sg.displacement[-1]))
            return np.array(sg.x3_pgv)              # array-valued -> pgd drift (last element)
        return f

    out = [('callable memoising in an attribute of the signal', mk_attr, energy),
           ('callable memoising in a dict stored on the signal (array-valued)', mk_dict_attr, lambda sg: np.cumsum(np.abs(sg.values))),
           ('callable memoising in a dict keyed on the signal object', mk_keyed_on_object, lambda sg: float(np.max(sg.values) - np.min(sg.values))),
           ('callable answering only the first look at each object', mk_counting, lambda sg: float(sg.values[0])),
           ('callable that shifts the signal it is given', mk_mutating, lambda sg: float(np.max(np.abs(np.asarray(sg.values) + 1.0)))),
           ('callable memoising peak velocity / displacement on the signal', mk_reading_then_memo, lambda sg: float(sg.displacement[-1]))]
    if 4 <= n <= 96:
        # the library's own time-frequency helper keeps its transform on the signal (asig.swtf)
        out.append(('eqsig.stockwell.get_max_stockwell_freq (max over time)', lambda: (lambda sg: float(np.max(stockwell.get_max_stockwell_freq(sg)))),
                    lambda sg: float(np.max(stockwell.get_max_stockwell_freq(sg)))))
        out.append(('eqsig.stockwell.get_max_stockwell_freq (whole series; last element taken)', lambda: stockwell.get_max_stockwell_freq, stockwell.get_max_stockwell_freq))
    return out


_X3_LAZY_NAMES = ['pgv', 'pgd', 'velocity', 'displacement', 'fa_spectrum', 'fa_frequencies', 'smooth_fa_spectrum', 'time', 's_a', 's_d', 's_v', 'pga', 'npts']


def _x3_same(a, b):
    a, b = np.asarray(a), np.asarray(b)
    return a.shape == b.shape and bool(np.array_equal(a, b, equal_nan=True) if a.dtype.kind in 'fc' and b.dtype.kind in 'fc' else np.array_equal(a, b))


def _x3_stateful(ctx, cur):
    import eqsig
    from eqsig.multiple import combine_at_angle, compute_rotated
    rng = ctx.rng
    for it in range(36 if ctx.tier == 'quick' else 400):
        n = gen.log_int(rng, 4, 96 if it % 3 else 300)
        dt = gen.any_dt(rng) if it % 2 else rng.choice(DYADIC_DTS)
        recs = [gen.any_record(rng, n, dt)[1] for _ in range(3)]
        if it % 4 == 0:
            recs = [gen.sine_record(rng, n, dt) * np.hanning(n + 2)[1:-1] for _ in range(3)]            # wave packets: the dominant frequency moves with the angle
        ns, we, third = recs
        off = rng.choice([0, 0.0, 30.5, 90, 200, -45.25, rng.uniform(-720, 720)])
        points = rng.choice([2, 3, 5, 8])
        a_ns, a_we, a_3 = (ctx.aged(eqsig.AccSignal, r, dt) for r in recs)
        ctx.last_object_history = None
        meas = _x3_measures(n, dt)
        label, make, pure = meas[it % len(meas)] if rng.random() < 0.7 else rng.choice(meas)
        inputs = {'ns': ns, 'we': we, 'dt': dt, 'angle_off_ns': off, 'points': points, 'measure': label}
        cur.clear()
        cur.update(inputs)
        ctx.hist('extras3/stateful-measure/' + label.split(' (')[0])
        ctx.count_case(('x3', ns.tobytes(), we.tobytes(), dt, off, points, label), nontriv([ns, we]))
        f = make()
        # two scans in a row with the SAME callable (its private state survives from the first scan to the second), other components in the second
        for which, (p, q, pv, qv) in (('first scan', (a_ns, a_we, ns, we)), ('second scan with the same callable, other components', (a_we, a_3, we, third))):
            res = call_impl(compute_rotated, p, q, angle_off_ns=off, func=f, points=points)
            inp = {**inputs, 'scan': which, 'ns': pv, 'we': qv}
            if res[0] != 'ok':
                ctx.oracle('C18.b compute_rotated returns for equally sampled components and a given measure', False, inp, detail=res)
                continue
            deg, vals = res[1]
            want = []
            for d in deg:
                v = pure(combine_at_angle(p, q, d))                   # a FRESH combination, a measure without memory
                want.append(v[-1] if hasattr(v, '__len__') else v)
            ok = _x3_same(np.asarray(vals, dtype=float), np.asarray(want, dtype=float))
            ctx.oracle('C18.b the i-th value is exactly the measure of the combination at degrees[i] also for a callable that keeps state on / about '
                       'the signal object it is given (each angle equals the measure of a fresh combination)', ok, inp,
                       detail=None if ok else {'degrees': deg[:8], 'scan': np.asarray(vals)[:8], 'fresh combinations': np.asarray(want)[:8]})
        # parameter NAMES whose value is computed lazily and cached on the signal
        name = _X3_LAZY_NAMES[it % len(_X3_LAZY_NAMES)]
        if name in ('s_a', 's_d', 's_v') and n * points > 600:
            name = 'pgd'
        ctx.hist('extras3/lazy-parameter/' + name)
        inp = {'ns': ns, 'we': we, 'dt': dt, 'angle_off_ns': off, 'points': points, 'parameter': name}
        cur.clear()
        cur.update(inp)
        import warnings
        with warnings.catch_warnings():
            warnings.simplefilter('ignore')
            res = call_impl(compute_rotated, a_ns, a_we, angle_off_ns=off, parameter=name, points=points)
            if res[0] != 'ok':
                ctx.oracle('C18.b compute_rotated returns for equally sampled components and a given measure', False, inp, detail=res)
            else:
                deg, vals = res[1]
                want = [getattr(combine_at_angle(a_ns, a_we, d), name) for d in deg]
                ok = len(vals) == len(want) and all(_x3_same(x, y) for x, y in zip(vals, want))
                ctx.oracle('C18.b parameter name: the i-th value is exactly that (lazily computed) attribute of a fresh combination at degrees[i]', ok, inp,
                           detail=None if ok else {'degrees': deg[:8]})
        # the combination is a NEW signal: later combinations / scans do not reach objects handed out earlier
        t1, t2 = rng.uniform(-400, 800), rng.choice([0, 90, 33.0, rng.uniform(-400, 800)])
        s1 = combine_at_angle(a_ns, a_we, t1)
        keep, pgv1 = np.array(s1.values), s1.pgv
        s2 = combine_at_angle(a_ns, a_we, t2)
        compute_rotated(a_ns, a_we, angle_off_ns=off, parameter='pgv', points=2)
        ok = s1 is not s2 and s1 is not a_ns and s1 is not a_we and _x3_same(s1.values, keep) and s1.pgv == pgv1 and _x3_same(a_ns.values, ns) and _x3_same(a_we.values, we)
        ctx.oracle('C18.a every combination is a signal of its own: a combination obtained earlier keeps its values and measures when further angles are '
                   'combined or scanned, and the components are unchanged', ok, {'ns': ns, 'we': we, 'dt': dt, 'angle': t1, 'then_angle': t2})


def _x3_linear_lags(ctx, cur):
    """lag matching on records that are exactly linear / staircases / linear + short period in exactly representable values: a wrong lag leaves an
    exactly CONSTANT residual there (ranking rules that ignore a constant offset tie), a uniform staircase leaves a periodic one"""
    rng = ctx.rng
    for it in range(40 if ctx.tier == 'quick' else 400):
        steps = rng.choice([2, 3, 5, 10])
        n = rng.choice([2 * steps + 3, 12 + steps, 20 + steps, 40, 75])
        kind = ['integer ramp', 'steep ramp', 'uniform staircase', 'ramp + short period', 'ramp with one kink', 'sample counter',
                'small motion on a huge level', 'small motion on a huge level'][it % 8]
        slope = rng.choice([1, 2, 3, -1, -4, 7])
        j = np.arange(n)
        if kind == 'small motion on a huge level':
            # absolute coordinates / time stamps / large-offset counts: level 2^40 ... 2^46, motion of a few units (all whole numbers, exact in
            # binary64 incl. the squared residuals of the right lag; a lag search through sum(a^2) + sum(b^2) - 2 sum(ab) cancels catastrophically)
            base = 2 ** rng.choice([40, 43, 46]) + np.array([rng.randint(-6, 6) for _ in range(n)])
        elif kind == 'integer ramp':
            base = slope * j + rng.randint(-20, 20)
        elif kind == 'sample counter':
            base = j.copy()
        elif kind == 'steep ramp':
            base = slope * j * 8                                                # tm_case works on whole numbers
        elif kind == 'uniform staircase':
            base = slope * (j // rng.choice([2, 3, 4]))
        elif kind == 'ramp + short period':
            per = rng.choice([2, 3])
            base = slope * j + np.array([rng.randint(-3, 3) for _ in range(per)])[j % per]
        else:
            base = slope * j + np.where(j >= rng.randrange(1, n - 1), rng.choice([1, -2, 5]), 0)
        base = [int(x) for x in base]
        nsig = rng.choice([2, 2, 3, 4])
        master = rng.randrange(nsig)
        sigs, want = [], {}
        for k in range(nsig):
            if k == master:
                sigs.append(list(base))
                continue
            L = rng.choice([l for l in range(-steps + 1, steps) if l != 0])
            sigs.append(shifted(rng, base, L))
            want[k] = L
        cur.clear()
        cur.update({'signals': sigs, 'master_index': master, 'steps': steps, 'lags': want})
        tm_case(ctx, sigs, master, steps, 'linear/' + kind, want)
    ctx.flush()


def extras3(ctx):
    from _hxb_common import guarded_sections
    guarded_sections(ctx, 'C18', [('stateful measures', _x3_stateful), ('linear lags', _x3_linear_lags)])


_run_main3 = run


def run(ctx):
    _run_main3(ctx)
    extras3(ctx)
    ctx.flush()


# ---- round 9 (hx_r9c): histories on ONE cluster ------------------------------------------------------------------------------------------------
# A Cluster is a mutable object: `master_index` is a plain attribute the analyst may re-assign, the member signals may be edited through
# signal_by_index, and same_start / time_match may be called any number of times. Every call must act on the cluster AS IT IS NOW: the signal at the
# CURRENT master_index is the reference and stays unchanged, every other signal is aligned to it (the clauses of C18.c / C18.d per call), and the
# outcome is the one a cluster freshly built from the current records with that master_index gives.

def _x4_histories(ctx, cur):
    import eqsig
    rng = ctx.rng
    dt = 0.5
    for it in range(60 if ctx.tier == 'quick' else 600):
        steps = rng.choice([2, 3, 5])
        n = rng.choice([12 + steps, 20 + steps, 40])
        nsig = rng.choice([2, 3, 3, 4])
        base = [rng.randint(-9, 9) for _ in range(n)]
        sigs = [shifted(rng, base, rng.choice(range(-steps + 1, steps))) for _ in range(nsig)]
        m0 = rng.randrange(nsig)
        cl = eqsig.Cluster([np.array(s, dtype=float) for s in sigs], dt, master_index=m0, stypes=rng.choice(['custom', 'acc']))
        hist = []
        for step in range(rng.randint(2, 4)):
            if step and rng.random() < 0.8:
                m = rng.choice([k for k in range(nsig) if k != cl.master_index])
                cl.master_index = m
                hist.append('master_index = %d' % m)
            if rng.random() < 0.4:
                k, c = rng.randrange(nsig), rng.choice([4.0, -2.5, 0.5])
                if rng.random() < 0.5:
                    cl.signal_by_index(k).add_constant(c)
                    hist.append('signal_by_index(%d).add_constant(%r)' % (k, c))
                else:
                    cl.signal_by_index(k).reset_values(np.array(cl.values_by_index(k), dtype=float)[::-1] * c)
                    hist.append('signal_by_index(%d).reset_values(reversed * %r)' % (k, c))
            master = cl.master_index
            before = [np.array(cl.values_by_index(i), dtype=float) for i in range(nsig)]
            op = rng.choice(['same_start', 'same_start', 'time_match'])
            start, end = rng.choice([(0, 1), (0.5, 2.0), (1.0, 4.0)])
            hist.append('%s(start=%r, end=%r)' % (op, start, end) if op == 'same_start' else 'time_match(steps=%d)' % steps)
            inputs = {'signals': sigs, 'dt': dt, 'master_index at construction': m0, 'history': list(hist), 'master_index now': master,
                      'records before the last call': before}
            cur.clear(); cur.update(inputs)
            ctx.hist('cluster-history/' + op + ('/re-hosted' if master != m0 else ''))
            ctx.count_case(('x4', it, step), True)
            fresh = eqsig.Cluster([b.copy() for b in before], dt, master_index=master)
            if op == 'same_start':
                cl.same_start(start=start, end=end); fresh.same_start(start=start, end=end)
                lag = flag = None
            else:
                lag, flag = cl.time_match(steps=steps), fresh.time_match(steps=steps)
            out = [np.asarray(cl.values_by_index(i), dtype=float) for i in range(nsig)]
            fout = [np.asarray(fresh.values_by_index(i), dtype=float) for i in range(nsig)]
            ctx.oracle('C18.c same_start leaves the master unchanged' if op == 'same_start' else 'C18.d time_match leaves the master unchanged',
                       np.array_equal(out[master], before[master]), inputs)
            if op == 'same_start':
                want = sec_spec(before[master], dt, start, end)
                for k in range(nsig):
                    if k != master:
                        after = sec_spec(out[k], dt, start, end)
                        ctx.oracle('C18.c after same_start the section average of every non-master signal equals the master\'s',
                                   after is not None and abs(after - want) <= Fraction(1, 10**9) * max(abs(want), 1), {**inputs, 'signal': k},
                                   detail={'after': float(after), 'master': float(want)})
            ctx.oracle('C18 a call on a cluster with a history (master_index re-assigned, members edited, earlier calls) gives what a cluster freshly '
                       'built from the current records with the current master_index gives', lag == flag and all(_x3_same(x, y) for x, y in zip(out, fout)),
                       inputs, detail={'returned': lag, 'fresh returned': flag, 'differing signals': [i for i in range(nsig) if not _x3_same(out[i], fout[i])]})
    ctx.flush()


def extras4(ctx):
    from _hxb_common import guarded_sections
    guarded_sections(ctx, 'C18', [('cluster histories', _x4_histories)])


_run_main4 = run


def run(ctx):
    _run_main4(ctx)
    extras4(ctx)
    ctx.flush()
