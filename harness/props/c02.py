"""C02 — the response operator is linear, causal, shift- and refinement-invariant, and row-independent.

The relations are evaluated on the IMPLEMENTATION directly (two or three impl runs per case, compared with each
other); a small exhaustive space is additionally tied to the Lean model through the `nj_response` handler."""
import itertools
import math
from fractions import Fraction

import numpy as np

import gen
from core import w_float, w_floats, p_floats, cmp_budget, call_impl

RULE = ("(1) exhaustive: every record of length 1..5 (thorough: ..6) over {-2..2} x bases (xi, dt, T1, T2) with period lists [T1],[T2],[T1,T2],"
        "[T2,T1],[0,T1],[0,T1,T2]: causality at all split points, shift, additivity/scaling/sign, row independence by table lookup (exact), and "
        "model correspondence through nj_response (Float twin, 1e-9 of the series peak); (2) random: records n in 2..400 (thorough ..3000) of kinds "
        "hat/noise/sine/step/spike/int/big/tiny, dt in 10^[-3,0] or common steps, T/dt log-uniform in [0.2, 2e4] or {0.2,1,5.9,6,20,2e4}, 1..6 periods, "
        "optional leading 0, xi in {0,1e-3,0.05,0.3,0.7,0.99} u U[0,1): linearity with scalar pairs (1e-10 of the combined peak; exact for +-2^k "
        "and sign), spectra/AccSignal scaling by |alpha|, causality (all split points if n <= 12, else 50 random), zero-prefix shift k in 0..50 "
        "(records with a[0] == 0 only), all permutations of <= 5 periods and random partitions of <= 30 periods (bit for bit), refinement by "
        "r in 2..8 through np.interp and interp_array_to_approx_dt(even=False) (C01 tolerance at the refined step). distinct = hash of "
        "(relation, record, dt, periods, xi, parameters); non-trivial = length >= 3 and not constant")
TIE = ("correspondence (recurrence loop, leading-zero row, wrappers: exhaustive small space through nj_response; the relations themselves are "
       "checked impl-vs-impl, independent of the model); translator tie of compute_a_and_b is exercised by C01")
NOT_PROVED = ["floating-point rounding: the relations are theorems over the reals; on the implementation causality/shift/row independence hold "
              "bit for bit (measured), linearity to ~3e-14 (tolerance 1e-10), refinement under C01's tolerance at the refined step",
              "np.interp / interp_array_to_approx_dt producing the exact linear interpolant (C14/C19); checked here as a precondition oracle"]
ASSUMPTIONS = ["libm exp/sin/cos/sqrt are the real functions up to rounding; NumPy elementwise kernels give position-independent results"]
EXHAUSTIVE = True
EXTRA_TARGETS = ()

XIS = [0.0, 1e-3, 0.05, 0.3, 0.7, 0.99]
C_NJ = 6.2831853
EPS = 2.3e-16


# ------------------------------------------------------------------------------------------------------------------------
# helpers
# ------------------------------------------------------------------------------------------------------------------------

_HV = {'xi': [], 'dt': [], 'ratio': []}      # source hints (filled by run()): values at / around the new float constants of the anchored files; empty on the unchanged tree


def pick_xi(rng):
    if _HV['xi'] and rng.random() < 0.15:
        return rng.choice(_HV['xi'])
    return rng.choice(XIS) if rng.random() < 0.7 else rng.uniform(0, 0.999)


def pick_dt(rng):
    if _HV['dt'] and rng.random() < 0.15:
        return rng.choice(_HV['dt'])
    return 10 ** rng.uniform(-3, 0) if rng.random() < 0.5 else rng.choice([0.01, 0.005, 0.02, 0.1, 0.001])


def pick_ratio(rng, hi=2e4):
    if _HV['ratio'] and rng.random() < 0.2 and any(r <= hi for r in _HV['ratio']):
        return rng.choice([r for r in _HV['ratio'] if r <= hi])
    if rng.random() < 0.7:
        return math.exp(rng.uniform(math.log(0.2), math.log(hi)))
    return rng.choice([r for r in (0.2, 1, 5.9, 6, 20, 2e4) if r <= hi])


def pick_periods(rng, dt, lo=1, hi=6, lead0=None, ratio_hi=2e4):
    ps = [pick_ratio(rng, ratio_hi) * dt for _ in range(rng.randint(lo, hi))]
    if rng.random() < 0.2 and ratio_hi >= 6:
        ps[rng.randrange(len(ps))] = dt * 6          # exactly six time steps: the boundary of the 'below 6 steps' rule (not below)
    if lead0 is None:
        lead0 = rng.random() < 0.3
    return ([0.0] + ps if lead0 else ps), lead0


def pick_record(rng, n, dt):
    k = rng.choice(['hat', 'noise', 'sine', 'step', 'spike', 'int', 'big', 'tiny', 'dyadic'])
    if k == 'hat':
        a = np.zeros(n)
        a[rng.randrange(n)] = 1.0
    elif k == 'noise':
        a = gen.noise_record(rng, n)
    elif k == 'sine':
        a = gen.sine_record(rng, n, dt)
    elif k == 'step':
        a = gen.step_record(rng, n)
    elif k == 'spike':
        a = gen.spike_record(rng, n, 3.0)
    elif k == 'int':
        a = gen.int_record(rng, n)
    elif k == 'big':
        a = gen.noise_record(rng, n, 1e6)
    elif k == 'tiny':
        a = gen.noise_record(rng, n, 1e-6)
    else:
        a = gen.dyadic_record(rng, n)
    return k, a


def xi_bin(xi):
    return '0' if xi == 0 else ('<0.1' if xi < 0.1 else ('<0.9' if xi < 0.9 else '>=0.9'))


def eq3(r, s):
    """bit-for-bit equality (==) of two (u, v, a) triples, shapes included"""
    return all(x.shape == y.shape and np.array_equal(x, y) for x, y in zip(r, s))


def peak(x):
    return float(np.max(np.abs(x))) if x.size else 0.0


def nat(amax, dt, T):
    """natural magnitudes (u, v, a) of the response of an oscillator of period T to a record of amplitude amax sampled at dt: the size of
    the terms that are added in one step of the recurrence. Series peaks are floored at 1e-3 of these before a relative comparison: the
    exact series can vanish at every sample instant (undamped T == dt/k with hat/step records: velocity ~1e-20 = pure rounding noise),
    where 'relative to the series peak' would compare noise with noise (c01.py skips the same degenerate cases)."""
    if T == 0:
        return (0.0, 0.0, amax)
    w = C_NJ / T
    return (amax * min(dt * dt, 1 / (w * w)), amax * min(dt, 1 / w), amax)


FLOOR = 1e-3


def scaled_exactly(x, y, k):
    """x == k*y bit for bit wherever k*y is a normal number (scaling by 2^k commutes with every rounding except gradual underflow:
    heavily damped stiff oscillators decay below 1e-300 within a record)"""
    if x.shape != y.shape:
        return False
    ky = k * y
    normal = np.abs(ky) > 1e-290
    return bool(np.array_equal(x[normal], ky[normal]) and np.all(np.abs(x[~normal] - ky[~normal]) <= 1e-290))


def refine_check(coarse, ref, fac, n, periods, xi, dt2, duration, amax, dt):
    """response of the refined record read at the original instants vs the coarse response, per series and row, under the C01 tolerance
    at the refined step, relative to the series peak (the peak of the refined series: it samples the same solution more densely, and the
    coarse samples alone can all sit near zero crossings, e.g. T == dt), floored at the natural magnitude nat() (the two runs use
    different B entries, whose rounding is relative to the terms added, not to a cancelling residue);
    -> (ok, worst err/tol, (series, row, err, tol))"""
    ok, worst, where = True, 0.0, None
    for name, x, y in zip('uva', coarse, ref):
        ys = y[:, ::fac][:, :n]
        for j, T in enumerate(periods):
            tol = prop_tol(dt2, T, duration)
            pk = max(peak(x[j]), peak(y[j]), nat(amax, dt, T)['uva'.index(name)], 1e-300)
            if name == 'a' and T != 0:   # third series: w^2 u and 2 xi w v may cancel in it; errors are measured against the terms' peaks
                w = C_NJ / T
                pk = max(pk, w * w * max(peak(coarse[0][j]), peak(ref[0][j])), 2 * xi * w * max(peak(coarse[1][j]), peak(ref[1][j])))
            e = peak(x[j] - ys[j]) / pk if ys.shape[1] == n else float('inf')
            if e / tol >= worst:
                worst, where = e / tol, (name, j, e, tol)
            ok = ok and e <= tol
    return ok, worst, where


K_CANCEL = 32


def prop_tol(dt_ref, T, duration):
    """tolerance formula of property C01 (relative to the series peak) evaluated at the refined step dt_ref:
    1e-6 + 5e-8*duration/T + K*eps/(w*dt_ref)^3.  The last term is the cancellation in the B entries (terms of size 2 xi/(w^3 dt) + 1/w^2
    cancel down to ~dt^2/6: relative error ~12 xi eps/(w dt)^3 per rounding).  Refinement pushes T/dt' up to 1.6e5, beyond C01's own range
    (T/dt <= 2e4), and on records of 2-4 samples the series peak IS that ill-conditioned first step: measured constants up to 3.1 between
    two impl runs (9.5 against the exact solution), so the relation is judged with K = 32; the term is < 1e-6 for T/dt' < 4e3."""
    if T == 0:
        return 1e-9
    w = 2 * math.pi / T
    return 1e-6 + 5e-8 * duration / T + K_CANCEL * EPS / (w * dt_ref) ** 3


def model_compare(ctx, periods, dt, amax):
    """compare(outs, value) for the nj_response handler: budget T (1e-9 of the series peak) + the eps/(w dt)^3 cancellation term.
    The peak is floored at the natural magnitude nat(): on records of 2-5 samples such as [-1, 2] the leading terms b11*a0 + b12*a1
    cancel and the whole series is a residue ~1e-7 of the terms added, so impl and twin (which round the B entries differently)
    agree to 1e-9 of the terms, not of the residue."""
    def compare(outs, val, periods_f=list(periods), dt_f=dt, amax=amax):
        u, v, ac = val
        npd = len(periods_f)
        if len(outs) != 3 * npd:
            return f"rows impl={npd} model={len(outs) // 3}"
        for j in range(npd):
            T = periods_f[j]
            extra = 0.0 if T == 0 else EPS / (C_NJ / T * dt_f) ** 3
            for name, arr, o in (('u', u[j], outs[3 * j]), ('v', v[j], outs[3 * j + 1]), ('a', ac[j], outs[3 * j + 2])):
                m = p_floats(o)
                pk = max(peak(arr), max((abs(x) for x in m), default=0.0), nat(amax, dt_f, T)['uva'.index(name)])
                msg, g = cmp_budget([float(x) for x in arr], m, Fraction(1e-9 + 16 * extra), scale=pk, abs_floor=Fraction(1, 10 ** 300))
                ctx.gap('response_series/' + name, g)
                if msg:
                    return f"period[{j}] series {name}: {msg}"
        return None
    return compare


class Impl:
    """the implementation under test + the bookkeeping every call shares (input-unchanged oracle)"""

    def __init__(self, ctx):
        import eqsig
        from eqsig import sdof
        from eqsig.fns import time_step
        self.ctx = ctx
        self.eqsig = eqsig
        self.sdof = sdof
        self.time_step = time_step

    def resp(self, a, dt, periods, xi, inputs=None):
        """response_series on a private view of the arguments; returns the (u, v, a) triple or None (oracle failure recorded)"""
        a = np.asarray(a, dtype=float)
        snap = a.copy()
        psnap = list(periods)
        r = call_impl(self.sdof.response_series, a, dt, periods, xi)
        if not (np.array_equal(snap, a) and list(periods) == psnap):
            self.ctx.oracle('input record and period list unchanged by response_series', False,
                            inputs or {'acc': snap, 'dt': dt, 'periods': psnap, 'xi': xi})
            a[:] = snap
        else:
            self.ctx.oracle('input record and period list unchanged by response_series', True)
        if r[0] != 'ok':
            self.ctx.oracle('response_series returns on its domain', False, inputs or {'acc': snap, 'dt': dt, 'periods': psnap, 'xi': xi}, detail=r)
            return None
        return r[1]


# ------------------------------------------------------------------------------------------------------------------------
# (1) exhaustive small space: relations by table lookup + model correspondence
# ------------------------------------------------------------------------------------------------------------------------

def exhaustive(ctx, im):
    rng = ctx.rng
    maxlen = 5 if ctx.tier == 'quick' else 6
    nbases = 2 if ctx.tier == 'quick' else 6
    vals = (-2.0, -1.0, 0.0, 1.0, 2.0)
    records = [t for n in range(1, maxlen + 1) for t in itertools.product(vals, repeat=n)]
    bases = []
    for b in range(nbases):
        xi = XIS[(b * 2 + rng.randrange(2)) % len(XIS)] if b < 3 else pick_xi(rng)
        dt = rng.choice([0.01, 0.02, 0.5, 0.1]) if b % 2 == 0 else pick_dt(rng)
        T1 = pick_ratio(rng) * dt
        T2 = pick_ratio(rng) * dt
        while T2 == T1:
            T2 = pick_ratio(rng) * dt
        bases.append((xi, dt, T1, T2))
    for bi, (xi, dt, T1, T2) in enumerate(bases):
        plists = {'1': [T1], '2': [T2], '12': [T1, T2], '21': [T2, T1], '01': [0.0, T1], '012': [0.0, T1, T2]}
        ctx.hist('exhaustive/base xi=' + xi_bin(xi))
        table = {}
        for rec in records:
            a = np.array(rec)
            for key, ps in plists.items():
                r = im.resp(a, dt, ps, xi)
                if r is None:
                    return
                table[(rec, key)] = r
                if key in ('1', '12', '01'):  # model-level tie: one or two periods, with and without a leading zero
                    req = f"nj_response|{w_float(xi)}|{w_float(dt)}|{w_floats(ps)}|{w_floats(a)}"
                    ctx.corr('response_series', req, ('ok', r), model_compare(ctx, ps, dt, peak(a)),
                             inputs={'acc': a, 'dt': dt, 'periods': ps, 'xi': xi})
            ctx.count_case(('exh', rec, bi), gen.nontrivial_record(a),
                           sample={'fn': 'response_series (exhaustive)', 'record': list(rec), 'dt': dt, 'T1': T1, 'T2': T2, 'xi': xi}
                           if bi == 0 and len(rec) == 3 and rec[0] == 1 and rec[1] == -2 else None)
        ctx.hist('exhaustive/records', len(records))
        ctx.flush()
        by_len = {}
        for rec in records:
            by_len.setdefault(len(rec), []).append(rec)
        for idx, rec in enumerate(records):
            n = len(rec)
            inp = {'acc': list(rec), 'dt': dt, 'T1': T1, 'T2': T2, 'xi': xi}
            full = table[(rec, '012')]
            # C02.b causality, all split points, every period list
            ok = True
            for key in plists:
                r = table[(rec, key)]
                for i in range(n - 1):
                    q = table[(rec[:i + 1], key)]
                    ok = ok and all(np.array_equal(x[:, :i + 1], y) for x, y in zip(r, q))
            ctx.oracle('C02.b causality: response of a[:i+1] == first i+1 samples of the response of a (all split points, ==)', ok, inp)
            # C02.c shift by one sample (iterated by the table: k = 1 at every length), only when the shorter record starts at 0
            if n >= 2 and rec[0] == 0 and rec[1] == 0:
                ok = True
                for key in plists:
                    r, q = table[(rec, key)], table[(rec[1:], key)]
                    ok = ok and all(np.array_equal(x[:, 1:], y) and np.all(x[:, 0] == 0) for x, y in zip(r, q))
                ctx.oracle('C02.c shift: prepending zeros to a record starting at 0 delays the response by as many samples (==)', ok, inp)
            # C02.d rows depend on their own period only (order, batching, leading zero)
            r1, r2, r12, r21, r01 = (table[(rec, k)] for k in ('1', '2', '12', '21', '01'))
            ok = all(np.array_equal(x12[0], x1[0]) and np.array_equal(x12[1], x2[0]) and np.array_equal(x21[0], x2[0])
                     and np.array_equal(x21[1], x1[0]) and np.array_equal(x01[1], x1[0]) and np.array_equal(f[1], x1[0])
                     and np.array_equal(f[2], x2[0]) and np.array_equal(f[0], x01[0])
                     for x1, x2, x12, x21, x01, f in zip(r1, r2, r12, r21, r01, full))
            ctx.oracle('C02.d each period\'s rows depend on that period only (order / batching / leading 0, ==)', ok, inp)
            ok0 = bool(np.all(full[0][0] == 0) and np.all(full[1][0] == 0) and np.array_equal(full[2][0], -np.array(rec)))
            ctx.oracle('C02.d leading 0 row: zero u, v and the sign-flipped record', ok0, inp)
            # C02.a sign and additivity with a partner of the same length
            neg = tuple(-x + 0.0 for x in rec)
            ok = all(np.array_equal(x, -y) for x, y in zip(table[(neg, '012')], full))
            ctx.oracle('C02.a sign: response(-a) == -response(a) (==)', ok, inp)
            dbl = tuple(2 * x for x in rec)
            if max(abs(x) for x in dbl) <= 2:
                ok = all(scaled_exactly(x, y, 2.0) for x, y in zip(table[(dbl, '012')], full))
                ctx.oracle('C02.a scaling by +-2^k is exact: response(2^k a) == 2^k response(a)', ok, inp)
            partner = by_len[n][(idx * 7 + 3) % len(by_len[n])]
            for sgn in (1, -1):
                c = tuple(x + sgn * y + 0.0 for x, y in zip(rec, partner))
                if max(abs(x) for x in c) <= 2:
                    rc, rb = table[(c, '012')], table[(partner, '012')]
                    ok = True
                    worst = 0.0
                    for si, (x, y, z) in enumerate(zip(rc, full, rb)):
                        for j, T in enumerate(plists['012']):
                            sc = max(peak(y[j]), peak(z[j]), FLOOR * nat(2.0, dt, T)[si], 1e-300)
                            e = peak(x[j] - (y[j] + sgn * z[j])) / sc
                            worst = max(worst, e)
                            ok = ok and e <= 1e-10
                    ctx.gap('linearity(impl vs impl)', worst)
                    ctx.oracle('C02.a linearity: response(alpha a + beta b) == alpha response(a) + beta response(b) (1e-10 of the peak)', ok,
                               {**inp, 'b': list(partner), 'alpha': 1, 'beta': sgn}, detail={'err': worst})


# ------------------------------------------------------------------------------------------------------------------------
# (2) random structured cases
# ------------------------------------------------------------------------------------------------------------------------

def linearity(ctx, im, ncases, nmax):
    rng = ctx.rng
    sdof = im.sdof
    for i in range(ncases):
        n = gen.log_int(rng, 2, nmax)
        dt = pick_dt(rng)
        ka, a = pick_record(rng, n, dt)
        kb, b = pick_record(rng, n, dt)
        periods, lead0 = pick_periods(rng, dt)
        xi = pick_xi(rng)
        alpha = rng.choice([-3.0, -1.0, 0.5, 2.0, 1e6, 0.0, 1.0]) if rng.random() < 0.5 else rng.uniform(-5, 5)
        beta = rng.choice([-3.0, -1.0, 0.5, 2.0, 1e-6, 0.0, 1.0]) if rng.random() < 0.5 else rng.uniform(-5, 5)
        inp = {'a': a, 'b': b, 'alpha': alpha, 'beta': beta, 'dt': dt, 'periods': periods, 'xi': xi}
        ctx.hist('linearity/record=' + ka)
        ctx.hist('xi=' + xi_bin(xi))
        ctx.hist('leading0=' + str(lead0))
        ctx.count_case(('lin', a.tobytes(), b.tobytes(), alpha, beta, dt, tuple(periods), xi), gen.nontrivial_record(a),
                       sample={'fn': 'linearity', 'n': n, 'dt': dt, 'periods': periods, 'xi': xi, 'alpha': alpha, 'beta': beta,
                               'records': [ka, kb]} if i < 2 else None)
        ra, rb = im.resp(a, dt, periods, xi), im.resp(b, dt, periods, xi)
        rc = im.resp(alpha * a + beta * b, dt, periods, xi)
        if ra is None or rb is None or rc is None:
            continue
        ok, worst, where = True, 0.0, None
        amax = max(abs(alpha) * peak(a), abs(beta) * peak(b))
        for name, x, y, z in zip('uva', rc, ra, rb):
            for j in range(len(periods)):
                sc = max(abs(alpha) * peak(y[j]), abs(beta) * peak(z[j]), FLOOR * nat(amax, dt, periods[j])['uva'.index(name)], 1e-300)
                e = peak(x[j] - (alpha * y[j] + beta * z[j])) / sc
                if e > worst:
                    worst, where = e, (name, j)
                ok = ok and e <= 1e-10
        ctx.gap('linearity(impl vs impl)', worst)
        ctx.oracle('C02.a linearity: response(alpha a + beta b) == alpha response(a) + beta response(b) (1e-10 of the peak)', ok, inp,
                   detail={'err': worst, 'series,row': where})
        # exact special cases: sign flip and power-of-two scaling commute with every rounding
        k2 = rng.choice([-4.0, -2.0, -1.0, -0.5, 0.25, 2.0, 8.0])
        rs = im.resp(k2 * a, dt, periods, xi)
        if rs is not None:
            ctx.oracle('C02.a scaling by +-2^k is exact: response(2^k a) == 2^k response(a)', all(scaled_exactly(x, y, k2) for x, y in zip(rs, ra)),
                       {**inp, 'alpha': k2, 'beta': 0})
        # spectra scale by |alpha| and ignore the sign
        al = alpha if alpha != 0 else 3.0
        parr = np.array(periods)
        nats = [nat(peak(a), dt, T) for T in periods]
        wj = np.array([1.0 if T == 0 else 2 * math.pi / T for T in periods])
        # floors for (S_d, S_v, S_a) of either spectrum function: peaks of u, v (or w*u), a (or w^2*u, or the PGA)
        fl = [FLOOR * np.array([q[0] for q in nats]), FLOOR * np.array([max(q[1], w * q[0]) for q, w in zip(nats, wj)]),
              FLOOR * np.array([max(q[2], w * w * q[0]) for q, w in zip(nats, wj)])]
        for label, f in (('pseudo_response_spectra', sdof.pseudo_response_spectra), ('true_response_spectra', sdof.true_response_spectra)):
            s1 = call_impl(f, a, dt, parr, xi)
            s2 = call_impl(f, al * a, dt, parr, xi)
            s3 = call_impl(f, k2 * a, dt, parr, xi)
            s4 = call_impl(f, -a, dt, parr, xi)
            if not (s1[0] == s2[0] == s3[0] == s4[0] == 'ok'):
                ctx.oracle(f'{label} returns on its domain', False, inp, detail=[s1[0], s2[0], s3[0], s4[0]])
                continue
            ok = all(np.all(np.abs(y - abs(al) * x) <= 1e-10 * abs(al) * np.maximum(np.abs(x), f)) for x, y, f in zip(s1[1], s2[1], fl))
            ctx.oracle(f'C02.a {label} scale by |alpha| (1e-10 relative)', ok, {**inp, 'alpha': al}, detail={'base': s1[1], 'scaled': s2[1]})
            ok = all(np.array_equal(y, abs(k2) * x) for x, y in zip(s1[1], s3[1])) and all(np.array_equal(x, y) for x, y in zip(s1[1], s4[1]))
            ctx.oracle(f'C02.a {label} ignore the sign and scale exactly by 2^k (==)', ok, {**inp, 'alpha': k2})
        # AccSignal level
        if i % 3 == 0 and len(periods) >= 2:
            A = im.eqsig.AccSignal
            o1 = call_impl(A(a, dt).response_series, response_times=parr, xi=xi)
            o2 = call_impl(A(al * a, dt).response_series, response_times=parr, xi=xi)
            if o1[0] == o2[0] == 'ok':
                ok = eq3(o1[1], ra)
                ctx.oracle('AccSignal.response_series == sdof.response_series (==)', ok, inp)
                ok = True
                for si, (x, y) in enumerate(zip(o2[1], o1[1])):
                    for j in range(len(periods)):
                        ok = ok and peak(x[j] - al * y[j]) <= 1e-10 * abs(al) * max(peak(y[j]), FLOOR * nats[j][si], 1e-300)
                ctx.oracle('C02.a AccSignal.response_series is homogeneous: response(alpha a) == alpha response(a) (1e-10 of the peak)', ok,
                           {**inp, 'alpha': al})
            else:
                ctx.oracle('AccSignal.response_series returns on its domain', False, inp, detail=[o1[0], o2[0]])
            mdr = rng.choice([1, 2, 4])
            sp = []
            for rec in (a, al * a, -2.0 * a):
                s = A(rec, dt)
                g = call_impl(s.gen_response_spectrum, response_times=parr, xi=xi, min_dt_ratio=mdr)
                sp.append(None if g[0] != 'ok' else (np.array(s.s_d), np.array(s.s_v), np.array(s.s_a)))
            if any(s is None for s in sp):
                ctx.oracle('AccSignal.gen_response_spectrum returns on its domain', False, inp)
            else:
                ok = all(np.all(np.abs(y - abs(al) * x) <= 1e-10 * abs(al) * np.maximum(np.abs(x), f)) for x, y, f in zip(sp[0], sp[1], fl))
                ctx.oracle('C02.a AccSignal.s_d/s_v/s_a scale by |alpha| (1e-10 relative)', ok, {**inp, 'alpha': al, 'min_dt_ratio': mdr},
                           detail={'base': sp[0], 'scaled': sp[1]})
                ok = all(np.array_equal(y, 2.0 * x) for x, y in zip(sp[0], sp[2]))
                ctx.oracle('C02.a AccSignal.s_d/s_v/s_a ignore the sign and scale exactly by 2^k (==)', ok, {**inp, 'alpha': -2.0, 'min_dt_ratio': mdr})


def causality(ctx, im, ncases, nmax):
    rng = ctx.rng
    for i in range(ncases):
        short = i % 3 == 0
        n = rng.randint(2, 12) if short else gen.log_int(rng, 13, nmax)
        dt = pick_dt(rng)
        k, a = pick_record(rng, n, dt)
        periods, lead0 = pick_periods(rng, dt, hi=4)
        xi = pick_xi(rng)
        splits = list(range(n)) if short else sorted({rng.randrange(n) for _ in range(50)} | {0, n - 1})
        ctx.hist('causality/' + ('all split points' if short else '50 random split points'))
        ctx.hist('xi=' + xi_bin(xi))
        ctx.count_case(('causal', a.tobytes(), dt, tuple(periods), xi), gen.nontrivial_record(a),
                       sample={'fn': 'causality', 'n': n, 'dt': dt, 'periods': periods, 'xi': xi, 'record': k} if i < 2 else None)
        full = im.resp(a, dt, periods, xi)
        if full is None:
            continue
        bad = None
        for s in splits:
            part = im.resp(a[:s + 1].copy(), dt, periods, xi)
            if part is None or not all(y.shape == (len(periods), s + 1) and np.array_equal(x[:, :s + 1], y) for x, y in zip(full, part)):
                bad = s
                break
        ctx.oracle('C02.b causality: response of a[:i+1] == first i+1 samples of the response of a (all split points, ==)', bad is None,
                   {'acc': a, 'dt': dt, 'periods': periods, 'xi': xi, 'split_index': bad})
        # the dual reading: changing samples after index i does not change the response up to i
        s = rng.randrange(n)
        a2 = a.copy()
        a2[s + 1:] = [rng.gauss(0, 3) for _ in range(n - s - 1)]
        r2 = im.resp(a2, dt, periods, xi)
        if r2 is not None:
            ctx.oracle('C02.b causality: samples after index i do not affect the response up to i (==)',
                       all(np.array_equal(x[:, :s + 1], y[:, :s + 1]) for x, y in zip(full, r2)),
                       {'acc': a, 'acc_changed_after_i': a2, 'i': s, 'dt': dt, 'periods': periods, 'xi': xi})


def shift(ctx, im, ncases, nmax):
    rng = ctx.rng
    allk = list(range(51))
    for i in range(ncases):
        n = gen.log_int(rng, 2, nmax)
        dt = pick_dt(rng)
        k, a = pick_record(rng, n, dt)
        a[0] = 0.0  # domain of the relation: the record starts at zero (otherwise the panel before a[0] carries a ramp 0 -> a[0])
        periods, lead0 = pick_periods(rng, dt, hi=4)
        xi = pick_xi(rng)
        ks = allk if (ctx.tier != 'quick' and i % 4 == 0) else sorted({allk[(7 * i + 13 * j) % 51] for j in range(4)} | ({0, 1, 50} if i % 5 == 0 else set()))
        ctx.hist('shift/record=' + k)
        ctx.hist('xi=' + xi_bin(xi))
        ctx.count_case(('shift', a.tobytes(), dt, tuple(periods), xi, tuple(ks)), gen.nontrivial_record(a),
                       sample={'fn': 'zero-prefix shift', 'n': n, 'dt': dt, 'periods': periods, 'xi': xi, 'k': ks} if i < 2 else None)
        base = im.resp(a, dt, periods, xi)
        if base is None:
            continue
        bad = None
        for kk in ks:
            ctx.hist('shift/k', 1)
            r = im.resp(np.concatenate([np.zeros(kk), a]), dt, periods, xi)
            if r is None or not all(x.shape == (len(periods), n + kk) and np.all(x[:, :kk] == 0) and np.array_equal(x[:, kk:], y)
                                    for x, y in zip(r, base)):
                bad = kk
                break
        ctx.oracle('C02.c shift: prepending zeros to a record starting at 0 delays the response by as many samples (==)', bad is None,
                   {'acc': a, 'dt': dt, 'periods': periods, 'xi': xi, 'k': bad})
    # the hypothesis a[0] == 0 is necessary (theorem C02.c comes with a kernel-checked counterexample): recorded, never required
    r1 = im.resp(np.array([0.0, 1.0, 2.0]), 0.01, [0.5], 0.05)
    r0 = im.resp(np.array([1.0, 2.0]), 0.01, [0.5], 0.05)
    if r1 is not None and r0 is not None:
        ctx.hist('shift/a[0]!=0: relation ' + ('differs (not required, not tested)' if not np.array_equal(r1[0][:, 1:], r0[0]) else 'happens to hold'))


def permutations(ctx, im, ncases, nmax):
    rng = ctx.rng
    for i in range(ncases):
        n = gen.log_int(rng, 2, nmax)
        dt = pick_dt(rng)
        k, a = pick_record(rng, n, dt)
        xi = pick_xi(rng)
        if i % 2 == 0:   # all permutations of <= 5 periods (a leading zero stays in front: a zero elsewhere is outside the domain)
            m = rng.choice([1, 2, 3, 3, 4, 4, 5]) if ctx.tier != 'quick' else rng.choice([1, 2, 3, 3, 4, 4, 4, 5])
            periods, lead0 = pick_periods(rng, dt, lo=m, hi=m)
            if rng.random() < 0.25 and m >= 2:
                periods[-1] = periods[-2]          # repeated period
            nz = periods[1:] if lead0 else periods
            ctx.hist(f'row independence/all permutations of {m} periods')
            ctx.count_case(('perm', a.tobytes(), dt, tuple(periods), xi), gen.nontrivial_record(a),
                           sample={'fn': 'period permutations', 'n': n, 'dt': dt, 'periods': periods, 'xi': xi} if i < 2 else None)
            base = im.resp(a, dt, periods, xi)
            if base is None:
                continue
            s = 1 if lead0 else 0
            bad = None
            for perm in itertools.permutations(range(len(nz))):
                pl = ([0.0] if lead0 else []) + [nz[j] for j in perm]
                cont = (list, tuple, np.array)[len(perm) and perm[0] % 3]
                r = im.resp(a, dt, cont(pl), xi)
                idx = list(range(s)) + [s + j for j in perm]
                if r is None or not all(np.array_equal(x, y[idx]) for x, y in zip(r, base)):
                    bad = pl
                    break
            ctx.oracle('C02.d each period\'s rows depend on that period only (order / batching / leading 0, ==)', bad is None,
                       {'acc': a, 'dt': dt, 'periods': periods, 'xi': xi, 'permuted_periods': bad})
            # ... and hence the spectra: each period's (S_d, S_v, S_a) depends on that period only, whatever the order of the list
            # (the list mixes periods on both sides of 6*dt, where S_a is the peak ground acceleration)
            from eqsig import sdof as _sdof
            mixed = ([0.0] if lead0 else []) + [dt * rng.choice([0.5, 2.0, 5.5, 6.5, 12.0, 40.0, 300.0]) for _ in range(max(2, len(nz)))]
            for fn_name in ('pseudo_response_spectra', 'true_response_spectra'):
                fn = getattr(_sdof, fn_name)
                b0 = [np.asarray(x) for x in fn(a, dt, np.array(mixed), xi)]
                nzm = mixed[1:] if lead0 else mixed
                perm = list(range(len(nzm)))
                rng.shuffle(perm)
                pl = ([0.0] if lead0 else []) + [nzm[j] for j in perm]
                r = [np.asarray(x) for x in fn(a, dt, np.array(pl), xi)]
                idx = list(range(s)) + [s + j for j in perm]
                okp = all(np.array_equal(x, y[idx]) for x, y in zip(r, b0))
                singles = all(np.array_equal(np.asarray(fn(a, dt, np.array([T]), xi))[:, 0], np.array([y[j] for y in b0]))
                              for j, T in enumerate(mixed) if T != 0)
                ctx.oracle(f'C02.d {fn_name}: each period\'s spectral values depend on that period only (any order of the list, ==)',
                           okp and singles, {'acc': a, 'dt': dt, 'periods': mixed, 'permuted_periods': pl, 'xi': xi})
        else:            # random partition of up to 30 periods into batches + every period alone
            m = rng.randint(2, 30)
            periods, lead0 = pick_periods(rng, dt, lo=m, hi=m)
            ctx.hist('row independence/random partition')
            ctx.count_case(('part', a.tobytes(), dt, tuple(periods), xi), gen.nontrivial_record(a),
                           sample={'fn': 'period partition', 'n': n, 'dt': dt, 'n_periods': len(periods), 'xi': xi} if i < 3 else None)
            base = im.resp(a, dt, periods, xi)
            if base is None:
                continue
            cuts = sorted({rng.randrange(1, len(periods)) for _ in range(rng.randint(1, 5))})
            bounds = [0] + cuts + [len(periods)]
            bad = None
            for lo, hi in zip(bounds, bounds[1:]):
                r = im.resp(a, dt, periods[lo:hi], xi)
                if r is None or not all(np.array_equal(x, y[lo:hi]) for x, y in zip(r, base)):
                    bad = periods[lo:hi]
                    break
            if bad is None:
                for j in rng.sample(range(len(periods)), min(6, len(periods))):
                    if periods[j] == 0:
                        continue
                    r = im.resp(a, dt, [periods[j]], xi)
                    if r is None or not all(np.array_equal(x[0], y[j]) for x, y in zip(r, base)):
                        bad = [periods[j]]
                        break
                    if rng.random() < 0.3:   # the same period behind a leading zero
                        r = im.resp(a, dt, [0.0, periods[j]], xi)
                        if r is None or not all(np.array_equal(x[1], y[j]) for x, y in zip(r, base)):
                            bad = [0.0, periods[j]]
                            break
            ctx.oracle('C02.d each period\'s rows depend on that period only (order / batching / leading 0, ==)', bad is None,
                       {'acc': a, 'dt': dt, 'periods': periods, 'xi': xi, 'batch': bad})


def refinement(ctx, im, ncases, nmax):
    rng = ctx.rng
    sdof = im.sdof
    for i in range(ncases):
        n = gen.log_int(rng, 2, nmax)
        dt = pick_dt(rng)
        k, a = pick_record(rng, n, dt)
        periods, lead0 = pick_periods(rng, dt, hi=4)
        xi = pick_xi(rng)
        r = 2 + (i % 7) if i < 14 else rng.randint(2, 8)
        route = ('np.interp', 'interp_array_to_approx_dt', 'interp_array_to_approx_dt(target between dt/r and dt/(r-1))')[i % 3]
        inp = {'acc': a, 'dt': dt, 'periods': periods, 'xi': xi, 'r': r, 'route': route}
        ctx.hist('refinement/route=' + route)
        ctx.hist(f'refinement/r={r}')
        ctx.hist('xi=' + xi_bin(xi))
        ctx.count_case(('refine', a.tobytes(), dt, tuple(periods), xi, r, route), gen.nontrivial_record(a),
                       sample={'fn': 'refinement', 'n': n, 'dt': dt, 'periods': periods, 'xi': xi, 'r': r, 'route': route, 'record': k}
                       if i < 3 else None)
        if route == 'np.interp':
            dt2 = dt / r
            fine = np.interp(np.arange(r * (n - 1) + 1) * dt2, np.arange(n) * dt, a)
            fac = r
        else:
            target = dt / r if route == 'interp_array_to_approx_dt' else dt / (r - rng.uniform(0.2, 0.8))
            snap = a.copy()
            ge = call_impl(im.time_step.interp_array_to_approx_dt, a, dt, target)        # default even=True
            if ge[0] == 'ok':
                ve, dte = ge[1]
                ke = int(round(dt / dte))
                keep = np.asarray(ve)[::ke][:len(a)]
                ctx.oracle('C02.e refinement through interp_array_to_approx_dt (default even=True): the original samples reappear at their instants',
                           abs(dt / dte - ke) < 1e-9 and np.array_equal(keep, np.asarray(a, dtype=float)[:len(keep)]) and len(keep) >= len(a) - 1,
                           {**inp, 'target_dt': target}, detail={'factor': dt / dte, 'n_out': len(ve), 'n_in': len(a)})
            g = call_impl(im.time_step.interp_array_to_approx_dt, a, dt, target, even=False)
            if g[0] != 'ok':
                ctx.oracle('interp_array_to_approx_dt returns on its domain', False, {**inp, 'target_dt': target}, detail=g)
                continue
            fine, dt2 = np.asarray(g[1][0], dtype=float), float(g[1][1])
            fac = int(round(dt / dt2))
            # precondition of the relation (C14.a as used by gen_response_spectrum): an integer refinement, no coarser than requested,
            # that keeps every original sample and inserts the linear interpolant
            pre = (np.array_equal(snap, a) and abs(dt / dt2 - fac) <= 1e-9 * fac and dt2 <= target * (1 + 1e-12) and fac <= r + 1
                   and len(fine) >= fac * (n - 1) + 1)
            if pre:
                head = fine[:fac * (n - 1) + 1]
                want = np.interp(np.arange(fac * (n - 1) + 1) / fac, np.arange(n), a)
                pre = bool(np.all(np.abs(head - want) <= 1e-12 * max(peak(a), 1e-300))) and np.array_equal(head[::fac], a)
            ctx.oracle('C02.e refinement through interp_array_to_approx_dt(even=False): integer factor, new step <= target, original samples kept, '
                       'linear interpolant in between', pre, {**inp, 'target_dt': target}, detail={'new_dt': dt2, 'factor': fac, 'new_len': len(fine)})
            if not pre:
                continue
        coarse = im.resp(a, dt, periods, xi)
        ref = im.resp(fine, dt2, periods, xi)
        if coarse is None or ref is None:
            continue
        ok, worst, where = refine_check(coarse, ref, fac, n, periods, xi, dt2, n * dt, peak(a), dt)
        ctx.gap('refinement(relative to property tolerance)', worst)
        ctx.oracle('C02.e refinement by an integer factor leaves the response at the original instants unchanged (C01 tolerance at the refined step)',
                   ok, inp, detail={'worst (series,row,err,tol)': where, 'refined_dt': dt2, 'factor': fac})
        parr = np.array(periods)
        s1 = call_impl(sdof.pseudo_response_spectra, a, dt, parr, xi)
        s2 = call_impl(sdof.pseudo_response_spectra, fine, dt2, parr, xi)
        if s1[0] == s2[0] == 'ok':
            tols = np.array([prop_tol(dt2, T, n * dt) for T in periods])
            ok = bool(np.all(s2[1][0] >= s1[1][0] * (1 - tols)))
            ctx.oracle('C02.e spectral displacement never decreases under refinement (beyond the C01 tolerance)', ok, inp,
                       detail={'S_d raw': s1[1][0], 'S_d refined': s2[1][0]})
            # the same for S_a and S_v wherever the period is NOT below six coarse steps (there both records report w^2 S_d, w S_d;
            # below six steps the reported S_a is the peak ground acceleration, which refinement may well undercut: finding F03-1)
            sel = np.array([not (T < dt * 6) for T in periods])
            if sel.any():
                for nm, j in (('S_v', 1), ('S_a', 2)):
                    ok = bool(np.all(np.asarray(s2[1][j])[sel] >= np.asarray(s1[1][j])[sel] * (1 - tols[sel])))
                    ctx.oracle(f'C02.e {nm} never decreases under refinement for periods of at least six coarse time steps (beyond the C01 tolerance)', ok, inp,
                               detail={'raw': s1[1][j], 'refined': s2[1][j], 'T/dt': [T / dt for T in periods]})
        else:
            ctx.oracle('pseudo_response_spectra returns on its domain', False, inp, detail=[s1[0], s2[0]])
        # object level: AccSignal.s_d is computed on the internally refined record and is never below the raw value
        if i % 4 == 0 and (len(periods) >= 2 or not lead0):
            mdr = rng.choice([2, 4, 8])
            s = im.eqsig.AccSignal(a, dt)
            g = call_impl(s.gen_response_spectrum, response_times=parr, xi=xi, min_dt_ratio=mdr)
            if g[0] == 'ok' and s1[0] == 'ok':
                tols = np.array([prop_tol(dt / mdr, T, n * dt) for T in periods])
                ctx.oracle('C02.e AccSignal.s_d (internally refined record) is never below the raw spectral displacement (beyond the C01 tolerance)',
                           bool(np.all(np.array(s.s_d) >= s1[1][0] * (1 - tols))), {**inp, 'min_dt_ratio': mdr},
                           detail={'S_d raw': s1[1][0], 's_d': np.array(s.s_d)})
            elif g[0] != 'ok':
                ctx.oracle('AccSignal.gen_response_spectrum returns on its domain', False, {**inp, 'min_dt_ratio': mdr}, detail=g)


CORPUS = [  # fixed witnesses: hat records (by C02.a they generate every record), the T/dt corner values of the Search paragraph
    ([0.0, 1.0, 0.0, 0.0, 0.0, 0.0], 0.01, [0.002, 0.01, 0.059, 0.06, 0.2, 200.0], 0.0),
    ([0.0, 1.0, 0.0, 0.0, 0.0, 0.0], 0.01, [0.0, 0.002, 0.2], 0.99),
    ([0.0, 0.0, 2.0, -1.0, 0.5, 0.0, 0.0, 1.0], 0.5, [0.0, 1.0, 3.0], 0.05),
    ([0.0, -1.0], 0.02, [0.1], 0.3),
]


def corpus(ctx, im):
    for acc, dt, periods, xi in CORPUS:
        a = np.array(acc)
        n = len(a)
        inp = {'acc': a, 'dt': dt, 'periods': periods, 'xi': xi}
        ctx.hist('corpus')
        ctx.count_case(('corpus', tuple(acc), dt, tuple(periods), xi), gen.nontrivial_record(a), sample={'fn': 'corpus', **inp})
        base = im.resp(a, dt, periods, xi)
        if base is None:
            continue
        ctx.corr('response_series', f"nj_response|{w_float(xi)}|{w_float(dt)}|{w_floats(periods)}|{w_floats(a)}", ('ok', base),
                 model_compare(ctx, periods, dt, peak(a)), inputs=inp)
        ok = all(eq3(tuple(x[:, :s + 1] for x in base), im.resp(a[:s + 1].copy(), dt, periods, xi) or ()) for s in range(n))
        ctx.oracle('C02.b causality: response of a[:i+1] == first i+1 samples of the response of a (all split points, ==)', ok, inp)
        ok = True
        for kk in (0, 1, 2, 50):
            r = im.resp(np.concatenate([np.zeros(kk), a]), dt, periods, xi)
            ok = ok and r is not None and all(np.all(x[:, :kk] == 0) and np.array_equal(x[:, kk:], y) for x, y in zip(r, base))
        ctx.oracle('C02.c shift: prepending zeros to a record starting at 0 delays the response by as many samples (==)', ok, inp)
        nz = [p for p in periods if p != 0]
        rr = im.resp(a, dt, ([0.0] if periods[0] == 0 else []) + nz[::-1], xi)
        s = 1 if periods[0] == 0 else 0
        idx = list(range(s)) + list(range(len(periods) - 1, s - 1, -1))
        ctx.oracle('C02.d each period\'s rows depend on that period only (order / batching / leading 0, ==)',
                   rr is not None and all(np.array_equal(x, y[idx]) for x, y in zip(rr, base)), inp)
        for r in (2, 8):
            fine = np.interp(np.arange(r * (n - 1) + 1) / r, np.arange(n), a)
            ref = im.resp(fine, dt / r, periods, xi)
            ok = ref is not None and refine_check(base, ref, r, n, periods, xi, dt / r, n * dt, peak(a), dt)[0]
            ctx.oracle('C02.e refinement by an integer factor leaves the response at the original instants unchanged (C01 tolerance at the refined step)',
                       ok, {**inp, 'r': r, 'route': 'np.interp'})


def run(ctx):
    im = Impl(ctx)
    quick = ctx.tier == 'quick'
    _HV.update(xi=gen.hint_values(ctx, 0.0, 0.999, cap=10), dt=gen.hint_values(ctx, 1e-3, 1.0, cap=10, maps=(lambda c: c, lambda c: 1 / c)),
               ratio=gen.hint_values(ctx, 0.2, 2e4, cap=30, maps=(lambda c: c, lambda c: 6.2831853 / c, lambda c: 1 / c)))     # T/dt, or w*dt = 2 pi dt/T, at the constant
    corpus(ctx, im)
    ctx.flush()
    exhaustive(ctx, im)
    ctx.flush()
    linearity(ctx, im, 90 if quick else 700, 400 if quick else 3000)
    causality(ctx, im, 48 if quick else 240, 400 if quick else 3000)
    shift(ctx, im, 60 if quick else 400, 300 if quick else 3000)
    permutations(ctx, im, 30 if quick else 240, 200 if quick else 1000)
    refinement(ctx, im, 84 if quick else 700, 200 if quick else 1500)
    ctx.flush()


# ---- extras (round-3 lessons): large jobs, extreme magnitudes ----------------------------------------------------------------------------

def extras(ctx, im):
    """(a) LARGE jobs: rows are independent whatever the size of the job -- the spectra / series of a long period list on a long record
    (more than 2^20, 2^21 period-by-sample cells) equal those of the same periods computed in small batches, bit for bit, and the
    spectral displacement equals the peak of the response series; (b) homogeneity at extreme scales (see gen.scaled_exactly)."""
    rng = ctx.rng
    sdof = im.sdof
    jobs = [(400, 3000), (130, 17000)] if ctx.tier == 'quick' else [(400, 3000), (130, 17000), (1100, 2000), (40, 60000), (300, 7100)]
    # source hints: record lengths around every new integer constant; period counts that put the number of period x sample cells just above it
    jobs = jobs + [(8, m) for m in gen.hint_sizes(ctx, lo=3001, hi=100000, cap=3)] + [(c // 3000 + 1, 3000) for c in gen.hint_sizes(ctx, lo=2 ** 17, hi=6000000, cap=2)]
    for npd, n in jobs:
        dt = rng.choice([0.01, 0.005])
        a = gen.noise_record(rng, n) * np.exp(-((np.arange(n) - n / 3) / (n / 5)) ** 2)
        periods = np.exp(np.linspace(math.log(0.05), math.log(4.0), npd))
        xi = rng.choice([0.02, 0.05, 0.2])
        lead0 = rng.random() < 0.5
        if lead0:
            periods = np.concatenate([[0.0], periods])
        inputs = {'acc': f'noise x gaussian envelope, n={n} (seeded)', 'dt': dt, 'periods': f'{len(periods)} log-spaced 0.05..4 s' + (' after a leading 0' if lead0 else ''),
                  'xi': xi, 'cells': len(periods) * n}
        ctx.hist(f'large-job/{len(periods)}x{n}')
        ctx.count_case(('large', n, npd, dt, xi, lead0), True, sample={'fn': 'pseudo_response_spectra (large job)', **inputs})
        for fname in ('pseudo_response_spectra', 'true_response_spectra'):
            f = getattr(sdof, fname)
            whole = call_impl(f, a, dt, periods, xi)
            if whole[0] != 'ok':
                ctx.oracle(f'C02 {fname} returns for a large job', False, inputs, detail=whole)
                continue
            nb = 7
            parts = []
            body = periods[1:] if lead0 else periods
            for j in range(nb):
                chunk = body[j * len(body) // nb:(j + 1) * len(body) // nb]
                parts.append(f(a, dt, chunk, xi))
            ok = True
            where = None
            for q in range(3):
                cat = np.concatenate([np.asarray(p[q]) for p in parts])
                w = np.asarray(whole[1][q])[1:] if lead0 else np.asarray(whole[1][q])
                if cat.shape != w.shape or not np.array_equal(cat, w):
                    ok = False
                    bad = np.nonzero(cat != w)[0] if cat.shape == w.shape else []
                    where = {'spectrum': q, 'first_row': int(bad[0]) if len(bad) else None, 'whole': float(w[bad[0]]) if len(bad) else None,
                             'batched': float(cat[bad[0]]) if len(bad) else None}
                    break
            ctx.oracle(f'C02 rows are independent for jobs of any size: {fname} of the whole period list == the same periods in batches (==)', ok, inputs,
                       detail=where)
        # peak of the series == spectral displacement, on a sample of rows of the large job
        rows = sorted(rng.sample(range(1 if lead0 else 0, len(periods)), 5))
        sd = call_impl(sdof.pseudo_response_spectra, a, dt, periods, xi)
        if sd[0] == 'ok':
            u = sdof.response_series(a, dt, periods[rows], xi)[0]
            ok = bool(np.array_equal(np.max(np.abs(u), axis=1), np.asarray(sd[1][0])[rows]))
            ctx.oracle('C02 spectral displacement of a large job == peak |u| of the response series of the same period (==)', ok, {**inputs, 'rows': rows},
                       detail={'s_d': np.asarray(sd[1][0])[rows], 'peaks': np.max(np.abs(u), axis=1)})
    # integer-typed period containers (with and without a leading 0): each period's spectra depend on that period only and equal those for floats
    for it in range(4 if ctx.tier == 'quick' else 30):
        n = rng.randint(20, 120)
        a = gen.noise_record(rng, n)
        dti = rng.choice([0.1, 0.25, 0.5])
        body = sorted(rng.sample([1, 2, 3, 4, 5, 7, 9], rng.randint(1, 3)))
        for lead in (True, False):
            pl = ([0] if lead else []) + body
            xi = rng.choice([0.0, 0.05, 0.3])
            for cont, obj in (('list of ints', list(pl)), ('tuple of ints', tuple(pl)), ('int64 array', np.array(pl, dtype=np.int64))):
                ctx.hist('integer periods/' + cont)
                for fname in ('pseudo_response_spectra', 'true_response_spectra', 'response_series'):
                    f = getattr(sdof, fname)
                    ri, rf = call_impl(f, a, dti, obj, xi), call_impl(f, a, dti, np.array(pl, dtype=float), xi)
                    rb = call_impl(f, a, dti, np.array(body, dtype=float), xi)
                    ok = ri[0] == rf[0] == 'ok' and all(np.array_equal(np.asarray(x), np.asarray(y)) for x, y in zip(ri[1], rf[1]))
                    okb = ok and rb[0] == 'ok' and all(np.array_equal(np.asarray(x)[1 if lead else 0:], np.asarray(y)) for x, y in zip(ri[1], rb[1]))
                    ctx.oracle(f'C02 {fname}: integer-typed period containers give the result for the same periods as floats, and each period depends on that period '
                               'only (with or without a leading 0)', ok and okb, {'a': a, 'dt': dti, 'periods': pl, 'container': cont, 'xi': xi},
                               detail={'equals_float_list': bool(ok), 'rows_equal_without_leading_zero': bool(okb)})
    for it in range(4 if ctx.tier == 'quick' else 40):
        n = rng.randint(8, 100)
        dt = pick_dt(rng)
        _, a = pick_record(rng, n, dt)
        if not np.any(a):
            continue
        periods, lead0 = pick_periods(rng, dt, lo=1, hi=3)
        xi = pick_xi(rng)
        base = im.resp(a, dt, periods, xi)
        sp0 = call_impl(sdof.pseudo_response_spectra, a, dt, np.array(periods), xi)
        if base is None or sp0[0] != 'ok':
            continue
        for k in gen.EXTREME_POW2:
            sc = 2.0 ** k
            ctx.hist(f'extreme-scale/2^{k}')
            r = im.resp(a * sc, dt, periods, xi)
            ctx.oracle('C02.a scaling by +-2^k is exact: response(2^k a) == 2^k response(a)', r is not None and all(gen.scaled_exactly(x, y, sc) for x, y in zip(r, base)),
                       {'a': a, 'dt': dt, 'periods': periods, 'xi': xi, 'alpha': f'2**{k}'})
            sp = call_impl(sdof.pseudo_response_spectra, a * sc, dt, np.array(periods), xi)
            ctx.oracle('C02.a pseudo spectra ignore the sign and scale exactly by 2^k (==)',
                       sp[0] == 'ok' and all(gen.scaled_exactly(np.asarray(x), np.asarray(y), sc) for x, y in zip(sp[1], sp0[1])),
                       {'a': a, 'dt': dt, 'periods': periods, 'xi': xi, 'alpha': f'2**{k}'})


_run_main = run


def run(ctx):
    _run_main(ctx)
    extras(ctx, Impl(ctx))
    ctx.flush()


# ---- extras2 (harness extension hx_a): the relations themselves on LARGE records; containers for the relations -----------------------------
#
# (extras() above covers: rows independent for large jobs (spectra), homogeneity at extreme scales.)  Not demanded: a joint power-of-two rescaling
# of dt and the periods (compute_a_and_b forms w ** 3 with libm pow, which need not commute with the scaling bit for bit).

def extras2(ctx, im):
    """LARGE records (6 000 - 60 000 samples; the main generators stop at 400 / 3 000): causality and the zero-prefix shift bit for bit (also for a
    prefix of thousands of zeros), linearity (1e-9 of the peak), refinement by 2 and 3 (C01 tolerance at the refined step) and its consequence for
    the spectra, order / batching of the period list for the SERIES (rows bit for bit); the same relations with the record given as an integer /
    float32 / strided array or a list"""
    rng = ctx.rng
    sdof = im.sdof
    quick = ctx.tier == 'quick'
    for n in ([12000] if quick else [12000, 6000, 30000, 60000, 5001]) + gen.hint_sizes(ctx, lo=5002, hi=100000, cap=3):
        dt = rng.choice([0.01, 0.005, 0.02])
        env = np.exp(-((np.arange(n) - n / 3) / (n / 5)) ** 2)
        a = gen.noise_record(rng, n) * env
        a[0] = 0.0
        b = gen.noise_record(rng, n) * env[::-1]
        periods = sorted(dt * math.exp(rng.uniform(math.log(4), math.log(600))) for _ in range(3))
        rng.shuffle(periods)
        lead0 = rng.random() < 0.4
        if lead0:
            periods = [0.0] + periods
        xi = rng.choice([0.02, 0.05, 0.3])
        inp = {'acc': f'gaussian noise x gaussian envelope, n={n}, a[0] = 0 (seed-derived)', 'dt': dt, 'periods': periods, 'xi': xi, 'head': a[:4]}
        ctx.hist(f'large-record/n={n}')
        ctx.count_case(('x2-large', n, dt, tuple(periods), xi, a[:16].tobytes()), True, sample={'fn': 'relations on a large record', **inp})
        base = im.resp(a, dt, periods, xi)
        if base is None:
            continue
        P = len(periods)
        # causality
        s = rng.choice([n // 2, 4095, 4096, n - 2, 5000])
        part = im.resp(a[:s + 1].copy(), dt, periods, xi)
        ctx.oracle('C02.b causality: response of a[:i+1] == first i+1 samples of the response of a (==) [large record]',
                   part is not None and all(y.shape == (P, s + 1) and np.array_equal(x[:, :s + 1], y) for x, y in zip(base, part)), {**inp, 'split_index': s})
        a2 = a.copy()
        a2[s + 1:] = a2[s + 1:][::-1] * 3.0 + 1.0
        r2 = im.resp(a2, dt, periods, xi)
        ctx.oracle('C02.b causality: samples after index i do not affect the response up to i (==) [large record]',
                   r2 is not None and all(np.array_equal(x[:, :s + 1], y[:, :s + 1]) for x, y in zip(base, r2)), {**inp, 'i': s})
        # zero-prefix shift
        for kk in (rng.choice([1, 2, 50]), rng.choice([4096, 5000])):
            r = im.resp(np.concatenate([np.zeros(kk), a]), dt, periods, xi)
            ctx.oracle('C02.c shift: prepending zeros to a record starting at 0 delays the response by as many samples (==) [large record]',
                       r is not None and all(x.shape == (P, n + kk) and np.all(x[:, :kk] == 0) and np.array_equal(x[:, kk:], y) for x, y in zip(r, base)), {**inp, 'k': kk})
        # linearity
        alpha, beta = rng.choice([-3.0, 0.5, 2.5]), rng.choice([1.0, -0.75, 4.0])
        rb = im.resp(b, dt, periods, xi)
        rc = im.resp(alpha * a + beta * b, dt, periods, xi)
        if rb is not None and rc is not None:
            worst, where = 0.0, None
            amax = max(abs(alpha) * peak(a), abs(beta) * peak(b))
            for name, x, y, z in zip('uva', rc, base, rb):
                for j in range(P):
                    sc = max(abs(alpha) * peak(y[j]), abs(beta) * peak(z[j]), FLOOR * nat(amax, dt, periods[j])['uva'.index(name)], 1e-300)
                    e = peak(x[j] - (alpha * y[j] + beta * z[j])) / sc
                    if e > worst:
                        worst, where = e, (name, j)
            ctx.gap('linearity(impl vs impl, large records)', worst)
            ctx.oracle('C02.a linearity: response(alpha a + beta b) == alpha response(a) + beta response(b) (1e-9 of the peak) [large record]', worst <= 1e-9,
                       {**inp, 'b': 'gaussian noise x mirrored envelope (seed-derived)', 'alpha': alpha, 'beta': beta}, detail={'err': worst, 'series,row': where})
        # order and batching of the period list, for the series
        perm = list(range(P))
        rng.shuffle(perm)
        body = [j for j in perm if periods[j] != 0]
        rp = im.resp(a, dt, [periods[j] for j in body], xi)
        ctx.oracle('C02.d each row depends on its period only: the series for a permuted period list are the permuted rows (==) [large record]',
                   rp is not None and all(np.array_equal(x, y[body]) for x, y in zip(rp, base)), {**inp, 'order': body})
        # refinement (a shorter stretch of the record keeps the quick tier quick)
        m = n if not quick else 6000
        am = a[:m]
        for fac in ((2,) if quick else (2, 3)):
            fine = np.interp(np.arange(fac * (m - 1) + 1) / fac, np.arange(m), am)
            coarse = base if m == n else tuple(x[:, :m] for x in base)       # by causality (checked above)
            ref = im.resp(fine, dt / fac, periods, xi)
            if ref is None:
                continue
            ok, worst, where = refine_check(coarse, ref, fac, m, periods, xi, dt / fac, m * dt, peak(am), dt)
            ctx.gap('refinement(relative to property tolerance, large records)', worst)
            ctx.oracle('C02.e refinement by an integer factor leaves the response at the original instants unchanged (C01 tolerance at the refined step) [large record]', ok,
                       {**inp, 'r': fac, 'first_samples_used': m}, detail={'worst (series,row,err,tol)': where})
            parr = np.array(periods)
            s1, s2 = call_impl(sdof.pseudo_response_spectra, am, dt, parr, xi), call_impl(sdof.pseudo_response_spectra, fine, dt / fac, parr, xi)
            if s1[0] == s2[0] == 'ok':
                tols = np.array([prop_tol(dt / fac, T, m * dt) for T in periods])
                ctx.oracle('C02.e spectral displacement never decreases under refinement (beyond the C01 tolerance) [large record]', bool(np.all(s2[1][0] >= s1[1][0] * (1 - tols))),
                           {**inp, 'r': fac, 'first_samples_used': m}, detail={'S_d raw': s1[1][0], 'S_d refined': s2[1][0]})
    # the relations with other containers / dtypes of the record: causality and shift stay bit-exact, scaling by 2^k stays exact
    for it in range(10 if quick else 100):
        n = gen.log_int(rng, 3, 100)
        dt = pick_dt(rng)
        a = gen.int_record(rng, n)
        a[0] = 0.0
        periods, lead0 = pick_periods(rng, dt, hi=3)
        xi = pick_xi(rng)
        base = im.resp(a, dt, periods, xi)
        if base is None:
            continue
        ctx.count_case(('x2-cont', a.tobytes(), dt, tuple(periods), xi), gen.nontrivial_record(a))
        variants = [(lab, c, a) for lab, c in gen.container_variants(a)] + gen.narrow_int_variants(a)
        lab, c, fl = rng.choice(variants)
        ctx.hist('record container=' + lab)
        inp = {'acc': fl, 'dt': dt, 'periods': periods, 'xi': xi, 'container': lab}
        is_arr = isinstance(c, np.ndarray)
        s = rng.randrange(n)
        kk = rng.choice([1, 3, 17])
        cut = c[:s + 1]
        pre = (np.concatenate([np.zeros(kk, dtype=c.dtype), c]) if is_arr else type(c)([0] * kk) + c)
        full = call_impl(sdof.response_series, c, dt, periods, xi)
        part = call_impl(sdof.response_series, cut, dt, periods, xi)
        shf = call_impl(sdof.response_series, pre, dt, periods, xi)
        want = base if fl is a else im.resp(fl, dt, periods, xi)
        ctx.oracle('C02 the response of a record given as list / tuple / integer (any width) / float32 / strided ndarray == that of the same numbers in float64 (==)',
                   full[0] == 'ok' and want is not None and eq3(full[1], want), inp)
        if full[0] == 'ok':
            ctx.oracle('C02.b causality for every record container: response of a[:i+1] == first i+1 samples of the response of a (==)',
                       part[0] == 'ok' and all(np.array_equal(x[:, :s + 1], y) for x, y in zip(full[1], part[1])), {**inp, 'split_index': s})
            if fl[0] == 0:      # (the unsigned variants are offset: they do not start at zero, the relation does not apply)
                ctx.oracle('C02.c shift for every record container: prepending zeros to a record starting at 0 delays the response by as many samples (==)',
                           shf[0] == 'ok' and all(np.all(x[:, :kk] == 0) and np.array_equal(x[:, kk:], y) for x, y in zip(shf[1], full[1])), {**inp, 'k': kk})


_run_main2 = run


def run(ctx):
    _run_main2(ctx)
    extras2(ctx, Impl(ctx))
    ctx.flush()


# evidence: how the model is tied to the source on every run (as built, supersedes the value above)
TIE = 'translator through Props/C01Gen (the model of the laws is the regenerated loop) + correspondence (small exhaustive space through the Float twin) + relations evaluated impl-vs-impl'


# ---- extras3 (hx_r7a, round 7): silent lead-ins whose length sits on a multiple of (new integer constant // number of periods) ---------------------
#
# A change that processes the record in blocks / skips a silent lead-in blockwise introduces an integer constant c and is wrong only when the
# number of leading zeros L of the record is related to c AND to the length of the period list (L == m * (c // n_periods)).  No fixed set of
# shifts can cover that, the source hints can: for every constant c the new literals can form (gen.hint_consts: `2 ** 16` arrives as 2 and 16)
# and n_p in {64, 8, 3, 2, 1} periods (with and without a leading 0), records whose first non-zero sample is at L in {q-1, q, q+1, q+2, 2q},
# q = c // n_p, evaluated by the EXISTING oracles: zero-prefix shift (==), linearity with an early blip (the silent stretch then lies INSIDE
# the record and ends on the block boundary), causality at the split points around L.  Costs nothing without hints (no constants -> no cases).

def extras3(ctx, im):
    consts = gen.hint_consts(ctx, lo=4, hi=2 ** 21, cap=8)
    if not consts:
        return
    rng = ctx.rng
    budget = [2500000]          # total number of recurrence steps spent here (~16 us each)

    def run_(rec, dt, periods, xi):
        budget[0] -= len(rec)
        return im.resp(rec, dt, periods, xi)

    sh_clause = 'C02.c shift: prepending zeros to a record starting at 0 delays the response by as many samples (==)'
    for c in consts:                                 # the new literals first, then what two of them can form (gen.hint_consts)
        for n_p in (64, 8, 3, 2, 1):                 # cheap period counts first: the budget can only drop the most expensive cases
            q = c // n_p
            if q < 2 or q * n_p > 200000:
                continue
            n = rng.randint(24, 90)
            dt = rng.choice([0.01, 0.005, 0.02])
            kind = rng.choice(['noise', 'sine', 'int', 'hat'])
            a = (gen.noise_record(rng, n) if kind == 'noise' else gen.sine_record(rng, n, dt) if kind == 'sine' else gen.int_record(rng, n) if kind == 'int'
                 else np.zeros(n))
            a[0] = 0.0
            if abs(a[1]) < 0.25:
                a[1] = rng.choice([-1.0, 1.0, 0.5, 2.0])         # the first non-zero sample is sample 1 and is not negligible
            body = sorted(dt * math.exp(rng.uniform(math.log(3), math.log(400))) for _ in range(n_p))
            xi = rng.choice([0.0, 0.02, 0.05, 0.3])
            base_inp = {'acc': a, 'dt': dt, 'xi': xi, 'hinted_constant': c, 'n_periods': n_p, 'constant // n_periods': q}
            # period lists: n_p non-zero periods; the same behind a leading 0; a list of n_p entries INCLUDING the leading 0
            plists = [('plain', body)]
            if n_p >= 2:
                plists += [('leading 0 + n_p periods', [0.0] + body), ('leading 0 + (n_p - 1) periods', [0.0] + body[:-1])]
            else:
                plists += [('leading 0 + n_p periods', [0.0] + body)]
            for li, (plab, periods) in enumerate(plists):
                Ls = [L for L in (q, q - 1, q + 1, q + 2, 2 * q) if L >= 1 and L * n_p <= 200000] if li == 0 else [q]
                if budget[0] < sum(Ls) + len(Ls) * n:
                    ctx.hist('hinted lead-in/skipped (budget)')
                    continue
                base = im.resp(a, dt, periods, xi)
                if base is None:
                    continue
                P = len(periods)
                inp = {**base_inp, 'periods': periods}
                ctx.hist(f'hinted lead-in/c={c} n_p={n_p} {plab}')
                ctx.count_case(('x3-leadin', c, n_p, plab, a.tobytes(), dt, tuple(periods), xi), True,
                               sample={'fn': 'silent lead-in of hinted length', **{k_: v_ for k_, v_ in inp.items() if k_ != 'acc'}} if n_p == 64 and li == 0 else None)
                bad = None
                at_q = None
                for L in Ls:
                    kk = L - 1                                  # a[0] == 0 is the L-th leading zero: the first non-zero sample has index L
                    rec = np.concatenate([np.zeros(kk), a])
                    r = run_(rec, dt, periods, xi)
                    if L == q:
                        at_q = (rec, r)
                    if r is None or not all(x.shape == (P, n + kk) and np.all(x[:, :kk] == 0) and np.array_equal(x[:, kk:], y) for x, y in zip(r, base)):
                        bad = kk if bad is None else bad
                ctx.oracle(sh_clause, bad is None, {**inp, 'k': bad, 'index_of_first_nonzero_sample': None if bad is None else bad + 1})
                if li != 0 or at_q is None or at_q[1] is None:
                    continue
                # the silent stretch INSIDE the record: an early blip b, then zeros up to the block boundary, then the record
                rec, ra = at_q
                N = len(rec)
                if budget[0] < 5 * N:
                    ctx.hist('hinted lead-in/skipped (budget)')
                    continue
                b = np.zeros(N)
                for j in range(rng.randint(1, 4)):
                    b[rng.randint(0, 6)] = rng.choice([-1.0, 0.5, 1e-3, 2.0])
                if not b.any():
                    b[2] = 1.0
                alpha, beta = rng.choice([1.0, -2.0, 0.5]), rng.choice([1.0, 3.0, -0.25])
                rb = run_(b, dt, periods, xi)
                rc = run_(alpha * rec + beta * b, dt, periods, xi)
                if rb is not None and rc is not None:
                    worst, where = 0.0, None
                    amax = max(abs(alpha) * peak(rec), abs(beta) * peak(b))
                    for name, x, y, z in zip('uva', rc, ra, rb):
                        for j in range(P):
                            sc = max(abs(alpha) * peak(y[j]), abs(beta) * peak(z[j]), FLOOR * nat(amax, dt, periods[j])['uva'.index(name)], 1e-300)
                            e = peak(x[j] - (alpha * y[j] + beta * z[j])) / sc
                            if e > worst:
                                worst, where = e, (name, j)
                    ctx.gap('linearity(impl vs impl, hinted lead-in)', worst)
                    ctx.oracle('C02.a linearity: response(alpha a + beta b) == alpha response(a) + beta response(b) (1e-10 of the peak)', worst <= 1e-10,
                               {**inp, 'a': f'{q - 1} zeros followed by acc', 'b': f'{N} samples, zero except b[:7] = {b[:7].tolist()}', 'alpha': alpha, 'beta': beta},
                               detail={'err': worst, 'series,row': where})
                    # causality around the boundary, on the combined record
                    comb = alpha * rec + beta * b
                    badc = None
                    for s in (q - 1, q, q + 1):
                        if not 0 <= s < N:
                            continue
                        part = run_(comb[:s + 1].copy(), dt, periods, xi)
                        if part is None or not all(y.shape == (P, s + 1) and np.array_equal(x[:, :s + 1], y) for x, y in zip(rc, part)):
                            badc = s
                            break
                    ctx.oracle('C02.b causality: response of a[:i+1] == first i+1 samples of the response of a (all split points, ==)', badc is None,
                               {**inp, 'acc': f'{alpha} * ({q - 1} zeros followed by acc) + {beta} * (b[:7] = {b[:7].tolist()}, zero afterwards)', 'acc_tail': a, 'split_index': badc})


_run_main3 = run


def run(ctx):
    _run_main3(ctx)
    extras3(ctx, Impl(ctx))
    ctx.flush()


# ---- round-9 lessons ----------------------------------------------------------------------------------------------------------------------
# (a) [hinted] consecutive spectrum jobs of exactly the SAME (n_periods, n_samples) shape, with n_periods * n_samples just above a new integer
#     constant, whose period lists differ in having a leading T = 0 or not, on different records, alternating pseudo_/true_response_spectra
#     (state shared between same-shape calls: seed C02-r9-1).  Clauses: T = 0 row (S_d = S_v = 0, S_a = PGA), row i of the job == the
#     single-period call (==), |alpha| scaling.  Costs nothing without hints.
# (b) calls whose period list AND time step are the current ones multiplied by the same power of two (same w*dt bit for bit, other dt) placed
#     directly BEFORE the coarse and the refined call of the refinement relation (a memo keyed on the dimensionless step: seed C02-r9-2); and the
#     time-scale covariance itself: response_series(a, s dt, s T) == (s^2 u, s v, a) of response_series(a, dt, T).

def r9_same_shape_jobs(ctx, im):
    consts = [c for c in gen.hint_consts(ctx, lo=2 ** 10, hi=2 ** 20, cap=6)]
    if not consts:
        return
    rng = ctx.rng
    sdof = im.sdof
    budget = 330000         # recurrence steps
    for c in consts[:3]:
        n_p = 8 if c >= 2 ** 14 else 3
        n = -(-c // n_p) + rng.choice([0, 1])
        dt = rng.choice([0.01, 0.005, 0.02])
        xi = rng.choice([0.02, 0.05, 0.2])
        recs = [gen.noise_record(rng, n) * np.exp(-((np.arange(n) - n / 3) / (n / 5)) ** 2) * s for s in (1.0, 3.0, 0.5)]

        def plist(lead0):
            body = sorted(dt * math.exp(rng.uniform(math.log(8), math.log(300))) for _ in range(n_p - (1 if lead0 else 0)))
            return np.array(([0.0] if lead0 else []) + body)
        jobs = [('pseudo_response_spectra', 0, False), ('pseudo_response_spectra', 1, True), ('true_response_spectra', 2, False), ('true_response_spectra', 0, True),
                ('pseudo_response_spectra', 1, True), ('true_response_spectra', 2, False), ('pseudo_response_spectra', 0, True)]
        prev = 'nothing'
        for fname, ri, lead0 in jobs:
            if budget < 4 * n:
                ctx.hist('same-shape jobs/skipped (budget)')
                break
            f = getattr(sdof, fname)
            a = recs[ri]
            periods = plist(lead0)
            budget -= 4 * n
            inputs = {'acc': f'noise x gaussian envelope #{ri}, n={n} (seeded)', 'dt': dt, 'periods': periods, 'xi': xi, 'cells': n_p * n, 'hinted_constant': c,
                      'called_directly_after': prev}
            prev = f'{fname} on record #{ri}, {n_p} periods ' + ('with' if lead0 else 'without') + ' a leading 0 (same shape)'
            ctx.hist(f'same-shape jobs/c={c} {n_p}x{n} ' + ('lead0' if lead0 else 'plain'))
            ctx.count_case(('r9shape', c, fname, ri, lead0, tuple(periods)), True)
            whole = call_impl(f, a, dt, periods, xi)
            if whole[0] != 'ok':
                ctx.oracle(f'C02 {fname} returns for a large job', False, inputs, detail=whole)
                continue
            sd, sv, sa = (np.array(x) for x in whole[1])
            if lead0:
                pga = float(np.max(np.abs(a)))
                ctx.oracle('C02 T = 0: S_d = S_v = 0 and S_a == peak ground acceleration, whatever was computed before', bool(sd[0] == 0 and sv[0] == 0 and sa[0] == pga), inputs,
                           detail={'S_d[0]': float(sd[0]), 'S_v[0]': float(sv[0]), 'S_a[0]': float(sa[0]), 'pga': pga})
            rows = [0, rng.randrange(1, n_p)]
            ok, where = True, None
            for j in rows:
                one = call_impl(f, a, dt, periods[[j]], xi)          # n cells: below the constant
                if one[0] != 'ok' or not all(float(np.asarray(x)[0]) == float(y[j]) for x, y in zip(one[1], (sd, sv, sa))):
                    ok, where = False, {'row': j, 'period': float(periods[j]), 'job': [float(sd[j]), float(sv[j]), float(sa[j])],
                                        'single': [float(np.asarray(x)[0]) for x in one[1]] if one[0] == 'ok' else one}
                    break
            ctx.oracle(f'C02 rows are independent for jobs of any size: {fname} of the whole period list == the same periods in batches (==)', ok, inputs, detail=where)
            twice = call_impl(f, -2.0 * a, dt, periods, xi)          # same shape again, same list
            ok = twice[0] == 'ok' and all(np.array_equal(np.asarray(x), 2.0 * y) for x, y in zip(twice[1], (sd, sv, sa)))
            ctx.oracle('C02.a pseudo spectra ignore the sign and scale exactly by 2^k (==)' if fname.startswith('pseudo') else
                       'C02.a true spectra ignore the sign and scale exactly by 2^k (==)', ok, {**inputs, 'alpha': -2.0})
    ctx.flush()


def r9_same_dimensionless_step(ctx, im):
    rng = ctx.rng
    cov_clause = ('C02 time-scale covariance: response_series(a, s dt, s T) == (s^2 u, s v, a) of response_series(a, dt, T) for s a power of two '
                  '(1e-9 + 32 eps / (w dt)^3 of the peak)')

    def cov(main, primed, s, periods, dt, inp):
        worst, where = 0.0, None
        for name, x, y, fac in zip('uva', main, primed, (s * s, s, 1.0)):
            for j, T in enumerate(periods):
                tol = 1e-9 if T == 0 else 1e-9 + K_CANCEL * EPS / (C_NJ / T * dt) ** 3
                pk = max(peak(x[j]) * fac, peak(y[j]), 1e-300)
                e = peak(y[j] - fac * x[j]) / pk / tol
                if e > worst:
                    worst, where = e, (name, j)
        ctx.gap('time-scale covariance (relative to tolerance)', worst)
        ctx.oracle(cov_clause, worst <= 1.0, inp, detail={'worst err/tol': worst, 'series,row': where})

    for i in range(24 if ctx.tier == 'quick' else 200):
        n = gen.log_int(rng, 4, 150)
        dt = pick_dt(rng)
        k, a = pick_record(rng, n, dt)
        periods = sorted(dt * math.exp(rng.uniform(math.log(0.5), math.log(300))) for _ in range(rng.randint(1, 4)))
        if rng.random() < 0.25:
            periods = [0.0] + periods
        xi = pick_xi(rng)
        r = rng.choice([2, 4, 2, 8, 3])
        s1, s2 = (2.0 ** rng.choice([-3, -2, -1, 1, 2, 3]) for _ in range(2))
        if rng.random() < 0.5:
            s1 = float(r)                # the setting primed before the refined call is then exactly the coarse one's dimensionless step
        dt2 = dt / r
        fine = np.interp(np.arange(r * (n - 1) + 1) / r, np.arange(n), a)
        inp = {'acc': a, 'dt': dt, 'periods': periods, 'xi': xi, 'r': r,
               'called_directly_before': f'response_series with dt and periods both multiplied by {s2} (coarse call) / {s1} (refined call)'}
        ctx.hist('same dimensionless step/r=%d' % r)
        ctx.count_case(('r9wdt', a.tobytes(), dt, tuple(periods), xi, r, s1, s2), gen.nontrivial_record(a))
        other = a if rng.random() < 0.5 else pick_record(rng, n, dt)[1]
        p_c = im.resp(other, dt * s2, [T * s2 for T in periods], xi)
        coarse = im.resp(a, dt, periods, xi)
        p_f = im.resp(fine, dt2 * s1, [T * s1 for T in periods], xi)
        ref = im.resp(fine, dt2, periods, xi)
        if coarse is None or ref is None or p_c is None or p_f is None:
            continue
        ok, worst, where = refine_check(coarse, ref, r, n, periods, xi, dt2, n * dt, peak(a), dt)
        ctx.oracle('C02.e refinement by an integer factor leaves the response at the original instants unchanged (C01 tolerance at the refined step)',
                   ok, inp, detail={'worst (series,row,err,tol)': where, 'refined_dt': dt2, 'factor': r})
        cov(ref, p_f, s1, periods, dt2, {**inp, 'acc': fine, 'dt': dt2, 's': s1})
        if other is a:
            cov(coarse, p_c, s2, periods, dt, {**inp, 's': s2})
        # row independence across the primed setting: the same call once more, and a single row, give the same numbers
        again = im.resp(a, dt, periods, xi)
        j = rng.randrange(len(periods))
        row = im.resp(a, dt, [periods[j]], xi)
        okr = again is not None and row is not None and eq3(again, coarse) and all(np.array_equal(x[0], y[j]) for x, y in zip(row, coarse))
        ctx.oracle('C02.d each period\'s rows depend on that period only: the same call again and the single-period call give the same rows (==), also after a call with '
                   'dt and the periods both scaled', okr, {**inp, 'row': j})
    ctx.flush()


_run_main_r9 = run


def run(ctx):
    _run_main_r9(ctx)
    im = Impl(ctx)
    r9_same_dimensionless_step(ctx, im)
    r9_same_shape_jobs(ctx, im)
    ctx.flush()
