"""C11 — local-peak detection is sound and complete on every series."""
import itertools
from fractions import Fraction

import numpy as np

import gen
from core import fr, w_rats, w_bool, p_ints, p_rats, cmp_exact, cmp_budget, call_impl

RULE = ("exhaustive: every sequence over the 5-level alphabet {-2,-1,0,1,2} up to length 6 (quick, plus the 3-level alphabet up to length 8) / 8 (thorough, plus 3- and "
        "7-level alphabets); random real-valued and plateau-rich series up to length 5000; ptype in {all,max,min}; "
        "get_n_cyc_array opt=all, start in {origin, peak}; float/int dtype and lists. All outputs are indices or exact "
        "half-integers: compared exactly. distinct = hash of the series; non-trivial = length >= 3 and not constant")
TIE = "correspondence (hand model Model/Peaks.lean; exhaustive over small alphabets)"
NOT_PROVED = ["sign of the product d[i]*d[i+1] when it underflows in binary64 (|d| < 1e-150 is not generated)"]
EXHAUSTIVE = True


PROP_MODULES = ['C11', 'C11Gen']

def spec_peaks(v, P):
    """C11.a-c evaluated on an index list P for the series v (exact comparisons). Returns None or the violated clause."""
    n = len(v)
    P = [int(p) for p in P]
    if any(b <= a for a, b in zip(P, P[1:])):
        return 'strictly ascending'
    if not P or P[0] != 0:
        return 'begins at index 0'
    # first index of the final constant run
    k = n - 1
    while k > 0 and v[k - 1] == v[k]:
        k -= 1
    if P[-1] != k:
        return 'ends at the first sample of the final constant run'
    prev_dir = 0
    for p, q in zip(P, P[1:]):
        seg = v[p:q + 1]
        up = all(a <= b for a, b in zip(seg, seg[1:]))
        down = all(a >= b for a, b in zip(seg, seg[1:]))
        if v[p] == v[q] or not (up or down):
            return 'monotone between consecutive reported indices (with different end values)'
        d = 1 if v[q] > v[p] else -1
        if prev_dir != 0 and d != -prev_dir:
            return 'direction strictly alternates'
        prev_dir = d
    # completeness: every turning point (first sample of a plateau that is a strict local extremum) is reported
    want = {0, k}
    i = 1
    while i < n:
        if v[i] != v[i - 1]:
            j = i
            while j + 1 < n and v[j + 1] == v[i]:
                j += 1
            if j + 1 < n:
                left, right = v[i - 1], v[j + 1]
                if (v[i] > left and v[i] > right) or (v[i] < left and v[i] < right):
                    want.add(i)
            i = j + 1
        else:
            i += 1
    if set(P) != want:
        return 'reports every turning point and nothing else'
    return None


def spec_ptype(v, P, pmax, pmin):
    """C11.d: max/min selections are exactly the reported indices that are local maxima / minima
    (end points classified by the adjacent segment)."""
    P = [int(p) for p in P]
    wmax, wmin = [], []
    for t, p in enumerate(P):
        if t + 1 < len(P):
            is_max = v[p] > v[P[t + 1]]
        else:
            is_max = v[p] > v[P[t - 1]]
        (wmax if is_max else wmin).append(p)
    if [int(x) for x in pmax] != wmax:
        return "'max' selection == reported local maxima"
    if [int(x) for x in pmin] != wmin:
        return "'min' selection == reported local minima"
    return None


def spec_ncyc(v, P, nc, origin):
    n = len(v)
    P = [int(p) for p in P]
    if len(nc) != n:
        return 'cycle counter has the series length'
    f = [fr(x) for x in nc]
    if any(b < a for a, b in zip(f, f[1:])):
        return 'cycle counter non-decreasing'
    off = Fraction(-1, 4) if origin else Fraction(0)
    for t, p in enumerate(P):
        want = Fraction(t, 2) + (off if t >= 1 else 0)
        if f[p] != want:
            return 'cycle counter increases by 0.5 between reported peaks (0.25 to the first from the origin)'
    if any(x != f[P[-1]] for x in f[P[-1]:]):
        return 'cycle counter constant after the last peak'
    return None


def ncyc_cmp(ctx, val, model):
    # values between peaks are np.interp results (thirds etc.): rounding budget; at the peaks the oracle demands exactness
    msg, g = cmp_budget(list(val), model, Fraction(1, 10**12), abs_floor=Fraction(1, 10**15))
    ctx.gap('get_n_cyc_array', g)
    return msg


import _precalls as _PRE  # noqa: E402
_PRE_SHARE_SMALL = 0.03     # per call site, exhaustive part (~30 000 short series)
_PRE_SHARE = 0.4            # per call site, random / corpus part


def all_sequences(levels, maxlen):
    for n in range(2, maxlen + 1):
        for t in itertools.product(levels, repeat=n):
            yield t


def run(ctx):
    from eqsig.fns import peaks_and_crossings as pc
    rng = ctx.rng
    if ctx.tier == 'quick':
        spaces = [((-2, -1, 0, 1, 2), 6), ((-1, 0, 1), 8)]
        n_random = 400
        maxlen_r = 600
    else:
        spaces = [((-2, -1, 0, 1, 2), 8), ((-1, 0, 1), 10), ((-3, -2, -1, 0, 1, 2, 3), 6)]
        n_random = 4000
        maxlen_r = 5000
    corpus = [(1, 1, 2, 1), (5, 1, 3, -1), (0, 2, 1, 2, -1, 1, 1, 0.3, -1, 0.2, 1, 0.2), (0, 0, 1, 1, 0, 0), (3, 3, 3, 1),
              (1, 2, 2, 2, 3, 1, 1), (0, 1), (2, 2, 1, 1, 2, 2)]

    def one(v, full):
        arr = np.array(v, dtype=float)
        nonconst = len(set(v)) > 1
        ctx.count_case(tuple(v), len(v) >= 3 and nonconst,
                       sample={'fn': 'get_peak_array_indices', 'values': list(v)} if ctx.evaluations % 20011 == 0 else None)
        # round 7: before a share of the calls, public functions of the module are called on the same content with non-default options,
        # positionally / by keyword, results ignored (_precalls.py); `pre` lists them for the failing input
        pre = {}
        share = _PRE_SHARE_SMALL if len(v) <= 8 else _PRE_SHARE
        _PRE.before(ctx, _PRE.pc_entries, arr, pre, share=share)
        res = call_impl(pc.get_peak_array_indices, arr)
        ctx.corr('get_peak_array_indices', f"peaks|{w_rats(v)}", res,
                 lambda outs, val: cmp_exact([int(x) for x in val], p_ints(outs[0])), inputs={'values': list(v), **pre})
        # the documented selection value 'all' given explicitly (keyword and positional) is the default
        for how, r_all in (('keyword', call_impl(pc.get_peak_array_indices, arr, ptype='all')), ('positional', call_impl(pc.get_peak_array_indices, arr, 'all'))):
            ctx.oracle("C11 ptype='all' given explicitly (%s) == the default selection" % how,
                       r_all[0] == res[0] and (res[0] != 'ok' or list(map(int, r_all[1])) == list(map(int, res[1]))), inputs={'values': list(v)},
                       detail={'default': res[1] if res[0] != 'ok' else list(map(int, res[1])), 'explicit': r_all[1] if r_all[0] != 'ok' else list(map(int, r_all[1]))})
        if not nonconst or res[0] != 'ok':
            return
        P = res[1]
        vv = [fr(x) for x in v]
        bad = spec_peaks(vv, P)
        ctx.oracle('C11.a-c ' + (bad or 'peaks shape/segments/completeness'), bad is None, inputs={'values': list(v), **pre},
                   detail={'reported': P})
        pre2 = {}
        _PRE.before(ctx, _PRE.pc_entries, arr, pre2, share=share)
        rmax = call_impl(pc.get_peak_array_indices, arr, ptype='max')
        _PRE.before(ctx, _PRE.pc_entries, arr, pre2, share=share)
        rmin = call_impl(pc.get_peak_array_indices, arr, ptype='min')
        ctx.corr('get_peak_array_indices[max]', f"peaks_max|{w_rats(v)}", rmax,
                 lambda outs, val: cmp_exact([int(x) for x in val], p_ints(outs[0])), inputs={'values': list(v), 'ptype': 'max'})
        ctx.corr('get_peak_array_indices[min]', f"peaks_min|{w_rats(v)}", rmin,
                 lambda outs, val: cmp_exact([int(x) for x in val], p_ints(outs[0])), inputs={'values': list(v), 'ptype': 'min'})
        if rmax[0] == 'ok' and rmin[0] == 'ok' and bad is None:
            b2 = spec_ptype(vv, P, rmax[1], rmin[1])
            ctx.oracle('C11.d ' + (b2 or 'ptype selections'), b2 is None, inputs={'values': list(v), **pre2},
                       detail={'all': P, 'max': rmax[1], 'min': rmin[1]},
                       facts={'flat_start': bool(v[0] == v[1])})
        if full:
            for origin in (True, False):
                pre3 = {}
                _PRE.before(ctx, _PRE.pc_entries, arr, pre3, share=share)
                rn = call_impl(pc.get_n_cyc_array, arr, opt='all', start='origin' if origin else 'peak')
                ctx.corr('get_n_cyc_array', f"ncyc|{w_bool(origin)}|{w_rats(v)}", rn,
                         lambda outs, val: ncyc_cmp(ctx, val, p_rats(outs[0])), inputs={'values': list(v), 'origin': origin, **pre3})
                if rn[0] == 'ok' and bad is None:
                    b3 = spec_ncyc(vv, P, rn[1], origin)
                    ctx.oracle('C11.e ' + (b3 or 'cycle counter'), b3 is None, inputs={'values': list(v), 'origin': origin, **pre3})
                elif rn[0] != 'ok' and bad is None and len(set(v)) > 1:
                    ctx.oracle("C11.e the cycle counter is returned for every non-constant series (start='%s')" % ('origin' if origin else 'peak'), False,
                               inputs={'values': list(v), 'origin': origin}, detail=rn)

    for v in corpus:
        ctx.hist('corpus')
        one(v, True)
    for levels, maxlen in spaces:
        for v in all_sequences(levels, maxlen):
            ctx.hist(f'exhaustive/{len(levels)}-level/len={len(v)}')
            one(v, len(v) <= 5)
        ctx.flush()
    for i in range(n_random):
        n = gen.log_int(rng, 2, maxlen_r)
        kind = rng.choice(['plateau', 'noise', 'int', 'dyadic', 'sine', 'offset-plateau', 'tiny-scale', 'near-tie', 'wide-range', 'wide-range'])
        if kind == 'wide-range':
            # strong motion followed / preceded by a ripple 2^-55 ... 2^-75 of its size (and a one-ulp oscillation riding on a large level):
            # every change is a change, whatever the largest sample of the record is
            m = max(2, n // 2)
            big = gen.int_record(rng, m) * 2.0 ** rng.choice([0, 10, 20])
            rip = gen.int_record(rng, n - m + 2) * 2.0 ** -rng.choice([55, 60, 75])
            v = np.concatenate([big, rip]) if rng.random() < 0.5 else np.concatenate([rip, big])
            if rng.random() < 0.3:
                lvl = 2.0 ** 20
                v = np.concatenate([v, lvl + np.array([rng.choice([0, 1, 2]) for _ in range(6)]) * np.spacing(lvl)])
            v = v[:max(n, 4)]
        elif kind == 'tiny-scale':
            # steps far below any absolute tolerance are still steps (exact power-of-two scaling of a dyadic record)
            v = gen.dyadic_record(rng, n) * 2.0 ** -rng.choice([30, 40, 60])
        elif kind == 'near-tie':
            v = gen.int_record(rng, n) + np.array([rng.choice([0, 1, -1, 2]) * 2.0 ** -rng.choice([28, 34, 40]) for _ in range(n)])
        elif kind == 'plateau':
            v = gen.plateau_record(rng, n)
        elif kind == 'offset-plateau':
            v = gen.plateau_record(rng, n, levels=(3, 4, 5, 7), p_repeat=0.6)
        elif kind == 'noise':
            v = gen.noise_record(rng, n)
        elif kind == 'int':
            v = gen.int_record(rng, n)
        elif kind == 'dyadic':
            v = gen.dyadic_record(rng, n)
        else:
            v = gen.sine_record(rng, n, 0.01)
        ctx.hist('random/' + kind)
        one(tuple(float(x) for x in v), n <= 200)
        # containers / dtype: a list and (for integer-valued series) an int array give the same indices
        if i % 10 == 0:
            a = np.array(v)
            r0 = pc.get_peak_array_indices(a)
            r1 = pc.get_peak_array_indices(list(a))
            ok = np.array_equal(r0, r1)
            if np.all(a == np.round(a)):
                ok = ok and np.array_equal(r0, pc.get_peak_array_indices(a.astype(int)))
            ctx.oracle('same indices for list / int-dtype input', ok, inputs={'values': v})
    ctx.flush()
    # ---- round 7 (hx_r7b): ulp-extremum series (gen.ulp_extremum_series / _exhaustive): neighbouring samples that differ in the last bits AT turning
    # points, on plateaus and at the ends, at magnitudes 1e-3 .. 1e3 -- every double is a rational: the exact model and the exact clauses apply as they are
    for label, v in gen.ulp_extremum_exhaustive(max_k=4 if ctx.tier == 'quick' else 5, offsets=(-1, 0, 1) if ctx.tier == 'quick' else (-2, -1, 0, 1, 3)):
        ctx.hist(label)
        one(v, True)
    ctx.flush()
    for i in range(250 if ctx.tier == 'quick' else 4000):
        kind, v = gen.ulp_extremum_series(rng, gen.log_int(rng, 4, 60 if i % 10 else 400))
        if len(set(v.tolist())) < 2:
            continue
        ctx.hist('ulp-extremum/' + kind)
        one(tuple(float(x) for x in v), len(v) <= 200)
    ctx.flush()



# ---- extras (round-3 lessons): narrow integer dtypes --------------------------------------------------------------------------------------

def extras(ctx):
    """integer records of any width are series: the indices (all / max / min) and the cycle counter are those of the same numbers held
    as float64, also when differences or products of neighbouring samples would overflow the record's own dtype"""
    from eqsig.fns import peaks_and_crossings as pc
    rng = ctx.rng
    for it in range(30 if ctx.tier == 'quick' else 400):
        n = gen.log_int(rng, 3, 60)
        v = gen.int_record(rng, n) if it % 2 else gen.plateau_record(rng, n)
        if len(set(v.tolist())) < 2:
            continue
        for label, arr, f64 in gen.narrow_int_variants(v):
            ctx.hist('narrow-int/' + label)
            ctx.count_case(('narrow', label, arr.tobytes()), True)
            for nm, call in (('all', lambda x: pc.get_peak_array_indices(x)), ('max', lambda x: pc.get_peak_array_indices(x, ptype='max')),
                             ('min', lambda x: pc.get_peak_array_indices(x, ptype='min')), ('n_cyc', lambda x: pc.get_n_cyc_array(x)),
                             ('n_cyc/peak', lambda x: pc.get_n_cyc_array(x, start='peak'))):
                want, got = call_impl(call, f64), call_impl(call, arr)
                ok = want[0] == got[0] and (want[0] != 'ok' or (np.shape(want[1]) == np.shape(got[1]) and bool(np.all(np.asarray(want[1]) == np.asarray(got[1])))))
                ctx.oracle('C11 integer records of any width give the indices / counter of the same numbers as float64 (%s)' % nm, ok,
                           {'values': arr.tolist(), 'dtype': str(arr.dtype)}, detail={'float64': want[1] if want[0] != 'ok' else np.asarray(want[1]).tolist()[:12],
                                                                                       'integer': got[1] if got[0] != 'ok' else np.asarray(got[1]).tolist()[:12]})


_run_main = run


def run(ctx):
    _run_main(ctx)
    extras(ctx)
    ctx.flush()


# ---- extras2 (harness extension hx_b): wrappers / helpers / options, large instances, exact scaling, containers ---------------------------

def np_spec_peaks(a):
    """the property's own definition of the reported indices, evaluated with NumPy comparisons only (no products, no tolerances), O(n):
    index 0, the first sample of every plateau that is a strict local extremum, the first sample of the final constant run"""
    a = np.asarray(a, dtype=float)
    idx = np.concatenate(([0], np.nonzero(a[1:] != a[:-1])[0] + 1))      # first sample of every plateau
    c = a[idx]
    up = c[1:] > c[:-1]                                                   # direction of every move between plateaus (never flat)
    turn = np.nonzero(up[1:] != up[:-1])[0] + 1
    return np.concatenate(([idx[0]], idx[turn], [idx[-1]])) if len(idx) > 1 else idx[:1]


def np_spec_ptype(a, P):
    """(local maxima, local minima) among the reported indices P; end points classified by the adjacent segment"""
    a = np.asarray(a, dtype=float)
    pv = a[P]
    is_max = np.empty(len(P), dtype=bool)
    is_max[:-1] = pv[:-1] > pv[1:]
    is_max[-1] = pv[-1] > pv[-2]
    return P[is_max], P[~is_max]


def _same(x, y):
    x, y = np.asarray(x), np.asarray(y)
    return x.shape == y.shape and bool(np.all(x == y))


def _large_record(rng, kind, n):
    """(description, record) - seeded from ctx.rng; thousands of turning points"""
    seed = rng.randrange(2 ** 31)
    g = np.random.default_rng(seed)
    if kind == 'int-walk':
        v = g.integers(-3, 4, size=n).astype(float)
    elif kind == 'plateau':
        v = np.repeat(g.integers(-5, 6, size=n // 3 + 1), g.integers(1, 6, size=n // 3 + 1))[:n].astype(float)
        if len(v) < n:
            v = np.concatenate((v, np.full(n - len(v), v[-1])))
    elif kind == 'noise':
        v = g.standard_normal(n)
    elif kind == 'zigzag':      # strictly alternating: every interior sample is a turning point (n - 2 of them) -- used for the source-hinted sizes
        v = (g.integers(1, 4, size=n) * (-1) ** np.arange(n)).astype(float)
    else:   # dyadic multiples of 1/8 with long monotone stretches (few turning points per sample) and flat starts/ends
        steps = g.integers(-2, 3, size=n) * np.repeat(g.choice([-1, 1], size=n // 50 + 1), 50)[:n]
        v = np.cumsum(steps) / 8.0
        v[:7] = v[7]
        v[-5:] = v[-6]
    return {'generator': 'c11._large_record', 'kind': kind, 'n': n, 'numpy_seed': seed}, v


def _light_history(ctx, cls, values, dt):
    """like Ctx.aged but without filling the (expensive) spectral caches: fresh object, or one built on a record of another / the same
    length and reset"""
    rng = ctx.rng
    kind = rng.choice(['fresh', 'reset-other-length', 'reset-same-length', 'reset-shorter'])
    ctx.hist('object-history(light)/' + kind)
    ctx.last_object_history = kind
    values = np.array(values, dtype=float)
    n = len(values)
    if kind == 'fresh':
        return cls(values, dt)
    m = n + rng.randint(1, 9) if kind == 'reset-other-length' else n if kind == 'reset-same-length' else max(2, n - rng.randint(1, max(1, n // 2)))
    s = cls(np.array([rng.uniform(-1, 1) for _ in range(min(m, 50))] * (m // min(m, 50) + 1))[:m], dt)
    s.npts
    s.time
    s.reset_values(values)
    return s


def _x2_wrappers(ctx, cur):
    import eqsig
    from eqsig.fns import peaks_and_crossings as pc
    rng = ctx.rng
    quick = ctx.tier == 'quick'

    # ---- (3) object-level wrapper, deprecated alias, helpers of the anchored mechanism ------------------------------------------------
    for it in range(60 if quick else 600):
        n = gen.log_int(rng, 2, 80)
        kind = rng.choice(['plateau', 'int', 'dyadic', 'noise', 'offset-plateau'])
        v = (gen.plateau_record(rng, n) if kind == 'plateau' else gen.int_record(rng, n) if kind == 'int' else gen.dyadic_record(rng, n)
             if kind == 'dyadic' else gen.noise_record(rng, n) if kind == 'noise' else gen.plateau_record(rng, n, levels=(3, 4, 5, 7), p_repeat=0.6))
        ctx.hist('extras2/wrappers/' + kind)
        ctx.count_case(('x2w', v.tobytes()), gen.nontrivial_record(v))
        inputs = {'values': v.tolist()}
        cur.clear()
        cur.update(inputs)
        # clean_out_non_changing: every sample that differs from its predecessor (and sample 0) survives, nothing else; values are those samples
        rc = call_impl(pc.clean_out_non_changing, v.copy())
        want_idx = sorted({0} | {i for i in range(1, n) if v[i] != v[i - 1]})
        ok = rc[0] == 'ok' and len(rc[1]) == 2
        if ok:
            cv, ci = np.asarray(rc[1][0]), np.asarray(rc[1][1])
            ok = (bool(np.all(np.diff(ci) >= 0)) and sorted(set(int(i) for i in ci)) == want_idx and len(cv) == len(ci)
                  and bool(np.all(cv == v[ci])))
        ctx.oracle('C11 clean_out_non_changing: indices ascending, their set == {0} + {i : v[i] != v[i-1]}, cleaned values == v[indices]', ok, inputs,
                   detail=None if rc[0] != 'ok' else {'indices': np.asarray(rc[1][1]).tolist()[:20], 'want': want_idx[:20]})
        if len(set(v.tolist())) < 2:
            continue
        ref = pc.get_peak_array_indices(v)
        # object-level wrapper on objects with a history
        dt = gen.any_dt(rng)
        asig = ctx.aged(eqsig.AccSignal, v, dt) if it % 4 == 0 else _light_history(ctx, eqsig.AccSignal, v, dt)
        _PRE.before(ctx, _PRE.pc_entries, v, inputs, share=_PRE_SHARE)      # round 7: the array-level functions asked first, with options, on the same content
        rw = call_impl(pc.get_peak_indices, asig)
        ctx.oracle('C11 get_peak_indices(asig) == get_peak_array_indices(asig.values) == the turning points of the record', rw[0] == 'ok' and
                   _same(rw[1], ref) and _same(rw[1], np_spec_peaks(v)), {**inputs, 'dt': dt}, detail={'wrapper': rw[1], 'array-level': ref})
        ctx.oracle('C11 get_peak_indices leaves the record of the object unchanged', _same(asig.values, v), {**inputs, 'dt': dt})
        ctx.last_object_history = None
        sig = eqsig.Signal(v, dt)
        rw = call_impl(pc.get_peak_indices, sig)
        ctx.oracle('C11 get_peak_indices(Signal) == get_peak_array_indices(values)', rw[0] == 'ok' and _same(rw[1], ref), {**inputs, 'dt': dt})
        # the cleaned-array helper and its deprecated alias: on a series without adjacent repeats it IS the peak finder
        cleaned = v[np.concatenate(([True], v[1:] != v[:-1]))]
        if len(cleaned) >= 2:
            r1 = call_impl(pc.determine_indices_of_peaks_for_cleaned_array, cleaned.copy())
            r2 = call_impl(pc.determine_indices_of_peaks_for_cleaned, cleaned.copy())
            want = np_spec_peaks(cleaned)
            ctx.oracle('C11 determine_indices_of_peaks_for_cleaned_array(series without adjacent repeats) == its turning points == get_peak_array_indices',
                       r1[0] == 'ok' and _same(r1[1], want) and _same(r1[1], pc.get_peak_array_indices(cleaned)), {'values': cleaned.tolist()},
                       detail={'got': r1[1], 'want': want})
            ctx.oracle('C11 deprecated alias determine_indices_of_peaks_for_cleaned == determine_indices_of_peaks_for_cleaned_array',
                       r1[0] == r2[0] and (r1[0] != 'ok' or _same(r1[1], r2[1])), {'values': cleaned.tolist()}, detail={'alias': r2[1], 'main': r1[1]})
        # ---- options of the cycle counter: opt='switched' numbers the switched peaks; unknown option values are rejected
        for start in ('origin', 'peak'):
            _PRE.before(ctx, _PRE.pc_entries, v, inputs, share=_PRE_SHARE)
            rs = call_impl(pc.get_n_cyc_array, v, opt='switched', start=start)
            _PRE.before(ctx, _PRE.pc_entries, v, inputs, share=_PRE_SHARE)
            S = [int(s) for s in pc.get_switched_peak_array_indices(v)]
            if S[0] != 0:
                S = [0] + S
            ok = rs[0] == 'ok' and len(rs[1]) == n
            if ok:
                f = [fr(x) for x in rs[1]]
                off = Fraction(-1, 4) if start == 'origin' else Fraction(0)
                ok = (all(b >= a for a, b in zip(f, f[1:])) and all(f[s] == Fraction(t, 2) + (off if t else 0) for t, s in enumerate(S))
                      and all(x == f[S[-1]] for x in f[S[-1]:]))
            ctx.oracle("C11.e cycle counter with opt='switched': series length, non-decreasing, +0.5 between consecutive switched peaks "
                       "(0.25 up to the first one from the origin)", ok, {**inputs, 'start': start}, detail={'switched (with 0)': S[:20], 'got': rs[1]})
        if it % 6 == 0:
            r = call_impl(pc.get_n_cyc_array, v, opt=rng.choice(['al', 'ALL', 'max', '']))
            ctx.oracle("C11.e get_n_cyc_array rejects an unknown opt with ValueError", r == ('err', 'ValueError'), inputs, detail=r)
            r = call_impl(pc.get_n_cyc_array, v, start=rng.choice(['Origin', 'peaks', 'zero', '']))
            ctx.oracle("C11.e get_n_cyc_array rejects an unknown start with ValueError", r == ('err', 'ValueError'), inputs, detail=r)
        # ---- (4) containers and dtypes
        if it % 2 == 0:
            refs = {'all': ref, 'max': pc.get_peak_array_indices(v, ptype='max'), 'min': pc.get_peak_array_indices(v, ptype='min'),
                    'n_cyc': pc.get_n_cyc_array(v), 'n_cyc/peak': pc.get_n_cyc_array(v, start='peak'), 'n_cyc/switched': pc.get_n_cyc_array(v, opt='switched')}
            for lab, c in gen.container_variants(v):
                ctx.hist('extras2/container/' + lab)
                got = {'all': call_impl(pc.get_peak_array_indices, c), 'max': call_impl(pc.get_peak_array_indices, c, ptype='max'),
                       'min': call_impl(pc.get_peak_array_indices, c, ptype='min'), 'n_cyc': call_impl(pc.get_n_cyc_array, c),
                       'n_cyc/peak': call_impl(pc.get_n_cyc_array, c, start='peak'), 'n_cyc/switched': call_impl(pc.get_n_cyc_array, c, opt='switched')}
                for nm in refs:
                    ctx.oracle('C11 the indices / cycle counter do not depend on the container or dtype holding the series (%s)' % nm,
                               got[nm][0] == 'ok' and _same(got[nm][1], refs[nm]), {**inputs, 'container': lab},
                               detail={'got': got[nm][1], 'float64 ndarray': refs[nm]})


def _x2_scale(ctx, cur):
    import eqsig
    from eqsig.fns import peaks_and_crossings as pc
    rng = ctx.rng
    quick = ctx.tier == 'quick'

    # ---- (2) exact scale invariance: indices and counter are homogeneous of degree 0 (products of neighbouring differences stay inside the
    # normal range for 2^-400 on multiples of 1/8 and overflow to +-inf with the right sign for 2^+500; 2^-600 is the documented underflow
    # limitation and not demanded)
    for it in range(20 if quick else 200):
        n = gen.log_int(rng, 3, 200)
        v = gen.dyadic_record(rng, n) if it % 2 else gen.plateau_record(rng, n)
        if len(set(v.tolist())) < 2:
            continue
        cur.clear()
        cur.update({'values': v.tolist()})
        base = [pc.get_peak_array_indices(v), pc.get_peak_array_indices(v, ptype='max'), pc.get_peak_array_indices(v, ptype='min'),
                pc.get_n_cyc_array(v), pc.get_n_cyc_array(v, start='peak')]
        for k in (-400, 500, -200, 900):
            w = v * 2.0 ** k
            ctx.hist('extras2/scale/2^%d' % k)
            ctx.count_case(('x2s', k, v.tobytes()), True)
            with np.errstate(all='ignore'):
                got = [call_impl(pc.get_peak_array_indices, w), call_impl(pc.get_peak_array_indices, w, ptype='max'),
                       call_impl(pc.get_peak_array_indices, w, ptype='min'), call_impl(pc.get_n_cyc_array, w), call_impl(pc.get_n_cyc_array, w, start='peak')]
            for nm, b, g in zip(('all', 'max', 'min', 'n_cyc', 'n_cyc/peak'), base, got):
                ctx.oracle('C11 indices and cycle counter are unchanged when the series is scaled by a power of two (%s)' % nm,
                           g[0] == 'ok' and _same(g[1], b), {'values': v.tolist(), 'scale': '2**%d' % k}, detail={'scaled': g[1], 'base': b})


def _x2_large(ctx, cur):
    import eqsig
    from eqsig.fns import peaks_and_crossings as pc
    rng = ctx.rng
    quick = ctx.tier == 'quick'

    # ---- (1) large instances: thousands of turning points; the property's definition in O(n) with NumPy, decomposition at a reported
    # index, selections, counter at the reported indices, object wrapper, integer containers
    sizes = [(rng.choice(['int-walk', 'plateau']), rng.choice([5000, 8192, 12000])), ('noise', rng.choice([20000, 32768, 60000])),
             ('monotone-stretches', rng.choice([10000, 16384, 50000]))]
    if not quick:
        sizes += [(k, m) for k in ('int-walk', 'plateau', 'noise', 'monotone-stretches') for m in (4096, 5001, 65536, 100000)]
    # source hints: numbers of samples / of turning points around every new integer constant of eqsig/fns/peaks_and_crossings.py
    hs = gen.hint_sizes(ctx, lo=9, hi=1000000, cap=6, halves=True)
    sizes += [(k, m) for m in hs for k in ('int-walk', 'noise') if m > 600] + [('zigzag', m + d) for m in hs for d in (0, 2, 3)]
    for kind, n in sizes:
        desc, v = _large_record(rng, kind, n)
        cur.clear()
        cur.update(desc)
        ctx.hist('extras2/large/' + kind)
        ctx.count_case(('x2l', kind, n, desc['numpy_seed']), True, sample=desc)
        want = np_spec_peaks(v)
        r = call_impl(pc.get_peak_array_indices, v)
        ok = r[0] == 'ok' and _same(r[1], want)
        bad_at = None
        if r[0] == 'ok' and not ok:
            g = np.asarray(r[1])
            m = min(len(g), len(want))
            d = np.nonzero(g[:m] != want[:m])[0]
            bad_at = {'first differing position': int(d[0]) if len(d) else m, 'got': g[max(0, (int(d[0]) if len(d) else m) - 2):][:6],
                      'want': want[max(0, (int(d[0]) if len(d) else m) - 2):][:6], 'len got': len(g), 'len want': len(want)}
        ctx.oracle('C11.a-c (large) reported indices == {0, every turning point, first sample of the final constant run}', ok, desc,
                   detail=bad_at if r[0] == 'ok' else r, facts={'turning_points': int(len(want))})
        if r[0] != 'ok':
            continue
        P = np.asarray(r[1])
        wmax, wmin = np_spec_ptype(v, want)
        for nm, w in (('max', wmax), ('min', wmin)):
            rr = call_impl(pc.get_peak_array_indices, v, ptype=nm)
            ctx.oracle("C11.d (large) '%s' selection == the reported local %s" % (nm, 'maxima' if nm == 'max' else 'minima'),
                       rr[0] == 'ok' and _same(rr[1], w), desc, detail={'got_head': np.asarray(rr[1])[:8] if rr[0] == 'ok' else rr, 'want_head': w[:8]})
        # decomposition at a reported index p: peaks(v) == peaks(v[:p+1]) + (p + peaks(v[p:]))
        if len(P) > 4:
            p = int(P[rng.randrange(1, len(P) - 1)])
            left, right = pc.get_peak_array_indices(v[:p + 1]), pc.get_peak_array_indices(v[p:])
            ctx.oracle('C11 (large) whole == parts: splitting the series at a reported index gives the same indices on both sides',
                       _same(np.concatenate((left, right[1:] + p)), P), {**desc, 'split_at': p})
        for start, off in (('origin', -0.25), ('peak', 0.0)):
            rn = call_impl(pc.get_n_cyc_array, v, start=start)
            ok = rn[0] == 'ok' and len(rn[1]) == n
            if ok:
                nc = np.asarray(rn[1])
                wantp = 0.5 * np.arange(len(want))
                wantp[1:] += off
                ok = bool(np.all(np.diff(nc) >= 0)) and bool(np.all(nc[want] == wantp)) and bool(np.all(nc[want[-1]:] == wantp[-1]))
            ctx.oracle('C11.e (large) cycle counter: series length, non-decreasing, k/2 (%+.2f) at the k-th reported index, constant after the last' % off,
                       ok, {**desc, 'start': start})
        asig = _light_history(ctx, eqsig.AccSignal, v, 0.01)
        ctx.oracle('C11 (large) get_peak_indices(asig) == get_peak_array_indices(values)', _same(pc.get_peak_indices(asig), P), desc)
        ctx.last_object_history = None
        for lab, c in gen.container_variants(v, arrays_only=True):
            ctx.oracle('C11 (large) indices do not depend on the dtype / memory layout of the series', _same(pc.get_peak_array_indices(c), P),
                       {**desc, 'container': lab})
        with np.errstate(all='ignore'):
            for k in (-400, 500) if kind != 'noise' else (-100, 400):
                ctx.oracle('C11 (large) indices unchanged when the series is scaled by a power of two', _same(pc.get_peak_array_indices(v * 2.0 ** k), P),
                           {**desc, 'scale': '2**%d' % k})


def extras2(ctx):
    from _hxb_common import guarded_sections
    guarded_sections(ctx, 'C11', [('wrappers', _x2_wrappers), ('scale', _x2_scale), ('large', _x2_large)])


_run_main2 = run


def run(ctx):
    _run_main2(ctx)
    extras2(ctx)
    ctx.flush()

# ---- round-5 lesson: results depend on the content of the array, not on the identity of the array object ---------------------------------

def extras_refill(ctx):
    from eqsig.fns import peaks_and_crossings as pc
    gen.refill_oracle(ctx, 'C11 the same ndarray object changed in place and analysed again gives the indices / counter of its CURRENT content (%s)',
                      {'get_peak_array_indices': pc.get_peak_array_indices, 'ptype=max': lambda x: pc.get_peak_array_indices(x, ptype='max'),
                       'ptype=min': lambda x: pc.get_peak_array_indices(x, ptype='min'), 'get_n_cyc_array': pc.get_n_cyc_array},
                      ctx.rng, lambda rng: gen.int_record(rng, 24, -5, 5), n_rep=4 if ctx.tier == 'quick' else 40)


_run_main_rf = run


def run(ctx):
    _run_main_rf(ctx)
    extras_refill(ctx)
    ctx.flush()


# evidence: how the model is tied to the source on every run (as built, supersedes the value above)
TIE = 'translator (fns/peaks_and_crossings.py -> Gen/PeaksFns; Props/C11Gen, all series and arguments) + correspondence (exhaustive over small alphabets, exact)'


# ---- round 9 (hx_r9b): reduced-precision floating records (float16 / float32) whose neighbouring differences underflow when multiplied -----
def extras_lowprec(ctx):
    """the property quantifies over every series: a float16 / float32 ndarray holds real numbers like any other container, and the result
    must be the one of the float64 image of the same numbers (the pinned library converts to float64 first)."""
    from eqsig.fns import peaks_and_crossings as pc
    rng = ctx.rng
    calls = [('all', lambda x: pc.get_peak_array_indices(x)), ('max', lambda x: pc.get_peak_array_indices(x, ptype='max')),
             ('min', lambda x: pc.get_peak_array_indices(x, ptype='min')), ('n_cyc', lambda x: pc.get_n_cyc_array(x)),
             ('n_cyc/peak', lambda x: pc.get_n_cyc_array(x, start='peak'))]
    # opt='switched' is NOT demanded here: get_switched_peak_array_indices of the pinned tree evaluates `adj_val * last <= 0` on the values in their
    # own dtype, the product of two tiny peaks underflows to 0 and a switch is reported between peaks of the same sign (see NOTES hx_r9b, suspected defect)
    for it in range(6 if ctx.tier == 'quick' else 60):
        n = rng.choice([5, 9, 16, 33])
        v = gen.int_record(rng, n, -3, 3) if it % 2 == 0 else np.asarray(gen.plateau_record(rng, n), dtype=float)
        if len(set(v.tolist())) < 2:
            v[-1] = v[0] + 1
        for lab, lo, f64 in gen.low_precision_tiny(v):
            ctx.hist('lowprec/' + lab)
            snap = lo.copy()
            spec = np_spec_peaks(f64)
            for nm, call in calls:
                ref, g = call(f64), call_impl(call, lo)
                ctx.oracle('C11 the indices / cycle counter of a float16 / float32 ndarray are those of the same numbers held in float64 (%s)' % nm,
                           g[0] == 'ok' and _same(g[1], ref), {'values': lo, 'dtype': str(lo.dtype), 'container': lab},
                           detail={'got': g[1], 'float64 ndarray': ref})
                if nm == 'all':
                    ctx.oracle('C11.a every turning point is reported and nothing else (float16 / float32 ndarray)', g[0] == 'ok' and _same(g[1], spec),
                               {'values': lo, 'dtype': str(lo.dtype), 'container': lab}, detail={'got': g[1], 'turning points': spec})
            ctx.oracle('C11 input array unchanged (values and dtype)', lo.dtype == snap.dtype and np.array_equal(lo, snap), {'values': snap, 'container': lab})


_run_main_lp = run


def run(ctx):
    _run_main_lp(ctx)
    extras_lowprec(ctx)
    ctx.flush()
