"""C11 — local-peak detection is sound and complete on every series."""
import itertools
from fractions import Fraction

import numpy as np

import gen
from core import fr, w_rats, w_bool, p_ints, p_rats, cmp_exact, cmp_budget, call_impl

RULE = ("exhaustive: every sequence over the 5-level alphabet {-2,-1,0,1,2} up to length 6 (quick, plus the 3-level alphabet up to length 8) / 8 (thorough, plus 3- and "
        "7-level alphabets); random real-valued and plateau-rich series up to length 5000; ptype in {all,max,min}; "
        "get_n_cyc_array opt=all, start in {origin, peak}; float/int dtype and lists. All outputs are indices or exact "
        "half-integers: compared exactly. distinct = hash of the series; non-trivial = length >= 3 and not constant")
TIE = "correspondence (hand model Model/Peaks.lean; exhaustive over small alphabets)"
NOT_PROVED = ["sign of the product d[i]*d[i+1] when it underflows in binary64 (|d| < 1e-150 is not generated)"]
EXHAUSTIVE = True


def spec_peaks(v, P):
    """C11.a-c evaluated on an index list P for the series v (exact comparisons). Returns None or the violated clause."""
    n = len(v)
    P = [int(p) for p in P]
    if any(b <= a for a, b in zip(P, P[1:])):
        return 'strictly ascending'
    if not P or P[0] != 0:
        return 'begins at index 0'
    # first index of the final constant run
    k = n - 1
    while k > 0 and v[k - 1] == v[k]:
        k -= 1
    if P[-1] != k:
        return 'ends at the first sample of the final constant run'
    prev_dir = 0
    for p, q in zip(P, P[1:]):
        seg = v[p:q + 1]
        up = all(a <= b for a, b in zip(seg, seg[1:]))
        down = all(a >= b for a, b in zip(seg, seg[1:]))
        if v[p] == v[q] or not (up or down):
            return 'monotone between consecutive reported indices (with different end values)'
        d = 1 if v[q] > v[p] else -1
        if prev_dir != 0 and d != -prev_dir:
            return 'direction strictly alternates'
        prev_dir = d
    # completeness: every turning point (first sample of a plateau that is a strict local extremum) is reported
    want = {0, k}
    i = 1
    while i < n:
        if v[i] != v[i - 1]:
            j = i
            while j + 1 < n and v[j + 1] == v[i]:
                j += 1
            if j + 1 < n:
                left, right = v[i - 1], v[j + 1]
                if (v[i] > left and v[i] > right) or (v[i] < left and v[i] < right):
                    want.add(i)
            i = j + 1
        else:
            i += 1
    if set(P) != want:
        return 'reports every turning point and nothing else'
    return None


def spec_ptype(v, P, pmax, pmin):
    """C11.d: max/min selections are exactly the reported indices that are local maxima / minima
    (end points classified by the adjacent segment)."""
    P = [int(p) for p in P]
    wmax, wmin = [], []
    for t, p in enumerate(P):
        if t + 1 < len(P):
            is_max = v[p] > v[P[t + 1]]
        else:
            is_max = v[p] > v[P[t - 1]]
        (wmax if is_max else wmin).append(p)
    if [int(x) for x in pmax] != wmax:
        return "'max' selection == reported local maxima"
    if [int(x) for x in pmin] != wmin:
        return "'min' selection == reported local minima"
    return None


def spec_ncyc(v, P, nc, origin):
    n = len(v)
    P = [int(p) for p in P]
    if len(nc) != n:
        return 'cycle counter has the series length'
    f = [fr(x) for x in nc]
    if any(b < a for a, b in zip(f, f[1:])):
        return 'cycle counter non-decreasing'
    off = Fraction(-1, 4) if origin else Fraction(0)
    for t, p in enumerate(P):
        want = Fraction(t, 2) + (off if t >= 1 else 0)
        if f[p] != want:
            return 'cycle counter increases by 0.5 between reported peaks (0.25 to the first from the origin)'
    if any(x != f[P[-1]] for x in f[P[-1]:]):
        return 'cycle counter constant after the last peak'
    return None


def ncyc_cmp(ctx, val, model):
    # values between peaks are np.interp results (thirds etc.): rounding budget; at the peaks the oracle demands exactness
    msg, g = cmp_budget(list(val), model, Fraction(1, 10**12), abs_floor=Fraction(1, 10**15))
    ctx.gap('get_n_cyc_array', g)
    return msg


def all_sequences(levels, maxlen):
    for n in range(2, maxlen + 1):
        for t in itertools.product(levels, repeat=n):
            yield t


def run(ctx):
    from eqsig.fns import peaks_and_crossings as pc
    rng = ctx.rng
    if ctx.tier == 'quick':
        spaces = [((-2, -1, 0, 1, 2), 6), ((-1, 0, 1), 8)]
        n_random = 400
        maxlen_r = 600
    else:
        spaces = [((-2, -1, 0, 1, 2), 8), ((-1, 0, 1), 10), ((-3, -2, -1, 0, 1, 2, 3), 6)]
        n_random = 4000
        maxlen_r = 5000
    corpus = [(1, 1, 2, 1), (5, 1, 3, -1), (0, 2, 1, 2, -1, 1, 1, 0.3, -1, 0.2, 1, 0.2), (0, 0, 1, 1, 0, 0), (3, 3, 3, 1),
              (1, 2, 2, 2, 3, 1, 1), (0, 1), (2, 2, 1, 1, 2, 2)]

    def one(v, full):
        arr = np.array(v, dtype=float)
        nonconst = len(set(v)) > 1
        ctx.count_case(tuple(v), len(v) >= 3 and nonconst,
                       sample={'fn': 'get_peak_array_indices', 'values': list(v)} if ctx.evaluations % 20011 == 0 else None)
        res = call_impl(pc.get_peak_array_indices, arr)
        ctx.corr('get_peak_array_indices', f"peaks|{w_rats(v)}", res,
                 lambda outs, val: cmp_exact([int(x) for x in val], p_ints(outs[0])), inputs={'values': list(v)})
        if not nonconst or res[0] != 'ok':
            return
        P = res[1]
        vv = [fr(x) for x in v]
        bad = spec_peaks(vv, P)
        ctx.oracle('C11.a-c ' + (bad or 'peaks shape/segments/completeness'), bad is None, inputs={'values': list(v)},
                   detail={'reported': P})
        rmax = call_impl(pc.get_peak_array_indices, arr, ptype='max')
        rmin = call_impl(pc.get_peak_array_indices, arr, ptype='min')
        ctx.corr('get_peak_array_indices[max]', f"peaks_max|{w_rats(v)}", rmax,
                 lambda outs, val: cmp_exact([int(x) for x in val], p_ints(outs[0])), inputs={'values': list(v), 'ptype': 'max'})
        ctx.corr('get_peak_array_indices[min]', f"peaks_min|{w_rats(v)}", rmin,
                 lambda outs, val: cmp_exact([int(x) for x in val], p_ints(outs[0])), inputs={'values': list(v), 'ptype': 'min'})
        if rmax[0] == 'ok' and rmin[0] == 'ok' and bad is None:
            b2 = spec_ptype(vv, P, rmax[1], rmin[1])
            ctx.oracle('C11.d ' + (b2 or 'ptype selections'), b2 is None, inputs={'values': list(v)},
                       detail={'all': P, 'max': rmax[1], 'min': rmin[1]},
                       facts={'flat_start': bool(v[0] == v[1])})
        if full:
            for origin in (True, False):
                rn = call_impl(pc.get_n_cyc_array, arr, opt='all', start='origin' if origin else 'peak')
                ctx.corr('get_n_cyc_array', f"ncyc|{w_bool(origin)}|{w_rats(v)}", rn,
                         lambda outs, val: ncyc_cmp(ctx, val, p_rats(outs[0])), inputs={'values': list(v), 'origin': origin})
                if rn[0] == 'ok' and bad is None:
                    b3 = spec_ncyc(vv, P, rn[1], origin)
                    ctx.oracle('C11.e ' + (b3 or 'cycle counter'), b3 is None, inputs={'values': list(v), 'origin': origin})
                elif rn[0] != 'ok' and bad is None and len(set(v)) > 1:
                    ctx.oracle("C11.e the cycle counter is returned for every non-constant series (start='%s')" % ('origin' if origin else 'peak'), False,
                               inputs={'values': list(v), 'origin': origin}, detail=rn)

    for v in corpus:
        ctx.hist('corpus')
        one(v, True)
    for levels, maxlen in spaces:
        for v in all_sequences(levels, maxlen):
            ctx.hist(f'exhaustive/{len(levels)}-level/len={len(v)}')
            one(v, len(v) <= 5)
        ctx.flush()
    for i in range(n_random):
        n = gen.log_int(rng, 2, maxlen_r)
        kind = rng.choice(['plateau', 'noise', 'int', 'dyadic', 'sine', 'offset-plateau', 'tiny-scale', 'near-tie'])
        if kind == 'tiny-scale':
            # steps far below any absolute tolerance are still steps (exact power-of-two scaling of a dyadic record)
            v = gen.dyadic_record(rng, n) * 2.0 ** -rng.choice([30, 40, 60])
        elif kind == 'near-tie':
            v = gen.int_record(rng, n) + np.array([rng.choice([0, 1, -1, 2]) * 2.0 ** -rng.choice([28, 34, 40]) for _ in range(n)])
        elif kind == 'plateau':
            v = gen.plateau_record(rng, n)
        elif kind == 'offset-plateau':
            v = gen.plateau_record(rng, n, levels=(3, 4, 5, 7), p_repeat=0.6)
        elif kind == 'noise':
            v = gen.noise_record(rng, n)
        elif kind == 'int':
            v = gen.int_record(rng, n)
        elif kind == 'dyadic':
            v = gen.dyadic_record(rng, n)
        else:
            v = gen.sine_record(rng, n, 0.01)
        ctx.hist('random/' + kind)
        one(tuple(float(x) for x in v), n <= 200)
        # containers / dtype: a list and (for integer-valued series) an int array give the same indices
        if i % 10 == 0:
            a = np.array(v)
            r0 = pc.get_peak_array_indices(a)
            r1 = pc.get_peak_array_indices(list(a))
            ok = np.array_equal(r0, r1)
            if np.all(a == np.round(a)):
                ok = ok and np.array_equal(r0, pc.get_peak_array_indices(a.astype(int)))
            ctx.oracle('same indices for list / int-dtype input', ok, inputs={'values': v})
    ctx.flush()



# ---- extras (round-3 lessons): narrow integer dtypes --------------------------------------------------------------------------------------

def extras(ctx):
    """integer records of any width are series: the indices (all / max / min) and the cycle counter are those of the same numbers held
    as float64, also when differences or products of neighbouring samples would overflow the record's own dtype"""
    from eqsig.fns import peaks_and_crossings as pc
    rng = ctx.rng
    for it in range(30 if ctx.tier == 'quick' else 400):
        n = gen.log_int(rng, 3, 60)
        v = gen.int_record(rng, n) if it % 2 else gen.plateau_record(rng, n)
        if len(set(v.tolist())) < 2:
            continue
        for label, arr, f64 in gen.narrow_int_variants(v):
            ctx.hist('narrow-int/' + label)
            ctx.count_case(('narrow', label, arr.tobytes()), True)
            for nm, call in (('all', lambda x: pc.get_peak_array_indices(x)), ('max', lambda x: pc.get_peak_array_indices(x, ptype='max')),
                             ('min', lambda x: pc.get_peak_array_indices(x, ptype='min')), ('n_cyc', lambda x: pc.get_n_cyc_array(x)),
                             ('n_cyc/peak', lambda x: pc.get_n_cyc_array(x, start='peak'))):
                want, got = call_impl(call, f64), call_impl(call, arr)
                ok = want[0] == got[0] and (want[0] != 'ok' or (np.shape(want[1]) == np.shape(got[1]) and bool(np.all(np.asarray(want[1]) == np.asarray(got[1])))))
                ctx.oracle('C11 integer records of any width give the indices / counter of the same numbers as float64 (%s)' % nm, ok,
                           {'values': arr.tolist(), 'dtype': str(arr.dtype)}, detail={'float64': want[1] if want[0] != 'ok' else np.asarray(want[1]).tolist()[:12],
                                                                                       'integer': got[1] if got[0] != 'ok' else np.asarray(got[1]).tolist()[:12]})


_run_main = run


def run(ctx):
    _run_main(ctx)
    extras(ctx)
    ctx.flush()
