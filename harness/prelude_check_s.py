"""PRELUDE (part S) — differential test of the round-7 prelude combinators (DESIGN §3.2, §11.1).

The combinators added by the round-7 deliveries

* `lean/EqsigVerif/Prelude/NpS.lean`  (tw_single2: possibly non-finite floats, `int(.)`, optional-bound slices, in-place updates, ...),
* `lean/EqsigVerif/Prelude/NpT.lean`  (tw_spec2: `l[k]`, `np.maximum.accumulate`, `np.trapezoid(axis=0)`, `base[i:] += v`),
* `lean/EqsigVerif/Prelude/NpV.lean`  (tw_single3: `np.linspace`, `np.isclose`, `calc_peak`, SciPy's empty-input check, attribute lookup),
* `lean/EqsigVerif/Model/Butter.lean` (lw_butter: the SciPy-internal stages `buttap`, `lp2lp_zpk`, `lp2hp_zpk`, `lp2bp_zpk`, `bilinear_zpk`,
  `zpk2tf`, `np.poly`, ... — the `Float` twin, relative budget 1e-12),
* `lean/EqsigVerif/Model/CavDpFloat.lean` (lw_small: binary64 rounding `roundQ`, the float `np.arange` of `calc_cav_dp`, exact),
* `lean/EqsigVerif/Prelude/NpU.lean` (fx_f123: `np.unique`; OPTIONAL — only when the driver has the handlers `np.u.*`)

are exposed unchanged by `lean/EqsigVerif/Handlers/PreludeS.lean` (handlers `np.s.*`).  `run_prelude_s(ctx)` evaluates the *real*
NumPy / SciPy / Python expression named in each definition's doc comment and the driver handler on the same inputs.  Exact combinators are
compared exactly on small dyadic rationals (every float operation involved is exact); the `Float` twins of the SciPy stages within a
relative budget of 1e-12 (scale = the largest magnitude of the compared array); the binary64 model of `CavDpFloat` bit for bit.

Inputs per combinator: empty, length 1, ties, negative indices / bounds beyond the ends, `None` bounds, zero divisors, non-finite operands,
each documented option value, random dyadic arrays: >= 40 requests each.  Error kinds are compared exactly where the model claims them.
The model's TAG `ZeroDivisionError` for "a non-finite value is written into the record" (NumPy itself does not raise) is compared with
"the real result contains a non-finite entry".  Inputs outside a definition's stated domain are never generated (the handlers answer
`bad|... outside the modelled domain`).

KNOWN DISAGREEMENTS (see NOTES.md of hw_prelude2 / docs/translator/prelude_nps_npt_npv.md): the regions where a combinator is NOT the
library behaviour are excluded from the generators above and listed in `KNOWN_DISAGREEMENTS`; every run re-evaluates the witnesses and
records them under `ctx.hist('PRELUDE-known-disagreement/<handler>')`; a witness that no longer disagrees (combinator repaired or library
changed) is reported in `ctx.notes`, so that the exclusion can be removed.

Bookkeeping rules of `prelude_check.run_prelude`: `ctx.hist('PRELUDE/<handler>')`, correspondence label `'PRELUDE <handler>'`,
`ctx.count_case` is NOT called, the generator is derived from `ctx.rng` without advancing it (a stream of its own), a handler the driver
does not know yet is skipped with a note.
"""
import math
import random
import time
from fractions import Fraction

import numpy as np

import core
from core import fr, w_rat, w_rats, w_bool, w_float, w_floats, p_rats, p_ints, p_floats, cmp_exact, call_impl
from prelude_check import N_RANDOM, dy, arr, sizes, flat, c_rats, missing_handlers

REL = 1e-12            # relative budget of the Float twins of the SciPy stages
NAN, INF = float('nan'), float('inf')


# ------------------------------------------------------------------------------------------------
# wire / compare helpers
# ------------------------------------------------------------------------------------------------

def finite(x):
    return math.isfinite(float(x))


def w_fl(x):
    """a possibly non-finite float: `None` for nan / +-inf"""
    return w_rat(x) if finite(x) else 'None'


def w_fls(xs):
    return ' '.join(w_fl(x) for x in xs)


def w_opt_int(b):
    """an optional slice bound: empty argument = None"""
    return '' if b is None else str(int(b))


def call_other(f, *a, other=(), **k):
    """call_impl, with the exception types named in `other` (and only those) mapped to the model's `ErrKind.Other`"""
    res = call_impl(f, *a, **k)
    if res[0] == 'err' and res[1].startswith('Other:') and res[1][len('Other:'):] in other:
        return ('err', 'Other')
    return res


def tag_nonfinite(res):
    """the model's tag: a result with a non-finite entry is `err|ZeroDivisionError`"""
    if res[0] == 'ok' and not all(finite(x) for x in flat(res[1])):
        return ('err', 'ZeroDivisionError')
    return res


def c_fls(outs, val):
    """list of possibly non-finite floats: `None` <-> nan/inf, otherwise exact"""
    v = flat(val)
    toks = outs[0] if outs else []
    if len(v) != len(toks):
        return f"length impl={len(v)} model={len(toks)}"
    for i, (a, t) in enumerate(zip(v, toks)):
        if t == 'None':
            if finite(a):
                return f"[{i}] impl={float(a)!r} model=None"
        elif not finite(a) or fr(a) != p_rats([t])[0]:
            return f"[{i}] impl={float(a)!r} model={t}"
    return None


def c_fl_rounded(outs, val):
    """one possibly non-finite float that is ONE correctly rounded division of exact operands: `None` <-> nan/inf, otherwise float(q) == impl"""
    t = outs[0][0]
    if t == 'None':
        return None if not finite(val) else f"impl={float(val)!r} model=None"
    q = p_rats([t])[0]
    if not finite(val) or float(val) != q.numerator / q.denominator:
        return f"impl={float(val)!r} model={t}"
    return None


def c_scalar(outs, val):
    return cmp_exact([val], p_rats(outs[0]))


def c_index(outs, val):
    return cmp_exact([int(val)], p_ints(outs[0]))


def c_unit(outs, val):
    return None if outs in ([], [[]]) else f"model={outs!r}"


def c_bool(outs, val):
    return None if outs[0] == [w_bool(bool(val))] else f"impl={bool(val)} model={outs[0]}"


def c_two(outs, val):
    for k in range(2):
        m = cmp_exact(flat(val[k]), p_rats(outs[k]))
        if m is not None:
            return f"out{k}: {m}"
    return None


def _close(a, b, tol):
    """a, b floats (possibly non-finite): the same non-finite class, or |a-b| <= tol"""
    a, b = float(a), float(b)
    if math.isnan(a) or math.isnan(b):
        return math.isnan(a) and math.isnan(b)
    if math.isinf(a) or math.isinf(b):
        return a == b
    return abs(a - b) <= tol


def cmp_floats(impl, model, rel=REL, scale=None):
    impl = [float(x) for x in impl]
    if len(impl) != len(model):
        return f"length impl={len(impl)} model={len(model)}"
    fin = [abs(x) for x in impl + list(model) if math.isfinite(x)]
    sc = scale if scale is not None else (max(fin) if fin else 0.0)
    for i, (a, b) in enumerate(zip(impl, model)):
        if not _close(a, b, rel * sc):
            return f"[{i}] impl={a!r} model={b!r} tol={rel * sc:.3e}"
    return None


def cmp_cx(impl, re, im, rel=REL, scale=None):
    """complex arrays; an entry with a non-finite part matches any entry with a non-finite part"""
    impl = [complex(x) for x in np.asarray(impl).ravel()]
    if not (len(impl) == len(re) == len(im)):
        return f"length impl={len(impl)} model={len(re)}/{len(im)}"
    mod = [complex(a, b) for a, b in zip(re, im)]

    def fin(z):
        return math.isfinite(z.real) and math.isfinite(z.imag)
    mags = [abs(z) for z in impl + mod if fin(z)]
    sc = scale if scale is not None else (max(mags) if mags else 0.0)
    for i, (a, b) in enumerate(zip(impl, mod)):
        if fin(a) != fin(b) or (fin(a) and abs(a - b) > rel * sc):
            return f"[{i}] impl={a!r} model={b!r} tol={rel * sc:.3e}"
    return None


def w_cx(zs):
    zs = [complex(z) for z in np.asarray(zs).ravel()]
    return [w_floats([z.real for z in zs]), w_floats([z.imag for z in zs])]


def w_zpk(z, p, k):
    return w_cx(z) + w_cx(p) + [w_float(k)]


def c_zpk(kscale=None, swap_z=(), swap_p=()):
    """swap_z / swap_p: positions j (of the first half) whose pair `[j], [j + n]` may come in either order (lp2bp, branch cut of csqrt)"""
    def unswap(re, im, swaps, val):
        re, im, v = list(re), list(im), [complex(x) for x in np.asarray(val).ravel()]
        for j in swaps:
            h = j + swaps.n
            if h < len(re) == len(v) and abs(complex(re[j], im[j]) - v[j]) > abs(complex(re[h], im[h]) - v[j]):
                re[j], re[h], im[j], im[h] = re[h], re[j], im[h], im[j]
        return re, im

    def cmp(outs, val):
        if len(outs) != 5:
            return f"expected 5 output fields, got {len(outs)}"
        z, p, k = val
        zr, zi = unswap(p_floats(outs[0]), p_floats(outs[1]), swap_z, z)
        m = cmp_cx(z, zr, zi)
        if m is not None:
            return 'zeros ' + m
        pr, pi = unswap(p_floats(outs[2]), p_floats(outs[3]), swap_p, p)
        m = cmp_cx(p, pr, pi)
        if m is not None:
            return 'poles ' + m
        m = cmp_floats([k], p_floats(outs[4]), scale=kscale)
        return None if m is None else 'gain ' + m
    return cmp


class Swaps(list):
    """positions `j < n` of an lp2bp root list `[r' + s…] ++ [r' − s…]` (n roots) whose radicand lies on the branch cut with a `-0.0`
    imaginary part: there np.sqrt and Model.Butter.csqrtFloat choose opposite signs (KNOWN_DISAGREEMENTS), i.e. the pair is swapped"""
    def __init__(self, roots, wo, bw):
        r = np.asarray(roots, dtype=complex) * bw / 2
        rad = r.astype(complex) ** 2 - wo ** 2
        super().__init__(j for j in range(len(rad)) if rad[j].real < 0 and rad[j].imag == 0 and np.signbit(rad[j].imag))
        self.n = len(rad)


def fdy(rng, lo=-16, hi=16, kmax=3):
    return Fraction(rng.randint(lo, hi), 2 ** rng.randint(0, kmax))


def bound(rng, n, none=True):
    """a slice bound around the ends of a length-n sequence (or None)"""
    c = [0, 1, -1, n, -n, n + 1, -n - 1, n - 1, n + 3, -n - 3, rng.randint(-n - 2, n + 2)]
    if none:
        c += [None, None, None]
    return rng.choice(c)


def nf(rng, p=0.25):
    """a dyadic or (with probability p) a non-finite float"""
    return rng.choice([NAN, INF, -INF]) if rng.random() < p else dy(rng)


# ------------------------------------------------------------------------------------------------
# Prelude/NpS.lean
# ------------------------------------------------------------------------------------------------

def _fl_op(op, div=False):
    def g(rng):
        fixed = [(1.0, 0.0), (0.0, 0.0), (-1.0, 0.0), (0.0, 2.0), (NAN, 1.0), (1.0, NAN), (INF, INF), (INF, -INF), (0.0, INF), (INF, 0.0),
                 (-INF, 2.0), (NAN, NAN), (-0.0, 0.0), (3.0, 4.0)]
        for i in range(N_RANDOM + len(fixed)):
            a, b = fixed[i] if i < len(fixed) else (nf(rng), nf(rng))
            if div:
                if finite(a) and math.isinf(b):
                    continue                       # KNOWN_DISAGREEMENTS: finite / +-inf = 0.0, NpS.fdiv says non-finite
                if finite(a) and finite(b) and b != 0:
                    b = rng.choice([1.0, 2.0, 4.0, -8.0, 0.5, -0.25]) if i % 3 else b    # exact quotients and rounded ones
            res = call_impl(lambda a=a, b=b: op(np.float64(a), np.float64(b)))
            yield [w_fl(a), w_fl(b)], res, (c_fl_rounded if div else (lambda o, v: c_fls(o, [v]))), {'a': a, 'b': b}
    return g


def g_finite(rng):
    def f(x):
        if not np.isfinite(x).all():
            raise ZeroDivisionError('tag: non-finite entry')
        return x
    for i in range(N_RANDOM + 6):
        x = arr(rng, sizes(rng, i, (0, 0, 1, 1, 2, 3)))
        if i % 2 and len(x):
            x[rng.randrange(len(x))] = rng.choice([NAN, INF, -INF])
            if rng.random() < 0.3:
                x[rng.randrange(len(x))] = NAN
        yield [w_fls(x)], call_impl(f, x), c_rats, {'x': x}


def g_trunc_z(rng):
    fixed = [0.0, -0.0, 0.5, -0.5, 1.0, -1.0, 3.5, -3.5, 2.0 ** 52 + 0.5, -(2.0 ** 52) - 0.5, 2.0 ** 60, -2.0 ** 60, 0.999999999, -0.999999999,
             1e300, 5e-324]
    for i in range(N_RANDOM + len(fixed)):
        x = fixed[i] if i < len(fixed) else dy(rng, -200, 200, 4)
        src = [x, np.float64(x)][i % 2]
        yield [w_rat(x)], call_impl(int, src), c_index, {'x': x}


def _int_div(numpy_scalars):
    def f(a, b):
        return int(np.float64(a) / np.float64(b)) if numpy_scalars else int(a / b)

    def g(rng):
        fixed = [(7, 2), (-7, 2), (7, -2), (-7, -2), (0, 0), (1, 0), (-1, 0), (0, 3), (0.0, 0.0), (6, 3), (-6, 3), (1, 8), (-1, 8), (0.5, 0.125),
                 (5, 0.0), (-0.0, 0.0), (3.0, 1.0)]
        for i in range(N_RANDOM + len(fixed)):
            a, b = fixed[i] if i < len(fixed) else (dy(rng, -60, 60), rng.choice([dy(rng), dy(rng), 0.0, 1.0, -0.5]))
            if not numpy_scalars and i % 3 == 0 and float(a).is_integer() and float(b).is_integer():
                a, b = int(a), int(b)                                   # Python ints as well as floats
            res = call_other(f, a, b, other=('OverflowError',))
            yield [w_rat(a), w_rat(b)], res, c_index, {'a': a, 'b': b}
    return g


def g_velo_disp(rng):
    from scipy.integrate import cumulative_trapezoid

    def f(v, dt):
        vel = cumulative_trapezoid(v, dx=dt, initial=0)
        return vel, cumulative_trapezoid(vel, dx=dt, initial=0)
    for i in range(N_RANDOM + 6):
        v = arr(rng, sizes(rng, i, (0, 0, 1, 1, 2, 3)))
        dt = rng.choice([1.0, 0.5, 0.25, 0.125, 2.0, 0.0, 1 / 64])
        yield [w_rats(v), w_rat(dt)], call_impl(f, v, dt), c_two, {'values': v, 'dt': dt}


def _peak(rng):
    try:
        from eqsig.im import calc_peak
    except Exception:  # noqa
        calc_peak = None
    fs = [lambda x: max(abs(min(x)), max(x))] + ([calc_peak] if calc_peak else [])
    for i in range(N_RANDOM + 8):
        x = arr(rng, sizes(rng, i, (0, 0, 1, 1, 1, 2, 2, 3)))
        yield [w_rats(x)], call_impl(fs[i % len(fs)], x), c_scalar, {'x': x}


def g_time_arr(rng):
    for i in range(N_RANDOM + 4):
        n = (0, 1, 2, 3)[i] if i < 4 else rng.randint(0, 40)
        dt = rng.choice([1.0, 0.5, 0.25, 1 / 64, 2.0, 0.0, dy(rng, 1, 16, 6)])
        yield [str(n), w_rat(dt)], call_impl(lambda n=n, dt=dt: np.arange(0, n) * dt), c_rats, {'n': n, 'dt': dt}


def _idx(lo):
    def g(rng):
        for i in range(N_RANDOM + 10):
            n = (0, 0, 1, 1, 2, 5)[i] if i < 6 else rng.randint(0, 12)
            b = None if i in (0, 2) else bound(rng, n)
            val = slice(b, None).indices(n)[0] if lo else slice(None, b).indices(n)[1]
            chk = n - len(np.arange(n)[b:]) if lo else len(np.arange(n)[:b])      # NumPy agrees with Python's slice object
            res = ('ok', val) if val == chk else ('err', f'Other:python {val} numpy {chk}')
            yield [str(n), w_opt_int(b)], res, c_index, {'n': n, 'bound': b}
    return g


def g_slice_o(rng):
    for i in range(N_RANDOM + 16):
        a = arr(rng, sizes(rng, i, (0, 0, 1, 1, 2, 3)))
        lo, hi = bound(rng, len(a)), bound(rng, len(a))
        src = a if i % 2 else list(a)
        yield [w_rats(a), w_opt_int(lo), w_opt_int(hi)], call_impl(lambda s=src, lo=lo, hi=hi: s[lo:hi]), c_rats, {'a': a, 'lo': lo, 'hi': hi}


def g_isub_scalar(rng):
    def f(a, lo, hi, d):
        a = a.copy()
        a[lo:hi] -= d
        return a
    for i in range(N_RANDOM + 16):
        a = arr(rng, sizes(rng, i, (0, 0, 1, 1, 2, 3)))
        lo, hi = bound(rng, len(a)), bound(rng, len(a))
        d = np.float64(nf(rng, 0.3))
        yield [w_rats(a), w_opt_int(lo), w_opt_int(hi), w_fl(d)], tag_nonfinite(call_impl(f, a, lo, hi, d)), c_rats, \
            {'a': a, 'lo': lo, 'hi': hi, 'd': d}


def g_isub_array(rng):
    def f(a, lo, hi, d):
        a = a.copy()
        a[lo:hi] -= d
        return a
    for i in range(N_RANDOM + 24):
        a = arr(rng, sizes(rng, i, (0, 0, 1, 1, 2, 3)))
        lo, hi = bound(rng, len(a)), bound(rng, len(a))
        m = len(a[lo:hi])
        k = rng.choice([m, m, m, m, 1, 1, 0, m + 1, max(m - 1, 0), 2])
        d = np.array([nf(rng, 0.12) for _ in range(k)], dtype=float)
        yield [w_rats(a), w_opt_int(lo), w_opt_int(hi), w_fls(d)], tag_nonfinite(call_impl(f, a, lo, hi, d)), c_rats, \
            {'a': a, 'lo': lo, 'hi': hi, 'd': d}


def _end(idx):
    def g(rng):
        for i in range(N_RANDOM + 8):
            a = arr(rng, sizes(rng, i, (0, 0, 0, 1, 1, 2, 2, 3)))
            src = a if i % 2 else list(a)
            yield [w_rats(a)], call_impl(lambda s=src: s[idx]), c_scalar, {'a': a}
    return g


def g_fmean(rng):
    for i in range(N_RANDOM + 8):
        x = arr(rng, sizes(rng, i, (0, 0, 1, 1, 2, 3, 3)))
        if i % 4 == 3 and len(x):
            x[rng.randrange(len(x))] = rng.choice([NAN, INF, -INF])
        yield [w_fls(x)], call_impl(np.mean, x), c_fl_rounded, {'x': x}


def g_fill_to(rng):
    def f(a, k, v):
        a = a.copy()
        a[:k] = v
        return a
    for i in range(N_RANDOM + 8):
        a = arr(rng, sizes(rng, i, (0, 0, 1, 1, 2, 3)))
        n = len(a)
        k = rng.choice([0, 1, n, n + 1, n + 5, max(n - 1, 0), rng.randint(0, n + 2)])
        v = dy(rng)
        yield [w_rats(a), str(k), w_rat(v)], call_impl(f, a, k, v), c_rats, {'a': a, 'k': k, 'v': v}


def g_diff_quot(rng):
    def f(y, d):
        n = len(y)
        x = np.zeros(n)
        for i in range(n - 1):
            x[i + 1] = (y[i + 1] - y[i]) / d
        return x
    for i in range(N_RANDOM + 8):
        y = arr(rng, sizes(rng, i, (0, 0, 1, 1, 2, 3)))
        if i % 5 == 4 and len(y):
            y[rng.randrange(len(y))] = rng.choice([NAN, INF, -INF])
        d = np.float64(rng.choice([1.0, 0.5, 0.25, 2.0, -0.5, 0.0, 0.0, 1 / 64]))
        yield [w_fls(y), w_rat(d)], call_impl(f, y, d), c_fls, {'y': y, 'd': d}


# ------------------------------------------------------------------------------------------------
# Prelude/NpT.lean
# ------------------------------------------------------------------------------------------------

def g_py_at(rng):
    for i in range(N_RANDOM + 12):
        a = arr(rng, sizes(rng, i, (0, 0, 1, 1, 1, 2, 2, 3)))
        n = len(a)
        k = rng.choice([0, 0, max(n - 1, 0), n, n + 1, rng.randint(0, n + 2)])
        src = a if i % 2 else list(a)
        yield [w_rats(a), str(k)], call_impl(lambda s=src, k=k: s[k]), c_scalar, {'l': a, 'k': k}


def g_cummax(rng):
    for i in range(N_RANDOM + 8):
        a = arr(rng, sizes(rng, i, (0, 0, 1, 1, 2, 2, 3)))
        yield [w_rats(a)], call_impl(np.maximum.accumulate, a), c_rats, {'l': a}


def g_cummax_from(rng):
    for i in range(N_RANDOM + 8):
        a = arr(rng, sizes(rng, i, (0, 0, 1, 1, 2, 2, 3)))
        m = rng.choice([dy(rng), dy(rng), 0.0, -20.0, 20.0] + list(a[:1]))
        yield [w_rat(m), w_rats(a)], call_impl(lambda m=m, a=a: np.maximum.accumulate(np.concatenate(([m], a)))[1:]), c_rats, {'m': m, 'l': a}


def g_trapz_axis0(rng):
    trapz = getattr(np, 'trapezoid', None) or getattr(np, 'trapz')
    for i in range(N_RANDOM + 8):
        r = (1, 1, 1, 2, 2, 3, 2, 5)[i] if i < 8 else rng.randint(1, 7)      # r = 0: KNOWN_DISAGREEMENTS (a 0 x c array is not a list of rows)
        c = (0, 1, 3, 0, 1, 2, 4, 1)[i] if i < 8 else rng.choice([0, 1, 2, 3, rng.randint(1, 8)])
        m = arr(rng, r * c, rng.choice(['dyadic', 'int', 'ties', 'zeros'])).reshape(r, c)
        yield [str(r), str(c), w_rats(m.ravel())], call_impl(trapz, m, axis=0), c_rats, {'M': m}


def g_add_from(rng):
    def f(base, i, v):
        base = base.copy()
        base[i:] += v
        return base
    for j in range(N_RANDOM + 8):
        b = arr(rng, sizes(rng, j, (0, 0, 1, 1, 2, 3)))
        n = len(b)
        i = rng.choice([0, 0, 1, n, max(n - 1, 0), n + 1, n + 3, rng.randint(0, n + 1)])
        v = arr(rng, max(n - i, 0))
        yield [str(i), w_rats(b), w_rats(v)], call_impl(f, b, i, v), c_rats, {'base': b, 'i': i, 'v': v}


# ------------------------------------------------------------------------------------------------
# Prelude/NpV.lean
# ------------------------------------------------------------------------------------------------

def g_attr(rng):
    names = ['trapz', 'trapezoid', 'in1d', 'float_', 'NaN', 'cumsum', 'interp', 'row_stack', 'asfarray', 'maximum', 'cumproduct', 'isclose',
             'linspace', 'product', 'alltrue', 'sometrue', 'round_', 'unique', 'where', 'no_such_function']
    for i in range(40):
        name = names[i % len(names)]
        mod = np if i < 20 else np.fft
        present = hasattr(mod, name)
        yield [w_bool(present)], call_impl(lambda mod=mod, name=name: getattr(mod, name) and None), c_unit, {'module': mod.__name__, 'name': name}


def g_scipy_nonempty(rng):
    from scipy.integrate import cumulative_trapezoid
    for i in range(40):
        y = arr(rng, sizes(rng, i, (0, 0, 0, 1, 1, 2)) if i % 4 else 0)
        kw = [dict(dx=0.5, initial=0), dict(initial=0), dict(dx=0.25), dict()][i % 4]
        yield [w_rats(y)], call_impl(lambda y=y, kw=kw: cumulative_trapezoid(y, **kw) is None and None), c_unit, {'y': y, 'kw': kw}


def g_linspace(rng):
    for i in range(N_RANDOM + 12):
        n = (0, 0, 1, 1, 2, 2, 3, 5)[i] if i < 8 else rng.randint(0, 40)
        a = dy(rng)
        step = rng.choice([dy(rng), dy(rng), 0.0, 1.0, -0.5])
        b = a + step * (n - 1) if n >= 2 else dy(rng)                  # (b - a) / (n - 1) is a small dyadic: every float operation is exact
        src = [(a, b), (np.float64(a), np.float64(b))][i % 2]
        yield [w_rat(a), w_rat(b), str(n)], call_impl(np.linspace, src[0], src[1], n), c_rats, {'a': a, 'b': b, 'n': n}


def g_isclose(rng):
    fixed = [(1.0, 1.5, 0.25, 0.125), (1.5, 1.0, 0.25, 0.125), (0.0, 0.0, 0.0, 0.0), (1.0, 1.0, 0.0, 0.0), (1.0, 2.0, 0.5, 0.0), (2.0, 1.0, 0.5, 0.0),
             (-1.0, -2.0, 0.5, 0.0), (1.0, -1.0, 1.0, 1.0), (1.0, 1.25, 0.0, 0.25), (1.0, 1.25, 0.0, 0.125), (0.0, 0.5, 0.0, 0.5), (0.0, -0.5, 1.0, 0.0)]
    for i in range(N_RANDOM + len(fixed)):
        if i < len(fixed):
            a, b, rtol, atol = fixed[i]
        else:
            a = dy(rng)
            b = rng.choice([a, a + dy(rng, -4, 4, 4), dy(rng)])
            rtol, atol = rng.choice([0.0, 0.5, 0.25, 1 / 64, 1.0, 2.0 ** -20]), rng.choice([0.0, 0.5, 0.125, 1 / 64, 2.0 ** -26])
        yield [w_rat(a), w_rat(b), w_rat(rtol), w_rat(atol)], call_impl(lambda a=a, b=b, r=rtol, t=atol: bool(np.isclose(a, b, rtol=r, atol=t))), \
            c_bool, {'a': a, 'b': b, 'rtol': rtol, 'atol': atol}


# ------------------------------------------------------------------------------------------------
# Model/Butter.lean (Float twin; relative budget REL)
# ------------------------------------------------------------------------------------------------

def rfloat(rng):
    """a float of any moderate magnitude"""
    return rng.choice([1.0, -1.0, 0.5, 2.0, rng.uniform(-4, 4), rng.uniform(-1, 1) * 10.0 ** rng.randint(-6, 6)])


def rcx(rng):
    return rng.choice([complex(rfloat(rng), rfloat(rng)), complex(rng.uniform(-2, 2), rng.uniform(-2, 2)), complex(rfloat(rng), 0.0),
                       complex(0.0, rfloat(rng))])


def closed_roots(rng, n):
    """n roots closed under conjugation (exact conjugate pairs and real roots)"""
    out = []
    while len(out) < n:
        if n - len(out) >= 2 and rng.random() < 0.7:
            z = complex(rng.uniform(-2, 2), rng.uniform(0.01, 2))
            out += [z, z.conjugate()]
        else:
            out.append(complex(rng.uniform(-2, 2), 0.0))
    rng.shuffle(out)
    return out


def rzpk(rng, i, closed=False):
    """a zeros-poles-gain triple with len z <= len p (the non-raising domain of `_relative_degree`)"""
    npol = (0, 1, 1, 2, 3, 4)[i] if i < 6 else rng.randint(0, 10)
    nz = rng.choice([0, 0, npol, rng.randint(0, npol)])
    mk = (lambda n: closed_roots(rng, n)) if closed else (lambda n: [rcx(rng) for _ in range(n)])
    return mk(nz), mk(npol), rng.choice([1.0, 1.0, rfloat(rng)])


def butter_zpk(rng):
    """a stage input from the real Butterworth path"""
    from scipy import signal
    n = rng.randint(1, 10)
    z, p, k = signal.buttap(n)
    return list(z), list(p), float(k)


def g_bt_fns(rng):
    def cmp(outs, val):
        for k, (nm, v) in enumerate(zip(('pi', 'tan', 'sqrt', 'cos', 'sin'), val)):
            sc = max(abs(v), 1e-300) if math.isfinite(v) else None
            m = cmp_floats([v], p_floats(outs[k]), rel=(0.0 if nm == 'pi' else REL), scale=sc)       # the constant np.pi: bit for bit
            if m is not None:
                return f"{nm}: {m}"
        return None
    fixed = [0.0, 1.0, 0.5, 0.25, math.pi / 4, 1e-8, 1e-300, 3.0, 100.0, 1e6, 1.5, math.pi / 2 * 0.999, 2.0, 4.0, 1e10, 0.1]
    for i in range(N_RANDOM + len(fixed)):
        t = fixed[i] if i < len(fixed) else abs(rfloat(rng))
        e = np.exp(1j * np.float64(t))
        yield [w_float(t)], call_impl(lambda t=t, e=e: (float(np.pi), float(np.tan(t)), float(np.sqrt(t)), e.real, e.imag)), cmp, {'t': t}


def g_bt_csqrt(rng):
    # `-0.0` imaginary parts on the negative real axis (branch cut) and |z| outside [1e-150, 1e150] (the intermediate `re*re + im*im`
    # under- / overflows): KNOWN_DISAGREEMENTS, not generated here
    fixed = [0j, complex(0.0, -0.0), complex(-0.0, 0.0), 4 + 0j, -4 + 0j, 4j, -4j, 3 + 4j, -3 + 4j, -3 - 4j, 3 - 4j, complex(4.0, -0.0), 1e-140 + 0j,
             1e140 + 1e140j, -1e-20 + 1e-30j, complex(-1.0, 1e-300)]
    for i in range(0, N_RANDOM + len(fixed), 4):
        zs = [fixed[j] if j < len(fixed) else rcx(rng) for j in range(i, i + 4)]
        zs = [z if not (z.real < 0 and z.imag == 0 and math.copysign(1, z.imag) < 0) else complex(z.real, 0.0) for z in zs]
        for z in zs:
            def cmp(outs, val):
                return cmp_cx([val], p_floats(outs[0]), p_floats(outs[1]), scale=max(abs(val), 1e-300))
            yield w_cx([z]), call_impl(lambda z=z: complex(np.sqrt(np.complex128(z)))), cmp, {'z': z}


def _cx_list(f, handler_extra=None, nmax=10):
    def g(rng):
        for i in range(N_RANDOM + 6):
            n = (0, 0, 1, 1, 2, 3)[i] if i < 6 else rng.randint(0, nmax)
            zs = closed_roots(rng, n) if i % 3 == 0 else [rcx(rng) for _ in range(n)]

            def cmp(outs, val):
                return cmp_cx(np.atleast_1d(val), p_floats(outs[0]), p_floats(outs[1]))
            yield w_cx(zs), call_impl(f, np.array(zs, dtype=complex)), cmp, {'z': zs}
    return g


def g_bt_mul_linear(rng):
    for i in range(N_RANDOM + 4):
        n = (1, 1, 2, 3)[i] if i < 4 else rng.randint(1, 10)
        a = [rcx(rng) for _ in range(n)]
        r = rcx(rng)

        def cmp(outs, val):
            return cmp_cx(val, p_floats(outs[0]), p_floats(outs[1]))
        yield w_cx(a) + [w_float(r.real), w_float(r.imag)], call_impl(lambda a=a, r=r: np.convolve(np.array(a), np.array([1, -r]), mode='full')), \
            cmp, {'a': a, 'r': r}


def g_bt_polyval(rng):
    for i in range(N_RANDOM + 4):
        n = (0, 1, 1, 2)[i] if i < 4 else rng.randint(0, 10)
        c = [complex(rng.uniform(-2, 2), rng.uniform(-2, 2)) for _ in range(n)]
        x = complex(rng.uniform(-1.5, 1.5), rng.uniform(-1.5, 1.5))
        sc = sum(abs(ck) * abs(x) ** (n - 1 - j) for j, ck in enumerate(c)) or 1.0     # condition of the Horner sum

        def cmp(outs, val, sc=sc):
            return cmp_cx([val], p_floats(outs[0]), p_floats(outs[1]), scale=sc)
        yield w_cx(c) + [w_float(x.real), w_float(x.imag)], call_impl(lambda c=c, x=x: complex(np.polyval(np.array(c, dtype=complex), x))), \
            cmp, {'c': c, 'x': x}


def g_bt_pow_n(rng):
    for i in range(N_RANDOM + 6):
        x = (0.0, 1.0, -1.0, 2.0, 0.5, -0.0)[i] if i < 6 else rfloat(rng)
        n = rng.choice([0, 1, 2, 3, rng.randint(0, 24)])

        def cmp(outs, val):
            return cmp_floats([val], p_floats(outs[0]), scale=max(abs(val), 1e-300) if math.isfinite(val) else None)
        yield [w_float(x), str(n)], call_impl(lambda x=x, n=n: float(np.float64(x) ** n)), cmp, {'x': x, 'n': n}


def g_bt_buttap(rng):
    from scipy import signal
    for i in range(42):
        n = i if i < 26 else rng.randint(26, 60)
        yield [str(n)], call_impl(signal.buttap, n), c_zpk(), {'N': n}


def g_bt_prewarp(rng):
    fixed = [0.5, 0.25, 1e-9, 1e-3, 0.999, 0.9999999, 0.1, 0.2, 0.75, 1 / 3]
    for i in range(N_RANDOM + len(fixed)):
        w = fixed[i] if i < len(fixed) else rng.uniform(0.0, 1.0) ** rng.choice([1, 1, 4])
        fs = 2.0

        def cmp(outs, val):
            return cmp_floats([val], p_floats(outs[0]), scale=abs(val))
        yield [w_float(w)], call_impl(lambda w=w: float(2 * fs * np.tan(np.pi * np.float64(w) / fs))), cmp, {'Wn': w}


def g_bt_rel_deg(rng):
    from scipy.signal import _filter_design as fd
    for i in range(40):
        npol = rng.randint(0, 12)
        nz = rng.randint(0, npol)                # more zeros than poles raises in SciPy: outside the domain of `relDeg` (its doc comment)
        yield [str(nz), str(npol)], call_impl(fd._relative_degree, np.zeros(nz), np.zeros(npol)), c_index, {'nz': nz, 'np': npol}


def _lp(kind):
    def g(rng):
        from scipy import signal
        for i in range(N_RANDOM + 8):
            z, p, k = butter_zpk(rng) if i % 3 == 2 else rzpk(rng, i)
            wo = [1.0, 0.5, 2.0, 1e-6, 1e6][i] if i < 5 else abs(rfloat(rng)) or 1.0
            if kind == 'lp':
                res, extra = call_impl(signal.lp2lp_zpk, z, p, k, wo=wo), [w_float(wo)]
                ks = None
            elif kind == 'hp':
                if any(r == 0 for r in list(z) + list(p)):
                    continue
                res, extra = call_impl(signal.lp2hp_zpk, z, p, k, wo=wo), [w_float(wo)]
                ks = abs(k * np.prod(-np.array(z, dtype=complex)) / np.prod(-np.array(p, dtype=complex)))     # |ratio|: the real part may cancel
            else:
                bw = [1.0, 0.5, 3.0, 1e-3, 10.0][i] if i < 5 else abs(rfloat(rng)) or 1.0
                res, extra = call_impl(signal.lp2bp_zpk, z, p, k, wo=wo, bw=bw), [w_float(wo), w_float(bw)]
                yield w_zpk(z, p, k) + extra, res, c_zpk(None, Swaps(z, wo, bw), Swaps(p, wo, bw)), {'z': z, 'p': p, 'k': k, 'wo': wo, 'bw': bw}
                continue
            yield w_zpk(z, p, k) + extra, res, c_zpk(ks), {'z': z, 'p': p, 'k': k, 'wo': wo}
    return g


def g_bt_bilinear(rng):
    from scipy import signal
    for i in range(N_RANDOM + 8):
        if i % 3 == 2:
            z0, p0, k0 = butter_zpk(rng)
            z, p, k = signal.lp2lp_zpk(z0, p0, k0, wo=abs(rfloat(rng)) or 1.0) if i % 2 else signal.lp2bp_zpk(z0, p0, k0, wo=rng.uniform(0.1, 3), bw=rng.uniform(0.1, 3))
        else:
            z, p, k = rzpk(rng, i)
        if any(r == 4 for r in list(z) + list(p)):
            continue
        ks = abs(k * np.prod(4 - np.array(z, dtype=complex)) / np.prod(4 - np.array(p, dtype=complex)))
        yield w_zpk(z, p, k), call_impl(signal.bilinear_zpk, z, p, k, fs=2.0), c_zpk(ks), {'z': z, 'p': p, 'k': k}


def g_bt_zpk2tf(rng):
    from scipy import signal

    def cmp(outs, val):
        b, a = val
        if np.iscomplexobj(b) and np.abs(np.imag(b)).max(initial=0.0) > 1e-9 * max(np.abs(b).max(initial=0.0), 1e-300):
            return f"impl b is not real: {b!r}"
        m = cmp_floats(np.real(np.atleast_1d(b)), p_floats(outs[0]))
        if m is not None:
            return 'b ' + m
        m = cmp_floats(np.real(np.atleast_1d(a)), p_floats(outs[1]))
        return None if m is None else 'a ' + m
    for i in range(N_RANDOM + 8):
        if i % 3 == 2:                     # the real path: digital Butterworth filters in zpk form
            ft = rng.choice(['low', 'high', 'band'])
            wn = sorted([rng.uniform(0.02, 0.45), rng.uniform(0.5, 0.95)]) if ft == 'band' else rng.uniform(0.02, 0.95)
            z, p, k = signal.butter(rng.randint(1, 6 if ft == 'band' else 9), wn, ft, output='zpk')
        else:                              # roots closed under conjugation (exact pairs): the domain of the real-part step
            z, p, k = rzpk(rng, i, closed=True)
        yield w_zpk(z, p, k), call_impl(signal.zpk2tf, z, p, k), cmp, {'z': list(z), 'p': list(p), 'k': k}


def g_bt_accepts(rng):
    from scipy import signal

    def f(ft, wn):
        signal.butter(2, wn[0] if len(wn) == 1 else np.array(wn), btype=ft)     # `[w]` stands for the SCALAR `w` (Model/Butter.lean)
        return None
    fixed = [('low', [0.5]), ('low', [0.0]), ('low', [1.0]), ('low', [-0.1]), ('low', [1.5]), ('high', [0.25]), ('high', [1.0]), ('high', [0.0]),
             ('band', [0.1, 0.2]), ('band', [0.2, 0.1]), ('band', [0.1, 0.1]), ('band', [0.1]), ('band', [0.0, 0.5]), ('band', [0.5, 1.0]),
             ('band', [0.1, 0.2, 0.3]), ('band', [0.3, 0.2, 0.1]), ('low', [0.1, 0.2]), ('high', [0.1, 0.2]), ('low', [0.2, 0.1]), ('low', []),
             ('high', []), ('band', []), ('band', [0.1, 0.2, 1.5]), ('band', [0.1, 0.2, 0.0]), ('low', [1e-300]), ('band', [-0.5, 0.5])]
    for i in range(len(fixed) + 24):
        if i < len(fixed):
            ft, wn = fixed[i]
        else:
            ft = rng.choice(['low', 'high', 'band'])
            wn = [rng.choice([0.0, 1.0, 0.5, rng.uniform(-0.2, 1.2)]) for _ in range(rng.choice([1, 1, 2, 2, 2, 3]))]
        yield [ft, w_floats(wn)], call_impl(f, ft, wn), c_unit, {'btype': ft, 'Wn': wn}


# ------------------------------------------------------------------------------------------------
# Model/CavDpFloat.lean (binary64 arithmetic on non-negative dyadics; bit-exact)
# ------------------------------------------------------------------------------------------------

def w_dy(x, pad=0):
    """a non-negative double as `<m> <k>` (m / 2^k), optionally not normalised"""
    q = Fraction(float(x))
    k = q.denominator.bit_length() - 1
    assert q >= 0 and q.denominator == 2 ** k
    return f"{q.numerator << pad} {k + pad}"


def pdouble(rng):
    """a positive double in the magnitude range the model is written for ([1e-4, 1e7]; normal numbers, no overflow)"""
    return rng.choice([rng.uniform(1e-4, 1.0), rng.uniform(1.0, 1e4), float(rng.randint(1, 10 ** 6)), 1.0 / rng.randint(1, 2000),
                       rng.randint(1, 1000) / 1000.0, dy(rng, 1, 64, 6)])


def g_cv_log2(rng):
    ps = [0, 1, 2, 3, 4, 7, 8, 2 ** 52, 2 ** 53 - 1, 2 ** 53, 2 ** 64 - 1, 2 ** 64, 2 ** 1023, 2 ** 1024 - 1, 2 ** 1024, 2 ** 1024 + 1, 2 ** 1100 + 5] + \
        [rng.randint(1, 2 ** rng.choice([4, 16, 53, 64, 200, 1000])) for _ in range(N_RANDOM)]
    for p in ps:
        yield [str(p)], ('ok', max(p.bit_length() - 1, 0)), c_index, {'p': p}


def g_cv_round_q(rng):
    cases = [(0, 1), (1, 1), (1, 3), (2, 3), (1, 10), (2 ** 53 - 1, 1), (2 ** 53, 1), (2 ** 53 + 1, 1), (2 ** 54 + 2, 1), (2 ** 54 + 6, 1), (1, 49), (1, 93)]
    for _ in range(N_RANDOM):
        c = rng.randrange(4)
        if c == 0:
            cases.append((rng.randint(1, 2 ** rng.choice([1, 3, 20, 60, 200])), rng.randint(1, 2 ** rng.choice([1, 3, 20, 60, 200]))))
        else:
            m, e = rng.randint(2 ** 52, 2 ** 53 - 1), rng.randint(-60, 30)
            x = Fraction(2 * m + 1, 2) * Fraction(2) ** e                         # an exact tie ...
            x += [0, Fraction(1, 10 ** 30), -Fraction(1, 10 ** 30)][c - 1] * Fraction(2) ** e    # ... and its two neighbours
            cases.append((x.numerator, x.denominator))
    for p, q in cases:
        s = rng.randint(1, 9) if rng.random() < 0.3 else 1                      # not in lowest terms as well
        yield [str(p * s), str(q * s)], call_impl(lambda p=p, q=q: p / q), c_scalar, {'p': p, 'q': q}


def _cv_op(op, name):
    def g(rng):
        for i in range(N_RANDOM + 8):
            x, y = pdouble(rng), pdouble(rng)
            if i < 8:
                x, y = [(1.0, 1.0), (0.1, 0.2), (1.0, 2.0 ** -53), (1.0, 2.0 ** -54), (3.0, 1.0), (0.3, 0.1), (1e7, 1e-4), (0.5, 0.25)][i]
            if name == 'fsub' and x < y:
                x, y = y, x
            if name in ('fadd', 'fsub') and i % 7 == 3:
                y = 0.0
            yield [w_dy(x, rng.choice([0, 0, 3])), w_dy(y, rng.choice([0, 0, 5]))], call_impl(op, x, y), c_scalar, {'x': x, 'y': y}
    return g


def g_cv_fmul_nat(rng):
    for i in range(N_RANDOM + 6):
        n = (0, 1, 2, 3, 10, 2 ** 53 - 1)[i] if i < 6 else rng.choice([rng.randint(0, 2000), rng.randint(0, 10 ** 7)])
        x = pdouble(rng)
        yield [str(n), w_dy(x, rng.choice([0, 0, 2]))], call_impl(lambda n=n, x=x: n * x), c_scalar, {'n': n, 'x': x}


def g_cv_cmp(rng):
    def cmp(outs, val):
        return None if [outs[0][0], outs[1][0]] == [w_bool(val[0]), w_bool(val[1])] else f"impl={val} model={outs}"
    for i in range(N_RANDOM + 4):
        x = pdouble(rng)
        y = rng.choice([x, x, float(np.nextafter(x, 2 * x)), float(np.nextafter(x, 0.0)), pdouble(rng)])
        if i < 2:
            x, y = 0.0, (0.0, 1.0)[i]
        yield [w_dy(x, rng.choice([0, 4])), w_dy(y, rng.choice([0, 1]))], ('ok', (x <= y, x == y)), cmp, {'x': x, 'y': y}


def g_cv_ceil_floor(rng):
    def cmp(outs, val):
        return cmp_exact(list(val), p_ints(outs[0]) + p_ints(outs[1]))
    fixed = [0.0, 1.0, 0.5, 1.5, 2.0, 2.0 ** -40, 99.99999999999999, 100.00000000000001, 2.0 ** 53, 1e7]
    for i in range(N_RANDOM + len(fixed)):
        x = fixed[i] if i < len(fixed) else pdouble(rng)
        yield [w_dy(x, rng.choice([0, 0, 3]))], ('ok', (math.ceil(x), int(x))), cmp, {'x': x}


RATES = [1, 2, 4, 5, 10, 20, 25, 40, 50, 64, 80, 100, 125, 128, 200, 250, 256, 400, 500, 512, 1000, 2000]     # the 22 standard sampling rates


def g_cv_dt_of(rng):
    for n in RATES + [3, 7, 49, 93, 2 ** 53 - 1, 2 ** 60 + 1] + [rng.randint(1, 5000) for _ in range(20)]:
        yield [str(n)], call_impl(lambda n=n: 1 / n), c_scalar, {'pps': n}


def g_cv_pps_of(rng):
    dts = [1 / n for n in RATES] + [1 / n for n in (3, 7, 49, 93, 98, 103, 107)] + [0.03, 0.007, 0.3, 0.15, 1.0, 2.0, 0.75] + \
        [1 / rng.randint(1, 5000) for _ in range(12)] + [pdouble(rng) for _ in range(8)]
    for dt in dts:
        yield [w_dy(dt)], call_impl(lambda dt=dt: int(1 / dt)), c_index, {'dt': dt}


def _windows(rng, big):
    cases = [(1 / pps, i) for pps in RATES if pps <= 512 or big for i in (0, 1)] + \
        [(dt, i) for dt in (0.03, 0.007, 0.3, 0.15, 0.011, 0.0625, 0.004, 0.0025, 1.0, 2.0, 0.75) for i in (0, 5)]
    for _ in range(12):
        pps = rng.choice([rng.randint(1, 130), rng.randint(1, 130), rng.randint(130, 700)])
        cases.append((1 / pps, rng.choice([0, 1, 2, 3, 7, 16, 33, 100, 1234])))
    return cases


def g_cv_arange(rng):
    def f(dt, start):
        return np.arange(start * dt, (start * dt) + 1, dt)

    def cmp(outs, val):
        if p_ints(outs[0]) != [len(val)]:
            return f"length impl={len(val)} model={outs[0]}"
        return cmp_exact(list(val), p_rats(outs[1]))
    for dt, i in _windows(rng, True):
        start = i * int(1 / dt)
        yield [w_dy(dt), str(start)], call_impl(f, dt, start), cmp, {'dt': dt, 'start': start}


def g_cv_selected(rng):
    def f(dt, pps, start):
        it = np.arange(start * dt, (start * dt) + 1, dt)
        sel = np.where((start * dt <= it) * (it <= (start + pps) * dt))[0]
        return [int(s) for s in sel], max(len(sel) - 1, 0)

    def cmp(outs, val):
        return None if (p_ints(outs[0]), p_ints(outs[1])) == (val[0], [val[1]]) else f"impl={val[0][-3:]} {val[1]} model={outs[0][-3:]} {outs[1]}"
    for dt, i in _windows(rng, False):
        pps = int(1 / dt)
        start = i * pps
        yield [w_dy(dt), str(pps), str(start)], call_impl(f, dt, pps, start), cmp, {'dt': dt, 'pps': pps, 'start': start}


def g_cv_window(rng):
    def f(pps, i):
        dt = 1 / pps
        start = i * pps
        it = np.arange(start * dt, (start * dt) + 1, dt)
        sel = np.where((start * dt <= it) * (it <= (start + pps) * dt))[0]
        return (len(it) == pps and list(sel) == list(range(pps))), len(it) == pps

    def cmp(outs, val):
        return None if [outs[0][0], outs[1][0]] == [w_bool(val[0]), w_bool(val[1])] else f"impl={val} model={outs}"
    cases = [(pps, i) for pps in RATES if pps <= 256 for i in (0, 3)] + [(rng.randint(1, 300), rng.choice([0, 1, 2, 7, 33, 100, 1234])) for _ in range(16)]
    for pps, i in cases:
        yield [str(pps), str(i)], call_impl(f, pps, i), cmp, {'pps': pps, 'i': i}


# ------------------------------------------------------------------------------------------------
# Prelude/NpU.lean (fx_f123; optional: handlers np.u.* of Handlers/PreludeU.lean) — generators of fx_f123's snippet
# ------------------------------------------------------------------------------------------------

def _iarr(rng, i):
    n = (0, 1, 1, 2, 2, 3)[i] if i < 6 else rng.randint(0, 16)
    kind = rng.choice(['rand', 'sorted', 'rev', 'const', 'strict', 'zeros'])
    if kind == 'const':
        v = [rng.randint(0, 9)] * n
    elif kind == 'zeros':
        v = [0] * n
    elif kind == 'strict':
        v = sorted(rng.sample(range(0, 40), n))
    else:
        v = [rng.randint(0, 9) for _ in range(n)]
        v = sorted(v) if kind == 'sorted' else sorted(v, reverse=True) if kind == 'rev' else v
    return v


def g_u_unique(rng):
    for i in range(N_RANDOM + 8):
        v = _iarr(rng, i)
        f = (lambda v: np.unique(np.array(v, dtype=int))) if i % 2 else (lambda v: sorted(set(v)))
        yield [' '.join(map(str, v))], call_impl(f, v), (lambda o, val: cmp_exact([int(x) for x in val], p_ints(o[0]))), {'a': v}


def g_u_dedup_adj(rng):
    def f(v):
        a = np.array(v, dtype=int)
        return a[np.concatenate(([True], a[1:] != a[:-1]))] if len(a) else a
    for i in range(N_RANDOM + 8):
        v = _iarr(rng, i)
        yield [' '.join(map(str, v))], call_impl(f, v), (lambda o, val: cmp_exact([int(x) for x in val], p_ints(o[0]))), {'a': v}


# ------------------------------------------------------------------------------------------------
# the table
# ------------------------------------------------------------------------------------------------

PRIMITIVES_S = [
    # handler, generator                                      -- the Lean definition under test
    ('np.s.fadd', _fl_op(lambda a, b: a + b)),                                    # NpS.fadd
    ('np.s.fsub', _fl_op(lambda a, b: a - b)),                                    # NpS.fsub
    ('np.s.fmul', _fl_op(lambda a, b: a * b)),                                    # NpS.fmul
    ('np.s.fdiv', _fl_op(lambda a, b: a / b, div=True)),                          # NpS.fdiv
    ('np.s.finite', g_finite),                                                    # NpS.finiteE
    ('np.s.trunc_z', g_trunc_z),                                                  # NpS.truncZ
    ('np.s.int_np_div', _int_div(True)),                                          # NpS.intNpDivE
    ('np.s.int_py_div', _int_div(False)),                                         # NpS.intPyDivE
    ('np.s.velo_disp', g_velo_disp),                                              # NpS.veloDispE
    ('np.s.pga', _peak),                                                          # NpS.pgaE
    ('np.s.time_arr', g_time_arr),                                                # NpS.timeArr
    ('np.s.lo_idx', _idx(True)),                                                  # NpS.loIdx
    ('np.s.hi_idx', _idx(False)),                                                 # NpS.hiIdx
    ('np.s.slice_o', g_slice_o),                                                  # NpS.sliceO
    ('np.s.isub_scalar', g_isub_scalar),                                          # NpS.isubScalarE
    ('np.s.isub_array', g_isub_array),                                            # NpS.isubArrayE
    ('np.s.head', _end(0)),                                                       # NpS.headE
    ('np.s.last', _end(-1)),                                                      # NpS.lastE
    ('np.s.fmean', g_fmean),                                                      # NpS.fmean
    ('np.s.fill_to', g_fill_to),                                                  # NpS.fillTo
    ('np.s.diff_quot', g_diff_quot),                                              # NpS.diffQuot
    ('np.s.py_at', g_py_at),                                                      # NpT.pyAt
    ('np.s.cummax', g_cummax),                                                    # NpT.cummax
    ('np.s.cummax_from', g_cummax_from),                                          # NpT.cummaxFrom
    ('np.s.trapz_axis0', g_trapz_axis0),                                          # NpT.trapzAxis0 (trapzAxis0From)
    ('np.s.add_from', g_add_from),                                                # NpT.addFrom
    ('np.s.attr', g_attr),                                                        # NpV.attrE
    ('np.s.scipy_nonempty', g_scipy_nonempty),                                    # NpV.scipyNonemptyE
    ('np.s.calc_peak', _peak),                                                    # NpV.calcPeakE
    ('np.s.linspace', g_linspace),                                                # NpV.linspace
    ('np.s.isclose', g_isclose),                                                  # NpV.isclose
    ('np.s.bt.fns', g_bt_fns),                                                    # Model.Butter.fnsFloat (pi, tan, sqrt, cis)
    ('np.s.bt.csqrt', g_bt_csqrt),                                                # Model.Butter.csqrtFloat
    ('np.s.bt.prod', _cx_list(np.prod)),                                          # Model.Butter.prodL
    ('np.s.bt.mul_linear', g_bt_mul_linear),                                      # Model.Butter.mulLinear (mulLinearAux)
    ('np.s.bt.poly', _cx_list(lambda z: np.poly(z) if len(z) else np.array([1.0]))),   # Model.Butter.poly
    ('np.s.bt.polyval', g_bt_polyval),                                            # Model.Butter.polyval
    ('np.s.bt.pow_n', g_bt_pow_n),                                                # Model.Butter.powN
    ('np.s.bt.buttap', g_bt_buttap),                                              # Model.Butter.buttap
    ('np.s.bt.prewarp', g_bt_prewarp),                                            # Model.Butter.prewarp
    ('np.s.bt.rel_deg', g_bt_rel_deg),                                            # Model.Butter.relDeg
    ('np.s.bt.lp2lp', _lp('lp')),                                                 # Model.Butter.lp2lp
    ('np.s.bt.lp2hp', _lp('hp')),                                                 # Model.Butter.lp2hp
    ('np.s.bt.lp2bp', _lp('bp')),                                                 # Model.Butter.lp2bp
    ('np.s.bt.bilinear', g_bt_bilinear),                                          # Model.Butter.bilinear
    ('np.s.bt.zpk2tf', g_bt_zpk2tf),                                              # Model.Butter.zpk2tf
    ('np.s.bt.accepts', g_bt_accepts),                                            # Model.Butter.accepts
    ('np.s.cv.log2', g_cv_log2),                                                  # Model.CavDpFloat.log2F (log2Go)
    ('np.s.cv.round_q', g_cv_round_q),                                            # Model.CavDpFloat.roundQ
    ('np.s.cv.fadd', _cv_op(lambda x, y: x + y, 'fadd')),                         # Model.CavDpFloat.fadd
    ('np.s.cv.fsub', _cv_op(lambda x, y: x - y, 'fsub')),                         # Model.CavDpFloat.fsub
    ('np.s.cv.fdiv', _cv_op(lambda x, y: x / y, 'fdiv')),                         # Model.CavDpFloat.fdiv
    ('np.s.cv.fmul_nat', g_cv_fmul_nat),                                          # Model.CavDpFloat.fmulNat
    ('np.s.cv.cmp', g_cv_cmp),                                                    # Model.CavDpFloat.Dy.le, Dy.eqv
    ('np.s.cv.ceil_floor', g_cv_ceil_floor),                                      # Model.CavDpFloat.Dy.ceil, Dy.floor
    ('np.s.cv.dt_of', g_cv_dt_of),                                                # Model.CavDpFloat.dtOf
    ('np.s.cv.pps_of', g_cv_pps_of),                                              # Model.CavDpFloat.ppsOf
    ('np.s.cv.arange', g_cv_arange),                                              # Model.CavDpFloat.arangeLenF, arangeF
    ('np.s.cv.selected', g_cv_selected),                                          # Model.CavDpFloat.selectedF (whereFrom), panelsF
    ('np.s.cv.window', g_cv_window),                                              # Model.CavDpFloat.windowExact, windowLenExact (isRangeFrom)
]

# handlers of OTHER pending deliveries: tested when the driver has them, silently skipped otherwise
OPTIONAL_S = [
    ('np.u.unique', g_u_unique),                                                  # NpU.unique      (fx_f123, Handlers/PreludeU.lean)
    ('np.u.dedup_adj', g_u_dedup_adj),                                            # NpU.dedupAdj
]


# ------------------------------------------------------------------------------------------------
# known disagreements: (handler, args, real expression, what the combinator answers, description)
# ------------------------------------------------------------------------------------------------

def _kd_trapz0():
    trapz = getattr(np, 'trapezoid', None) or getattr(np, 'trapz')
    return trapz(np.zeros((0, 3)), axis=0)


KNOWN_DISAGREEMENTS = [
    ('np.s.fdiv', [w_fl(1.0), w_fl(INF)], lambda: np.float64(1.0) / np.float64(INF), c_fl_rounded,
     'NpS.fdiv: finite / +-inf is 0.0 in NumPy; the combinator answers none (non-finite): "every operation on none gives none" over-approximates'),
    ('np.s.fdiv', [w_fl(-3.0), w_fl(-INF)], lambda: np.float64(-3.0) / np.float64(-INF), c_fl_rounded,
     'NpS.fdiv: finite / +-inf (second witness)'),
    ('np.s.int_py_div', [w_rat(1.0), w_rat(0.1)], lambda: int(1.0 / 0.1), c_index,
     'NpS.intPyDivE on the EXACT values of doubles: int(1.0 / 0.1) = 10 (the quotient rounds up to 10.0), truncZ(1 / fl(0.1)) = 9'),
    ('np.s.int_np_div', [w_rat(1.0), w_rat(0.1)], lambda: int(np.float64(1.0) / np.float64(0.1)), c_index,
     'NpS.intNpDivE: the same rounding witness'),
    ('np.s.trapz_axis0', ['0', '3', ''], _kd_trapz0, c_rats,
     'NpT.trapzAxis0 []: np.trapezoid of a 0 x 3 array over axis 0 is zeros(3); a list of rows cannot carry the column count, the combinator answers []'),
    ('np.s.bt.csqrt', w_cx([complex(-4.0, -0.0)]), lambda: complex(np.sqrt(np.complex128(complex(-4.0, -0.0)))),
     lambda outs, val: cmp_cx([val], p_floats(outs[0]), p_floats(outs[1]), scale=2.0),
     'Model.Butter.csqrtFloat: on the negative real axis with imaginary part -0.0 np.sqrt gives 0-2j (C99 csqrt), the combinator 0+2j'),
    ('np.s.bt.csqrt', w_cx([complex(1e-300, 0.0)]), lambda: complex(np.sqrt(np.complex128(1e-300))),
     lambda outs, val: cmp_cx([val], p_floats(outs[0]), p_floats(outs[1]), scale=1e-150),
     'Model.Butter.csqrtFloat: |z| < 1e-154: `re*re + im*im` underflows to 0, the combinator answers sqrt(|re|/2) = 7.07e-151 instead of 1e-150'),
    ('np.s.bt.csqrt', w_cx([complex(1e200, 1e200)]), lambda: complex(np.sqrt(np.complex128(complex(1e200, 1e200)))),
     lambda outs, val: cmp_cx([val], p_floats(outs[0]), p_floats(outs[1]), scale=1e100),
     'Model.Butter.csqrtFloat: |z| > 1e154: `re*re + im*im` overflows, the combinator answers inf+0j instead of 1.0987e100+4.5509e99j'),
    ('np.s.bt.lp2bp', w_zpk([], [complex(-1.0, -0.0)], 1.0) + [w_float(2.0), w_float(3.0)],
     lambda: __import__('scipy.signal').signal.lp2bp_zpk([], [complex(-1.0, -0.0)], 1.0, wo=2.0, bw=3.0), c_zpk(),
     'Model.Butter.lp2bp on a REAL pole r with (r*bw/2)^2 < wo^2 (the middle pole -1-0j of buttap(N), N odd; reached by every odd-order band pass '
     'with warped ratio < 3+2*sqrt(2)): SciPy returns [r\'-is, r\'+is], the combinator [r\'+is, r\'-is] (consequence of the csqrt branch-cut sign); '
     'the SET of roots, poly(p) and hence (b, a) agree'),
]


def check_known_disagreements(ctx, missing=()):
    """re-evaluate the witnesses; a witness that AGREES now is reported in ctx.notes.  Returns [(handler, description, message)]."""
    todo = [k for k in KNOWN_DISAGREEMENTS if k[0] not in missing]
    resps = core.run_driver([h + '|' + '|'.join(args) for h, args, _, _, _ in todo]) if todo else []
    out = []
    for (h, args, real, cmp, desc), resp in zip(todo, resps):
        res = call_other(real, other=('OverflowError',))
        if resp[0] == 'bad':
            msg = f"driver protocol error: {resp[1]}"
        elif res[0] == 'err' or resp[0] == 'err':
            ik, mk = (res[1] if res[0] == 'err' else 'ok'), (resp[1] if resp[0] == 'err' else 'ok')
            msg = None if ik == mk else f"outcome impl={ik} model={mk}"
        else:
            msg = cmp(resp[1], res[1])
        if msg is None:
            ctx.notes.append(f"prelude (np.s.*): known disagreement no longer reproduces - {h}|{'|'.join(args)}: {desc}")
        else:
            ctx.hist('PRELUDE-known-disagreement/' + h)
            out.append((h, desc, msg))
    return out


def run_prelude_s(ctx, budget_s=3.0):
    """differentially test every round-7 prelude combinator against the real NumPy / SciPy / Python; failures land in
    ctx.corr_failures (label 'PRELUDE <handler>').  Returns the number of requests queued."""
    t0 = time.time()
    state = ctx.rng.getstate()                       # derive a generator from ctx.rng without advancing it
    rng = random.Random('prelude-s/%d' % ctx.rng.getrandbits(64))      # a stream of its own
    ctx.rng.setstate(state)
    names = [n for n, _ in PRIMITIVES_S + OPTIONAL_S]
    try:
        missing = missing_handlers(names)
    except Exception as e:  # noqa  (driver not built / not runnable)
        ctx.notes.append(f"prelude check (np.s.*) skipped: {type(e).__name__}: {e}")
        return 0
    required_missing = sorted(missing - {n for n, _ in OPTIONAL_S})
    if required_missing:
        ctx.notes.append('prelude handler missing: ' + ', '.join(required_missing) + ' (driver not rebuilt?) - skipped')
    queued = 0
    skipped = []
    for name, gen_cases in PRIMITIVES_S + OPTIONAL_S:
        sub = random.Random(rng.getrandbits(64))    # one stream per primitive: skipping one does not shift the others
        if name in missing:
            ctx.hist('PRELUDE-missing/' + name)
            continue
        if time.time() - t0 > budget_s:
            skipped.append(name)
            continue
        for args, res, compare, inputs in gen_cases(sub):
            ctx.hist('PRELUDE/' + name)
            ctx.corr('PRELUDE ' + name, name + '|' + '|'.join(args), res, compare, inputs=inputs)
            queued += 1
    if skipped:
        ctx.notes.append(f"prelude (np.s.*) budget of {budget_s}s exhausted; not run: " + ', '.join(skipped))
    ctx.flush()
    check_known_disagreements(ctx, missing)
    ctx.hist('PRELUDE-requests', queued)
    return queued


if __name__ == '__main__':
    import os
    import sys
    from core import Ctx
    if os.environ.get('PRELUDE_DRIVER'):              # test against a scratch driver
        core.DRIVER = os.environ['PRELUDE_DRIVER']
    seed = int(sys.argv[1]) if len(sys.argv) > 1 else int(os.environ.get('VERIF_SEED', '0'))
    ctx = Ctx('PRELUDE', 'quick', seed)
    only = [a[len('--only='):].split(',') for a in sys.argv if a.startswith('--only=')]      # --only=<handler>,<handler>…: a subset
    if only:
        PRIMITIVES_S[:] = [(n, g) for n, g in PRIMITIVES_S if n in only[0]]
        KNOWN_DISAGREEMENTS[:] = [k for k in KNOWN_DISAGREEMENTS if k[0] in only[0]]
    t = time.time()
    run_prelude_s(ctx)
    ctx.flush()
    wall = time.time() - t
    bad = {}
    for f in ctx.corr_failures:
        bad[f['fn']] = bad.get(f['fn'], 0) + 1
    if '-v' in sys.argv:
        for f in ctx.corr_failures[:40]:
            print(f['fn'], '|', f['request'][:200], '|', f['message'])
        print(ctx.corr_count)
        for h, desc, msg in check_known_disagreements(Ctx('PRELUDE', 'quick', seed)):
            print('KNOWN', h, '|', msg, '|', desc)
    print(f"requests={sum(ctx.corr_count.values())} primitives={len(ctx.corr_count)} min_per_primitive={min(ctx.corr_count.values(), default=0)} "
          f"failures={len(ctx.corr_failures)} failing={bad} notes={ctx.notes} wall={wall:.2f}s")
    sys.exit(1 if ctx.corr_failures else 0)
