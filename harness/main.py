"""./check <Cxx> [--tier quick|thorough] [--replay file]  — see DESIGN §2.4"""
import argparse
import importlib
import json
import os
import sys
import time
import traceback
import warnings

warnings.simplefilter('ignore')

HERE = os.path.dirname(os.path.abspath(__file__))
sys.path.insert(0, HERE)
sys.path.insert(0, os.path.join(HERE, 'props'))

import core  # noqa: E402
import build  # noqa: E402
from core import Ctx, VERIF, write_replay, jsonable  # noqa: E402


def load_known():
    p = os.path.join(VERIF, 'known_findings.json')
    try:
        return json.load(open(p)).get('findings', [])
    except Exception:
        return []


def main():
    ap = argparse.ArgumentParser()
    ap.add_argument('prop')
    ap.add_argument('--tier', default=os.environ.get('VERIF_TIER', 'quick'), choices=['quick', 'thorough'])
    ap.add_argument('--replay', default=None)
    ap.add_argument('--no-build', action='store_true', help='(development) skip translate/build/audit')
    args = ap.parse_args()
    prop = args.prop.upper()
    seed = int(os.environ.get('VERIF_SEED', '0') or 0)
    t0 = time.time()
    # make sure the implementation under test is /repo's working tree
    sys.path.insert(0, core.REPO)
    try:
        import probe
        probe.install()      # memo / hidden-state probes (harness/probe.py): wrappers inside this process only
    except Exception as e:  # noqa
        probe = None
        print(f"note: probes not installed: {type(e).__name__}: {e}")
    try:
        mod = importlib.import_module(prop.lower())
    except ModuleNotFoundError:
        print(f"no check for {prop}")
        return 2
    ctx = Ctx(prop, args.tier, seed)

    if args.replay:
        payload = json.load(open(args.replay))
        payload['_path'] = args.replay
        if hasattr(mod, 'replay'):
            return mod.replay(ctx, payload)
        if hasattr(mod, 'replay_case') and payload.get('kind') == 'failing-input':
            return generic_replay(mod, ctx, payload)
        # deterministic re-run: every random choice of a check derives from (VERIF_SEED, property), so running the same tier with the
        # recorded seed regenerates the recorded case; the replay holds iff the recorded clause (or the recorded broken obligation)
        # no longer fails on the current tree
        seed = int(payload.get('seed', seed))
        args.tier = payload.get('tier', args.tier)
        os.environ['VERIF_SEED'] = str(seed)
        ctx = Ctx(prop, args.tier, seed)
        print(f"replay of {args.replay}: re-running {prop} tier={args.tier} seed={seed} "
              f"(recorded: {payload.get('kind')} {payload.get('clause', '')})")
        args.replay = None

    # ---- steps 0-3: translate, build, audit
    if args.no_build:
        proof = {'ok': True, 'problems': [], 'obligations': 0, 'discharged': 0, 'theorems': [], 'driver_ok': True,
                 'checker_cmd': '(skipped)', 'fallback': [], 'untranslatable': []}
    else:
        try:
            proof = build.prepare(prop, args.tier, getattr(mod, 'EXTRA_TARGETS', ()), getattr(mod, 'PROP_MODULES', None))
        except Exception as e:  # infrastructure
            print(f"INFRASTRUCTURE ERROR during build: {e}")
            traceback.print_exc()
            return 2
    ctx.proof = proof
    # ---- source hints and escalation (DESIGN §11.6): new numeric literals in the anchored files steer the search; when the translator
    # tie is lost for an anchored function (Untranslatable -> golden text) or new constants appeared, the run is tied to the source by
    # the correspondence only, so it explores as deeply as the thorough tier does
    requested_tier = args.tier
    try:
        anchor_files = []
        for l in open(os.path.join(VERIF, 'properties.jsonl')):
            pj = json.loads(l)
            if pj.get('id') == prop:
                anchor_files = list(pj.get('anchors', {}).get('files', []))
        all_hints = core.source_hints()
        ctx.hints = all_hints.restrict(anchor_files)
        fn2file = {}
        for k in core.source_literals():
            fn2file.setdefault(k.split('::')[1].split('.')[-1], set()).add(k.split('::')[0])
        lost = [u for u in proof.get('untranslatable', [])
                if not anchor_files or (fn2file.get(str(u.get('function', '')).split('.')[-1], set()) & set(anchor_files))
                or str(u.get('function', '')).split('.')[-1] not in fn2file]
        ctx.lost_tie = lost
        # the thorough exploration of C04, C11 and C12 takes about 20 minutes (exhaustive history / series spaces): too long for a check that is run
        # on every change; they keep the quick sizes (the source hints still steer them)
        if (lost or ctx.hints) and os.environ.get('VERIF_NO_ESCALATION') != '1' and args.tier == 'quick' and prop not in ('C04', 'C11', 'C12'):
            ctx.tier = 'thorough'
            ctx.escalated = True
            ctx.notes.append({'escalated': 'quick -> thorough exploration', 'because': {
                'untranslatable': [f"{u.get('function')}:{u.get('line')}" for u in lost][:10], 'new_literals': ctx.hints.describe()}})
    except Exception as e:  # noqa
        ctx.hints = core.Hints([])
        ctx.notes.append(f"source hints unavailable: {type(e).__name__}: {e}")
    if not proof.get('driver_ok', True):
        print("INFRASTRUCTURE ERROR: driver cannot be built even with the golden generated files")
        print(json.dumps(proof['problems'], indent=1)[:3000])
        return 2

    # ---- step 4: corpus + generated inputs -> impl and model -> compare; spec oracles on impl outputs
    try:
        import eqsig  # noqa
        impl_file = os.path.dirname(os.path.abspath(eqsig.__file__))
        if not impl_file.startswith(os.path.abspath(core.REPO)):
            print(f"INFRASTRUCTURE ERROR: eqsig imported from {impl_file}, expected under {core.REPO}")
            return 2
        # PRELUDE pseudo-property (DESIGN §3.2): every NumPy/SciPy primitive the hand models rely on is differentially tested
        # against the real library on every run (exact comparison, ~3000 requests, ~1 s); its disagreements are correspondence
        # disagreements of this run (labels 'PRELUDE np.*')
        _open = [k for k in load_known() if k.get('property') == prop and k.get('status') == 'open']
        _matchers = getattr(mod, 'KNOWN_MATCHERS', {})

        def _known_filter(f):
            for k in _open:
                m = _matchers.get(k['id'])
                if m is not None and m(f):
                    return k['id']
            return None
        ctx.known_filter = _known_filter
        try:
            import prelude_check
            prelude_check.run_prelude(ctx)
            import prelude_check_e
            prelude_check_e.run_prelude_e(ctx)
            import prelude_check_p
            prelude_check_p.run_prelude_p(ctx)
            import prelude_check_f
            prelude_check_f.run_prelude_f(ctx)
            import prelude_check_s
            prelude_check_s.run_prelude_s(ctx)
            ctx.flush()
        except ImportError:
            ctx.notes.append('prelude_check not available')
        if probe is not None:
            probe.enable(ctx)
        mod.run(ctx)
        ctx.flush()
        # defaults / parameter order of the anchored public functions of this property (harness/props/_sig.py)
        import _sig
        _sig.run_sig(ctx, prop)
        ctx.flush()
        if probe is not None:
            probe.disable()
            ctx.notes.append({'probe': probe.summary()})
    except Exception as e:
        # an exception escaping the harness is an infrastructure problem, not a verdict — unless it was raised INSIDE the implementation by a call the
        # harness makes unguarded because it cannot fail on the pinned tree (reference values, set-up calls): then the implementation raised on an input of
        # the property's domain where it used to return, which is a failing input (the traceback is the replay); the rest of the module's run is lost
        tb = traceback.extract_tb(e.__traceback__)
        impl_root = os.path.join(os.path.abspath(core.REPO), 'eqsig')
        in_impl = [fr_ for fr_ in tb if os.path.abspath(fr_.filename).startswith(impl_root)]
        if in_impl and tb and os.path.abspath(tb[-1].filename).startswith(impl_root):
            last_h = [fr_ for fr_ in tb if not os.path.abspath(fr_.filename).startswith(impl_root)][-1:]
            try:
                ctx.flush()
            except Exception:  # noqa
                pass
            ctx.oracle(f"{prop} the implementation returns on the inputs of the property's domain (it raised {type(e).__name__} inside a call that cannot fail on the pinned tree)",
                       False, inputs={'harness_call': (f"{os.path.basename(last_h[0].filename)}:{last_h[0].lineno}: {last_h[0].line}" if last_h else '?'),
                                      'raised_at': f"{os.path.relpath(in_impl[-1].filename, core.REPO)}:{in_impl[-1].lineno}: {in_impl[-1].line}"},
                       detail={'exception': f"{type(e).__name__}: {e}", 'traceback': traceback.format_exc()[-3000:]},
                       facts={'fn': 'harness-unguarded-call'})
            ctx.notes.append('the module run was aborted by an exception raised inside the implementation; later sections did not run')
            if probe is not None:
                probe.disable()
        else:
            print(f"INFRASTRUCTURE ERROR in harness: {type(e).__name__}: {e}")
            traceback.print_exc()
            return 2

    # ---- step 5: decide
    known = [k for k in load_known() if k.get('property') == prop]
    open_known = [k for k in known if k.get('status') == 'open']
    matchers = getattr(mod, 'KNOWN_MATCHERS', {})
    printed_known = []
    unexplained = []
    # a known finding is a behaviour of the pinned code, which the model reproduces: an oracle failure on an input where the model
    # and the implementation DISAGREE is therefore a different violation and is not attributed to a known finding
    corr_inputs = {json.dumps(c.get('inputs'), sort_keys=True) for c in ctx.corr_failures if c.get('inputs') is not None}
    unexplained = list(ctx.oracle_failures)
    known_hits = getattr(ctx, 'known_hits', [])
    for f in known_hits:
        if json.dumps(f.get('inputs'), sort_keys=True) in corr_inputs:
            f['not_known_because'] = f"matches {f.pop('known')} but model and implementation disagree on this input"
            unexplained.append(f)
    # every open finding's witness is replayed by the property module (mod.known_witness) and printed if it still fails
    for k in open_known:
        still = True
        w = getattr(mod, 'known_witness', None)
        if w is not None:
            try:
                still = bool(w(k['id']))
            except Exception as e:  # noqa
                still = True
        if still:
            line = f"KNOWN-FINDING: property={prop} {k['id']} {k['what']}"
            print(line)
            printed_known.append(line)
        else:
            ctx.notes.append(f"known finding {k['id']} no longer reproduces on its witness")

    violations = []
    if unexplained:
        f = unexplained[0]
        path = write_replay(prop, {'property': prop, 'kind': 'failing-input', 'clause': f['clause'], 'inputs': f['inputs'],
                                   'detail': f['detail'], 'facts': f['facts'], 'seed': seed, 'tier': args.tier,
                                   'n_failing_cases': len(unexplained),
                                   'other_clauses': sorted({g['clause'] for g in unexplained})[:20]})
        violations.append(f"VIOLATION property={prop} replay={path}")
    broken = []
    if not proof['ok']:
        broken.append({'what': 'proof obligations', 'problems': proof['problems']})
    if ctx.corr_failures:
        broken.append({'what': 'correspondence model vs implementation', 'n': len(ctx.corr_failures),
                       'first': ctx.corr_failures[:5]})
    if broken and not violations:
        # the failing-input search: the spec oracles above ran on every generated case and on the corpus; the
        # property module may add a targeted search around the disagreeing inputs
        found = None
        if hasattr(mod, 'search'):
            try:
                found = mod.search(ctx, broken)
            except Exception as e:  # noqa
                ctx.notes.append(f"search raised {type(e).__name__}: {e}")
        if found:
            path = write_replay(prop, {'property': prop, 'kind': 'failing-input', 'seed': seed, 'tier': args.tier, **found})
            violations.append(f"VIOLATION property={prop} replay={path}")
        else:
            path = write_replay(prop, {'property': prop, 'kind': 'no-failing-input-found', 'seed': seed, 'tier': args.tier,
                                       'no_longer_checks': broken})
            violations.append(f"VIOLATION property={prop} replay={path} no-failing-input-found")
    elif broken and violations:
        ctx.notes.append({'also_broken': jsonable(broken)})

    # ---- step 6: evidence
    wall = time.time() - t0
    cov = {
        'obligations': max(int(proof.get('obligations', 0)), 0),
        'discharged': int(proof.get('discharged', 0)),
        'checker_cmd': proof.get('checker_cmd', ''),
        'trusted_base': core.TRUSTED_BASE + list(getattr(mod, 'TRUSTED_EXTRA', [])),
        'evaluations': ctx.evaluations,
        'distinct_nontrivial': len(ctx.hashes_nontrivial),
        'rule': getattr(mod, 'RULE', ''),
        'samples': ctx.samples[:8] + [{'theorem': t['name'], 'status': t.get('status'), 'axioms': t.get('axioms')}
                                      for t in proof.get('theorems', [])[:60]],
        'theorems': proof.get('theorems', []),
        'tie': getattr(mod, 'TIE', 'correspondence'),
        'input_distribution': dict(sorted(ctx.dist.items())),
        'correspondence_cases': dict(sorted(ctx.corr_count.items())),
        'correspondence_disagreements': len(ctx.corr_failures),
        'oracle_evaluations': dict(sorted(ctx.oracle_count.items())),
        'oracle_failures': len(unexplained),
        'oracle_failures_explained_by_known_findings': dict(sorted(getattr(ctx, 'known_count', {}).items())),
        'max_rounding_gap': {k: v for k, v in sorted(ctx.max_gap.items())},
        'not_proved': list(getattr(mod, 'NOT_PROVED', [])),
        'known_findings_printed': printed_known,
        'translator_fallback': proof.get('fallback', []),
        'untranslatable': proof.get('untranslatable', []),
        'source_hints': ctx.hints.describe() if getattr(ctx, 'hints', None) else [],
        'escalated': bool(getattr(ctx, 'escalated', False)),
        'build_s': proof.get('build_s'),
        'notes': _cap(jsonable(ctx.notes)),
        'exhaustive': bool(getattr(mod, 'EXHAUSTIVE', False)),
    }
    ev = {
        'property_id': prop, 'tier': args.tier, 'seed': seed, 'level': 'proof', 'coverage': cov,
        'assumptions': list(getattr(mod, 'ASSUMPTIONS', [])),
        'wall_s': round(wall, 2), 'violations': len(violations),
    }
    # evidence/ only ever holds runs against /repo itself; a run against a scratch copy (EQSIG_REPO, maintenance) or a
    # development run without build/audit (--no-build) writes elsewhere
    ev_dir = os.path.join(VERIF, 'evidence') if (os.path.realpath(core.REPO) == os.path.realpath('/repo') and not args.no_build) else os.path.join(VERIF, '.work', 'evidence_scratch')
    os.makedirs(ev_dir, exist_ok=True)
    with open(os.path.join(ev_dir, f'{prop}.json'), 'w') as f:
        json.dump(jsonable(ev), f, indent=1, sort_keys=True)
    for v in violations:
        print(v)
    print(f"{prop} tier={args.tier} seed={seed} theorems={cov['discharged']}/{cov['obligations']} "
          f"cases={ctx.evaluations} distinct_nontrivial={len(ctx.hashes_nontrivial)} "
          f"corr_disagreements={len(ctx.corr_failures)} oracle_failures={len(unexplained)} "
          f"known={len(printed_known)}({sum(getattr(ctx, 'known_count', {}).values())} cases) wall={wall:.1f}s -> {'FAIL' if violations else 'ok'}")
    return 1 if violations else 0


def _cap(o, depth=0):
    """keep the evidence file small: long strings and long lists inside notes are truncated (the replay files hold the details)"""
    if isinstance(o, str):
        return o if len(o) <= 1500 else o[:1500] + f' …[{len(o) - 1500} more characters]'
    if isinstance(o, dict):
        items = list(o.items())
        out = {str(k): _cap(v, depth + 1) for k, v in items[:60]}
        if len(items) > 60:
            out['…'] = f'{len(items) - 60} more keys'
        return out
    if isinstance(o, (list, tuple)):
        out = [_cap(v, depth + 1) for v in list(o)[:40]]
        if len(o) > 40:
            out.append(f'…[{len(o) - 40} more items]')
        return out
    return o


def generic_replay(mod, ctx, payload):
    print(json.dumps(payload, indent=1)[:4000])
    if hasattr(mod, 'replay_case'):
        ok = mod.replay_case(ctx, payload)
        print('replay:', 'property holds on this input now' if ok else 'STILL FAILS')
        if not ok:
            print(f"VIOLATION property={ctx.prop} replay={payload.get('_path', '?')}")
        return 0 if ok else 1
    print("(no executable replay for this payload kind; see 'no_longer_checks')")
    return 1


if __name__ == '__main__':
    try:
        rc = main()
    except Exception as e:  # noqa
        print(f"INFRASTRUCTURE ERROR: {type(e).__name__}: {e}")
        traceback.print_exc()
        rc = 2
    sys.exit(rc)
