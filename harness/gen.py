"""input generators shared by the property modules. Every random choice comes from the Ctx's PRNG."""
import math
import numpy as np


def dyadic_record(rng, n, amp=8, bits=3):
    """values k * 2^-bits with |k| <= amp*2^bits: every + - * of a few of them is exact in binary64"""
    s = 1 << bits
    return np.array([rng.randint(-amp * s, amp * s) / s for _ in range(n)], dtype=float)


def int_record(rng, n, lo=-3, hi=3):
    return np.array([rng.randint(lo, hi) for _ in range(n)], dtype=float)


def plateau_record(rng, n, levels=(-2, -1, 0, 1, 2), p_repeat=0.4):
    out = []
    cur = rng.choice(levels)
    for _ in range(n):
        if rng.random() > p_repeat:
            cur = rng.choice(levels)
        out.append(cur)
    return np.array(out, dtype=float)


def noise_record(rng, n, amp=1.0):
    return np.array([rng.gauss(0, 1) * amp for _ in range(n)], dtype=float)


def sine_record(rng, n, dt, amp=1.0):
    f = rng.uniform(0.2, 0.45 / dt) if dt > 0 else 1.0
    ph = rng.uniform(0, 2 * math.pi)
    return amp * np.sin(2 * math.pi * f * dt * np.arange(n) + ph)


def spike_record(rng, n, amp=1.0):
    a = np.zeros(n)
    a[rng.randrange(n)] = amp * rng.choice([-1, 1])
    return a


def step_record(rng, n, amp=1.0):
    a = np.zeros(n)
    a[rng.randrange(n):] = amp
    return a


def any_record(rng, n, dt=0.01):
    """(kind, record) — mixture used by most properties"""
    k = rng.choice(['dyadic', 'int', 'plateau', 'noise', 'sine', 'spike', 'step', 'big', 'tiny'])
    if k == 'dyadic':
        return k, dyadic_record(rng, n)
    if k == 'int':
        return k, int_record(rng, n)
    if k == 'plateau':
        return k, plateau_record(rng, n)
    if k == 'noise':
        return k, noise_record(rng, n)
    if k == 'sine':
        return k, sine_record(rng, n, dt)
    if k == 'spike':
        return k, spike_record(rng, n)
    if k == 'step':
        return k, step_record(rng, n)
    if k == 'big':
        return k, noise_record(rng, n, 1e6)
    return k, noise_record(rng, n, 1e-6)


DYADIC_KINDS = {'dyadic', 'int', 'plateau', 'spike', 'step'}


def dyadic_dt(rng):
    return rng.choice([1.0, 0.5, 0.25, 0.125, 0.0625, 2.0])


NEAR_RATE_DTS = [0.01000005, 1 / 49.9996, 0.0200001, 0.00999995, 1 / 100.0005, 0.005 * (1 + 2.0 ** -30), 1 / 199.9993]


def any_dt(rng):
    u = rng.random()
    if u < 0.1:
        return rng.choice(NEAR_RATE_DTS)        # 1/dt NEAR a whole number but not equal to it: nobody may 'snap' a time step
    return rng.choice([0.01, 0.005, 0.02, 0.1, 0.001, 1.0, 0.05]) if u < 0.73 else 10 ** rng.uniform(-3, 0)


def log_int(rng, lo, hi):
    return int(round(math.exp(rng.uniform(math.log(lo), math.log(hi)))))


def nontrivial_record(a):
    a = np.asarray(a)
    return len(a) >= 3 and len(set(a.tolist())) > 1


def container_variants(v, floats32=True, arrays_only=False):
    """the same numbers in other containers / dtypes (label, object): Python list / tuple of floats always; integer ndarray (int64,
    int32) and list of Python ints when every value is a whole number; float32 ndarray when every value is exactly representable in
    single precision; a non-contiguous float64 view. A property that quantifies over 'every record' covers all of them."""
    a = np.asarray(v, dtype=float)
    out = [] if arrays_only else [('list', [float(x) for x in a]), ('tuple', tuple(float(x) for x in a))]
    if a.size and np.all(np.isfinite(a)) and np.all(a == np.round(a)) and np.max(np.abs(a)) < 2 ** 31:
        out.append(('int64', a.astype(np.int64)))
        out.append(('int32', a.astype(np.int32)))
        if not arrays_only:
            out.append(('list-int', [int(x) for x in a]))
    if floats32 and a.size and np.all(np.isfinite(a)) and np.array_equal(a.astype(np.float32).astype(float), a):
        out.append(('float32', a.astype(np.float32)))
    if a.ndim == 1 and a.size:
        wide = np.empty(2 * a.size, dtype=float)
        wide[::2] = a
        wide[1::2] = 12345.0
        out.append(('strided', wide[::2]))
    return out


def aged_signal(rng, cls, values, dt, **kw):
    """an eqsig Signal/AccSignal holding (values, dt) that reached this state through a HISTORY instead of the constructor
    (label, object): built with a record of another length and reset, caches filled before or after the reset, a shallow copy whose sibling
    was changed, a child derived from analysed parents, an object that went through a windowed baseline correction or the deprecated
    statistics generators before the record was replaced, …
    Every function that takes a signal object must treat these exactly like a fresh object."""
    values = np.array(values, dtype=float)
    kinds = ['fresh', 'reset-other-length', 'reset-same-length', 'read-all', 'read-reset', 'reset-shorter']
    is_acc = cls.__name__ == 'AccSignal'
    n = len(values)
    # round 7: state that survives in places clear_cache does not know about / objects derived from other objects
    kinds += ['copy-fork', 'stats-then-reset']
    if is_acc and n >= 4:
        kinds += ['combined-child', 'windowed-correction-then-reset', 'resampled-child']
    kinds += ['nondefault-generators-then-reset']          # round 7 (hx_r7d): see _aged_nondefault at the end of this file
    pick = kw.pop('_pick', None)
    kind = pick(kinds) if pick is not None else rng.choice(kinds)
    if kind == 'fresh':
        return kind, cls(values, dt, **kw)
    if kind == 'nondefault-generators-then-reset':
        return kind, _aged_nondefault(rng, cls, values, dt, **kw)
    if kind == 'read-all':
        s = cls(values, dt, **kw)
        _touch(s)
        return kind, s
    if kind == 'copy-fork':
        # a shallow copy shares every mutable attribute with its sibling: changing and reading the sibling must not reach this object
        import copy
        s = cls(values, dt, **kw)
        if rng.random() < 0.7:
            _touch(s)
        sib = copy.copy(s)
        try:
            other = np.array([rng.uniform(-3, 3) for _ in range(n)])
            # round 9 (hx_r9a): the sibling's record is of the same size, MUCH quieter or MUCH louder than this object's (peaks on either side of
            # any gate / early exit), in turn (a per-process counter: the random stream of every caller is unchanged)
            aged_signal._fork_no = getattr(aged_signal, '_fork_no', -1) + 1
            other = other * (1e-3, 1e3, 1.0)[aged_signal._fork_no % 3]
            sib.reset_values(other)
            _touch(sib)
            for nm in ('pga', 'pgv', 'pgd'):            # the sibling's peaks are read (and cached) last, before the original is handed out
                try:
                    getattr(sib, nm)
                except Exception:
                    pass
        except Exception:
            pass
        return kind, s
    if kind == 'stats-then-reset':
        other = np.array([rng.uniform(-1, 1) for _ in range(n)])
        s = cls(other, dt, **kw)
        _touch(s)
        for nm in ('generate_cumulative_stats', 'generate_peak_values', 'generate_displacement_and_velocity_series'):
            f = getattr(s, nm, None)
            if f is not None:
                try:
                    f()
                except Exception:
                    pass
        s.reset_values(values)
        return kind, s
    if kind == 'windowed-correction-then-reset':
        other = np.array([rng.uniform(-1, 1) for _ in range(n)])
        s = cls(other, dt, **kw)
        if rng.random() < 0.5:
            _touch(s)
        i0 = rng.randint(1, max(1, n // 2))
        i1 = rng.randint(i0 + 1, n) if rng.random() < 0.7 else None
        tz = (i0 * dt, None if i1 is None else i1 * dt)
        for nm in ('set_zero_residual_displacement_and_velocity', 'set_zero_residual_velocity'):
            try:
                getattr(s, nm)(timezone=tz)
                _touch(s)
            except Exception:
                pass
        s.reset_values(values)
        return kind, s
    if kind == 'combined-child':
        # a new object made by the library itself from analysed parents (angle 0: ns * cos(0) + we * sin(0) == ns exactly)
        import eqsig
        ns = cls(values, dt, **kw)
        we = cls(np.zeros(n), dt)
        try:
            ns.generate_displacement_and_velocity_series(trap=False)
        except Exception:
            pass
        _touch(ns)
        _touch(we)
        try:
            child = eqsig.combine_at_angle(ns, we, 0.0)
            if isinstance(child, cls) and np.array_equal(child.values, values) and child.dt == dt:
                for k_, v_ in kw.items():
                    setattr(child, k_, v_)
                return kind, child
        except Exception:
            pass
        return 'fresh', cls(values, dt, **kw)
    if kind == 'resampled-child':
        # a child made by the resampling helpers from an analysed parent, then given the record
        from eqsig.fns import time_step
        other = np.array([rng.uniform(-1, 1) for _ in range(n + rng.randint(0, 3))])
        parent = cls(other, dt, **kw)
        _touch(parent)
        try:
            from eqsig import stockwell
            if len(other) <= 300:
                stockwell.get_max_stockwell_freq(parent)
        except Exception:
            pass
        try:
            child = (time_step.interp_to_approx_dt if rng.random() < 0.5 else time_step.resample_to_approx_dt)(parent, dt)
            if isinstance(child, cls) and child.dt == dt:
                child.reset_values(values)
                for k_, v_ in kw.items():
                    setattr(child, k_, v_)
                return kind, child
        except Exception:
            pass
        return 'fresh', cls(values, dt, **kw)
    if kind == 'reset-other-length':
        other = np.array([rng.uniform(-1, 1) for _ in range(n + rng.randint(1, max(2, n)))])
    elif kind == 'reset-shorter':
        other = np.array([rng.uniform(-1, 1) for _ in range(max(2, n - rng.randint(1, max(1, n // 2))))])
    else:
        other = np.array([rng.uniform(-1, 1) for _ in range(n)])
    s = cls(other, dt, **kw)
    if kind == 'read-reset' or rng.random() < 0.5:
        _touch(s)
    s.reset_values(values)
    return kind, s


def _touch(s):
    """fill the lazily cached quantities of a signal object"""
    for name in ('npts', 'time', 'fa_spectrum', 'fa_frequencies', 'smooth_fa_spectrum', 'velocity', 'displacement', 'pga', 'pgv', 'pgd',
                 's_a', 's_v', 's_d'):
        try:
            getattr(s, name)
        except Exception:
            pass


def scaled_exactly(x, y, k):
    """x == k*y bit for bit wherever k*y is a normal number: scaling by a power of two commutes with every rounding of + - * /
    (and with sqrt for even powers) except gradual underflow and overflow, so a quantity that is homogeneous of degree one in its
    input must reproduce this EXACTLY, also for k = 2^-600 or 2^+600 (guards against 'no energy' shortcuts, squared magnitudes that
    under/overflow, absolute tolerances)"""
    x = np.asarray(x)
    y = np.asarray(y)
    if x.shape != y.shape:
        return False
    with np.errstate(over='ignore', under='ignore', invalid='ignore'):
        ky = k * y
    if not np.all(np.isfinite(ky)):
        return bool(np.all(np.isfinite(x) == np.isfinite(ky)))
    # exact wherever both the base value and the scaled value are far above the subnormal range (a base value that went subnormal --
    # a heavily damped stiff oscillator decays below 1e-308 within a record -- has lost bits that the scaled run still has)
    normal = (np.abs(ky) > 1e-250) & (np.abs(y) > 1e-250)
    return bool(np.array_equal(x[normal], ky[normal]) and np.all(np.abs(x[~normal] - ky[~normal]) <= 1e-250 * max(1.0, abs(k))))


EXTREME_POW2 = (-600, 600, -350, 350)


def narrow_int_variants(v):
    """whole-number records (|x| <= 3) blown up so that differences / products of neighbouring samples overflow the dtype if the
    arithmetic were done in it: int32 x 100000, int16 x 200, int64 x 3e9, int8 x 40; uint16 (shifted to be non-negative) x 200.
    (label, integer ndarray, the same numbers as float64)"""
    a = np.asarray(v, dtype=float)
    if not (a.size and np.all(a == np.round(a)) and np.max(np.abs(a)) <= 3):
        return []
    out = []
    for label, dt, fac, shift in (('int32x1e5', np.int32, 100000, 0), ('int16x200', np.int16, 200, 0), ('int64x3e9', np.int64, 3000000000, 0),
                                  ('int8x40', np.int8, 40, 0), ('uint16x200', np.uint16, 200, 3), ('uint8x40', np.uint8, 40, 3)):
        f = (a + shift) * fac
        out.append((label, f.astype(dt), f.copy()))
    return out


def refill_oracle(ctx, clause, fns, rng, make, n_rep=6, inputs_extra=None):
    """the result of an array function depends on the CONTENT of its argument, not on the identity of the array object: analyse a buffer,
    refill the SAME ndarray object in place with another record, analyse again -> must equal the analysis of a fresh array with that
    content (no memo keyed on id() / a weak reference).  fns: {label: f(array)}; make(rng) -> float ndarray (same length each time)."""
    from core import call_impl
    for _ in range(n_rep):
        first, second = make(rng), make(rng)
        if first.shape != second.shape:
            continue
        for label, f in fns.items():
            buf = np.array(first, copy=True)
            r1 = call_impl(f, buf)
            op = rng.choice(['refill', 'negate', 'one-sample'])
            if op == 'refill':
                buf[...] = second
            elif op == 'negate':
                buf *= -1.0
            else:
                buf[rng.randrange(len(buf))] += 5.0
            got = call_impl(f, buf)                               # FIRST the same object (a 'last call' memo still points at it) ...
            want = call_impl(f, np.array(buf, copy=True))         # ... then a fresh array with the same content
            ok = want[0] == got[0] and (want[0] != 'ok' or _same_any(want[1], got[1]))
            ctx.hist('same array object changed in place and analysed again/' + op)
            ctx.oracle(clause % label, ok, {'first_content': first, 'then_in_place': op, 'content_at_second_call': np.array(buf, copy=True), **(inputs_extra or {})},
                       detail=None if ok else {'fresh array': want[1] if want[0] != 'ok' else _brief_any(want[1]), 'same object': got[1] if got[0] != 'ok' else _brief_any(got[1]),
                                               'first call': r1[0]})


def _same_any(a, b):
    if isinstance(a, tuple) or isinstance(b, tuple):
        return isinstance(a, tuple) and isinstance(b, tuple) and len(a) == len(b) and all(_same_any(x, y) for x, y in zip(a, b))
    a, b = np.asarray(a), np.asarray(b)
    return a.shape == b.shape and bool(np.array_equal(a, b, equal_nan=True) if a.dtype.kind in 'fc' else np.array_equal(a, b))


def _brief_any(r):
    if isinstance(r, tuple):
        return [_brief_any(x) for x in r]
    a = np.asarray(r).reshape(-1)
    return a[:8].tolist()


def dt_variants(dt):
    """the same time step held by other objects a caller may plausibly pass (np.load(...)['dt'] is a 0-d array): (label, object)"""
    out = [('np.float64', np.float64(dt)), ('0-d array', np.array(float(dt))), ('1-element array', np.array([float(dt)]))]
    if float(np.float32(dt)) == float(dt):
        out.append(('np.float32', np.float32(dt)))
    if float(dt) == int(dt):
        out.append(('int', int(dt)))
    return out


def dt_oracle(ctx, clause, f, rng, dt, same, inputs):
    """f(dt_object) -> result.  For every variant: the dt object is unchanged by the call, a second call gives the same result, and the
    result equals that for the plain float (where the variant is accepted; a loud TypeError/ValueError is a restriction of the domain)"""
    from core import call_impl
    base = call_impl(f, float(dt))
    if base[0] != 'ok':
        return
    for label, obj in dt_variants(dt):
        keep = np.array(obj, copy=True)
        r1 = call_impl(f, obj)
        unchanged = np.array_equal(np.asarray(obj), keep) and np.asarray(obj).dtype == keep.dtype
        r2 = call_impl(f, obj)
        ctx.hist('dt held by/' + label + ('' if r1[0] == 'ok' else ' (rejected: %s)' % r1[1]))
        ok = unchanged and r1[0] == r2[0] and (r1[0] != 'ok' or (same(r1[1], r2[1]) and (label == '1-element array' or same(r1[1], base[1]))))
        ctx.oracle(clause, ok, {**inputs, 'dt': float(dt), 'dt_held_by': label},
                   detail=None if ok else {'dt_object_unchanged': bool(unchanged), 'dt_object_now': np.asarray(obj).tolist(), 'first_call': r1[0] if r1[0] != 'ok' else 'result',
                                           'second_call_same': r1[0] == r2[0] and (r1[0] != 'ok' or same(r1[1], r2[1]))})


# ---- source hints (DESIGN §11.6, lesson 19): the numeric literals the CURRENT source has and the pinned source has not (ctx.hints, core.Hints)
# steer the generators -- sizes around every new integer constant, parameter values around every new float constant.  Both helpers return []
# on the unchanged tree (no hints), so the property modules behave exactly as before there.

def hint_sizes(ctx, lo=2, hi=2 ** 22, cap=6, halves=False):
    """lengths / counts around every new integer constant v inside [lo, hi]: v+1, v, v+2, 2v+1, v-1 (halves=True: also 2v+2, 2v+3, so that
    n // 2 straddles v), 'just above' first and round-robin over the constants (largest first), so that a cap never drops the size just above
    any constant before the less telling neighbours of another one."""
    h = getattr(ctx, 'hints', None)
    if not h:
        return []
    consts = sorted(h.ints(2, hi), reverse=True)
    offs = [lambda v: v + 1, lambda v: v, lambda v: v + 2, lambda v: 2 * v + 1, lambda v: v - 1]
    if halves:
        offs = [lambda v: v + 1, lambda v: 2 * v + 2, lambda v: v, lambda v: 2 * v + 3, lambda v: 2 * v + 1, lambda v: v + 2, lambda v: 2 * v, lambda v: v - 1]
    out = []
    for f in offs:
        for v in consts:
            c = f(v)
            if lo <= c <= hi and c not in out:
                out.append(c)
    return out[:cap]


def hint_values(ctx, lo, hi, cap=12, maps=(lambda c: c,)):
    """values of a continuous parameter at / around every new numeric constant c (ctx.hints.near_values: c, 0.999c, 1.001c, 0.5c, 2c, 0.9c, 1.1c),
    kept when inside the property's domain [lo, hi] for that parameter.  maps: how the parameter follows from the constant when the constant
    bounds a DERIVED quantity (e.g. the parameter is T/dt and the constant bounds w*dt: lambda c: 2*pi/c).  Round-robin: the exact constant and its
    closest neighbours of every constant come before the wider neighbours of any."""
    h = getattr(ctx, 'hints', None)
    if not h:
        return []
    near = h.near_values(cap=10 ** 6)
    groups = [near[i:i + 7] for i in range(0, len(near), 7)]
    out = []
    for k in range(7):
        for g in groups:
            if k >= len(g):
                continue
            for f in maps:
                for x in (g[k], -g[k]):
                    try:
                        y = float(f(x))
                    except (ZeroDivisionError, OverflowError, ValueError):
                        continue
                    if y == y and lo <= y <= hi and y not in out:
                        out.append(y)
    return out[:cap]


def hint_consts(ctx, lo=2, hi=2 ** 22, cap=8):
    """integer constants the changed source may be USING, inside [lo, hi]: the new integer literals themselves (core.source_literals folds constant
    arithmetic: `2 ** 16` arrives as 2, 16 and 65536), then the values two new literals of the same function can form (a ** b, a * b,
    1 << b == 2 ** b: a constant built in two statements, `KB = 1024; BLOCK = 64 * KB`); largest first within each group.  [] without hints."""
    h = getattr(ctx, 'hints', None)
    if not h:
        return []
    by_fn = {}
    for e in h.new:
        v = e.get('value')
        if isinstance(v, float) and v.is_integer() and abs(v) < 2 ** 53:
            v = int(v)
        if isinstance(v, int) and not isinstance(v, bool) and 1 <= abs(v) <= hi:
            by_fn.setdefault(e.get('function'), set()).add(abs(v))
    raw, derived = set(), set()
    for vals in by_fn.values():
        for a in vals:
            if a >= 2:
                raw.add(a)
            if a <= 62:
                derived.add(2 ** a)
            for b in vals:
                if a >= 2 and b >= 2:
                    derived.add(a * b)
                    if b * math.log(a) <= math.log(hi) + 1:
                        derived.add(a ** b)
    derived = sorted((c for c in derived if lo <= c <= hi and c not in raw), reverse=True)
    raw = sorted((c for c in raw if lo <= c <= hi), reverse=True)
    return (raw + derived)[:cap]


# ---- round 7 (hx_r7b): "ulp-extremum" series -- neighbouring samples that differ in the last bits, AT turning points, on plateaus and at the ends ------
# Every double is a rational number, so the exact models and the exact (Fraction) oracles of C11 / C12 / C13 apply unchanged: a sample one unit in
# the last place above its neighbours IS a strict local maximum, two samples one ulp apart are NOT a plateau.  (Guards against 'equal up to
# round-off' comparisons: np.isclose, a tolerance of a few eps times the magnitude, float32 round trips, rounding to n digits.)
# Zero samples are never moved (the neighbours of 0 are subnormal: products of neighbouring differences would underflow -- documented limitation).

ULP_MAGS = (0.3, 1e-3, 1e3, 7.0, 1.0 / 3, 123.456, 1.0, 0.1, 2.5e-3, 640.0, 1.9999, 4.0e-2)


def ulp_move(x, k):
    """the double k units in the last place away from x (k < 0: towards -inf); 0.0 and non-finite values stay"""
    x = float(x)
    if x == 0.0 or not math.isfinite(x):
        return x
    for _ in range(abs(int(k))):
        x = float(np.nextafter(x, math.inf if k > 0 else -math.inf))
    return x


def one_binade_levels(e):
    """8 levels strictly inside the binade [2^e, 2^(e+1)): every sum / difference of these levels and of their ulp-neighbours is exact in binary64
    (all are multiples of 2^(e-52) below 2^(e+1)) -- for properties whose clauses are equalities on computed differences (C13)"""
    return tuple(2.0 ** e * (1 + j / 16) for j in (2, 4, 5, 7, 9, 11, 12, 14))


def ulp_extremum_series(rng, n, one_binade=False, kinds=None):
    """(kind, float ndarray of length n >= 4).  kinds:
    'plateau-ripple'  a plateau-rich few-level series at a magnitude of ULP_MAGS (or inside one binade), 15-60 % of the non-zero samples moved by +-1..3 ulp:
                      plateaus become last-bit zigzags / creeps, crests that are plateaus get a strict extremum inside, the ends differ by ulps;
    'crest'           monotone runs joined by crests / troughs of 2-4 samples within 1-3 ulp of each other whose strict extremum is a middle or an end sample
                      (..., 0.3, 0.1+0.2, 0.3, ...), first / last samples within ulps of their neighbours;
    'fine-crest'      A*cos((i-c)*h) with h ~ 1e-8: a smooth signal sampled so finely that neighbouring samples at the crest differ by a few ulps or not at all;
    'ulp-only'        a constant non-zero level, every sample moved by -2..2 ulp."""
    n = max(int(n), 4)
    kind = rng.choice(kinds or ['plateau-ripple', 'plateau-ripple', 'crest', 'crest', 'fine-crest', 'ulp-only'])
    if one_binade:
        lv = one_binade_levels(rng.choice([-10, -1, 0, 3, 9]))
        sgn = rng.choice([1.0, -1.0])
        levels = [sgn * x for x in lv]
        mag = None
    else:
        mag = rng.choice(ULP_MAGS) * rng.choice([1.0, 1.0, -1.0])
        levels = [mag * j for j in (-2, -1, 0, 1, 2, 3)]
    if kind == 'fine-crest':
        if one_binade:
            kind = 'crest'
        else:
            h = rng.choice([1e-8, 3e-8, 1e-7, 2e-9])
            c = rng.uniform(0.2, 0.8) * n
            v = mag * np.cos((np.arange(n) - c) * h)
            if rng.random() < 0.5:                     # ... followed by the mirrored trough of the other sign
                v = np.concatenate([v[:n // 2 + 1], -v[::-1][:n - n // 2 - 1]])
            return kind, np.array(v, dtype=float)
    if kind == 'ulp-only':
        base = rng.choice([x for x in levels if x != 0])
        return kind, np.array([ulp_move(base, rng.randint(-2, 2)) for _ in range(n)], dtype=float)
    if kind == 'plateau-ripple':
        b = plateau_record(rng, n, levels=levels, p_repeat=rng.choice([0.4, 0.6, 0.8]))
        q = rng.choice([0.15, 0.3, 0.6])
        return kind, np.array([ulp_move(x, rng.choice([-3, -2, -1, 1, 2, 3])) if rng.random() < q else x for x in b], dtype=float)
    # 'crest'
    out = []
    cur = rng.choice(levels)
    up = rng.random() < 0.5
    nz = [x for x in levels if x != 0]
    while len(out) < n:
        # a crest / trough: 2-4 samples within ulps of one non-zero level; the strict extremum anywhere among them
        top = rng.choice([x for x in nz if (x > cur) == up and x != cur] or nz)
        m = rng.randint(2, 4)
        offs = [rng.randint(-3, 3) for _ in range(m)] if rng.random() < 0.6 else [0] * m
        if rng.random() < 0.6:
            j = rng.randrange(m)
            offs = [0] * m
            offs[j] = rng.choice([1, 2, 3]) * (1 if (top > 0) == up else -1) * (1 if rng.random() < 0.8 else -1)
        # monotone run towards the crest (1-3 intermediate samples, exact fractions of the way are not needed: any values strictly between)
        k = rng.randint(0, 3)
        run = sorted([cur + (top - cur) * rng.choice([0.25, 0.5, 0.75]) for _ in range(k)], reverse=top < cur) if not one_binade else \
            sorted([x for x in levels if min(cur, top) < x < max(cur, top)][:k], reverse=top < cur)
        out += run + [ulp_move(top, o) for o in offs]
        cur = top
        up = not up
    out = out[:n]
    if rng.random() < 0.4 and out[0] != 0:
        out[1] = ulp_move(out[0], rng.choice([-2, -1, 1, 2]))
    if rng.random() < 0.4 and out[-1] != 0:
        out[-2] = ulp_move(out[-1], rng.choice([-2, -1, 0, 1, 2]))
    return kind, np.array(out, dtype=float)


def ulp_extremum_exhaustive(max_k=4, offsets=(-1, 0, 1), mags=(0.3, 1e3, 7e-3), one_binade=False):
    """every pattern of ulp offsets of length 2..max_k on one non-zero level L, alone and embedded in the four contexts rise-fall (l, pattern, l), rise-rise
    (l, pattern, h), fall-rise (h, pattern, h), fall-fall (h, pattern, l) -- the magnitude rotates over `mags`.  Yields (label, tuple of floats)."""
    import itertools
    i = 0
    for k in range(2, max_k + 1):
        for offs in itertools.product(offsets, repeat=k):
            for cname in ('alone', 'rise-fall', 'rise-rise', 'fall-rise', 'fall-fall'):
                m = mags[i % len(mags)]
                i += 1
                if one_binade:
                    lv = one_binade_levels({0.3: -2, 1e3: 9, 7e-3: -8}.get(m, 0))
                    lo, L, hi = lv[1], lv[4], lv[6]
                else:
                    lo, L, hi = m / 3, m, m * 1.7
                mid = tuple(ulp_move(L, o) for o in offs)
                if cname == 'alone':
                    if len(set(mid)) < 2:
                        continue
                    v = mid
                else:
                    a, b = {'rise-fall': (lo, lo), 'rise-rise': (lo, hi), 'fall-rise': (hi, hi), 'fall-fall': (hi, lo)}[cname]
                    v = (a,) + mid + (b,)
                yield 'ulp-exhaustive/' + cname, v


# ---- round 7 (hx_r7b): refill_oracle, extended -- state handed from one public function of a module to another through the array OBJECT -------------
# Between two analyses of the same ndarray object every OTHER public function of the module(s) the analysed functions live in is called on it too
# (results ignored, exceptions swallowed, <= 2 s each: probe._run), on contents that make such helpers leave through their early exits (one-sided, monotone,
# short, constant-but-one, all-zero-tail records) as well as on ordinary ones, and the object is then edited in place in several ways (offset removal,
# scaling, reversal, trimming, refill, ...).  Whatever a helper left behind (a module-level 'current record', a memo keyed on id(), a cached float copy),
# the analysed function must describe the CURRENT content: got (same object) == want (fresh array with the same content).

REFILL_CONTENTS = ('as-made', 'one-sided', 'one-sided-negative', 'monotone', 'short', 'constant-but-one', 'zero-tail')
REFILL_EDITS = ('refill', 'negate', 'one-sample', 'offset', 'scale', 'reverse', 'trim')
_SIBLING_ARGS = {'dt': 0.01, 'a_ref': 1.0, 'b': 0.3, 'n_cyc': 5, 'threshold': 0.1, 'ratio': 0.5, 'xi': 0.05}


def _eqsig_modules_of(fns):
    """the eqsig modules the analysed functions live in (a plain function: its module; a lambda: the eqsig modules / functions it refers to)"""
    import inspect
    import sys
    mods = []

    def add(name):
        m = sys.modules.get(name)
        if m is not None and name.startswith('eqsig') and m not in mods:
            mods.append(m)
    for f in fns:
        g = getattr(f, '__wrapped__', f)
        if str(getattr(g, '__module__', '')).startswith('eqsig'):
            add(g.__module__)
            continue
        try:
            cv = inspect.getclosurevars(g)
            refs = list(cv.nonlocals.values()) + list(cv.globals.values())
        except Exception:  # noqa
            refs = []
        for r in refs:
            if inspect.ismodule(r):
                add(r.__name__)
            elif callable(r) and str(getattr(getattr(r, '__wrapped__', r), '__module__', '')).startswith('eqsig'):
                add(getattr(r, '__wrapped__', r).__module__)
    return mods


def module_siblings(mods):
    """[(qualified name, original function, how to call it on one array)] for every public function defined in the modules; parameters after the first that
    have no default are filled from a small table by name (a second record parameter gets the SAME object), functions that need anything else are skipped"""
    import inspect
    out = []
    for m in mods:
        for name, obj in sorted(vars(m).items()):
            g = getattr(obj, '__wrapped__', obj)
            if name.startswith('_') or not inspect.isfunction(g) or getattr(g, '__module__', None) != m.__name__ or name.startswith('plot'):
                continue
            try:
                ps = list(inspect.signature(g).parameters.values())
            except Exception:  # noqa
                continue
            if not ps or ps[0].kind not in (ps[0].POSITIONAL_ONLY, ps[0].POSITIONAL_OR_KEYWORD):
                continue
            extra, ok = [], True
            for p in ps[1:]:
                if p.default is not p.empty or p.kind in (p.VAR_POSITIONAL, p.VAR_KEYWORD):
                    break
                if p.name in _SIBLING_ARGS:
                    extra.append(_SIBLING_ARGS[p.name])
                elif p.name.startswith('values') or p.name in ('zvals', 'motion'):
                    extra.append(None)                      # None = the record object itself
                else:
                    ok = False
                    break
            if ok and not any(g is o for _, o, _ in out):
                out.append((m.__name__ + '.' + name, g, extra))
    return out


def _refill_content(rng, kind, base):
    a = np.array(base, dtype=float, copy=True)
    n = len(a)
    if kind == 'one-sided':
        return np.abs(a) + rng.choice([0.5, 1.0, 2.5])
    if kind == 'one-sided-negative':
        return -np.abs(a) - rng.choice([0.5, 1.0])
    if kind == 'monotone':
        s = np.sort(a) if rng.random() < 0.5 else np.sort(a)[::-1].copy()
        return s + (np.arange(n) * 0.125 if s[0] <= s[-1] else -np.arange(n) * 0.125)
    if kind == 'short':
        return a[:rng.randint(2, 4)].copy()
    if kind == 'constant-but-one':
        c = np.full(n, rng.choice([-2.0, 1.0, 3.0]))
        c[rng.randrange(n)] += rng.choice([-1.0, 1.0, 4.0])
        return c
    if kind == 'zero-tail':
        a[rng.randint(2, max(2, n // 3)):] = 0.0
        return a
    return a


def _refill_edit(rng, op, buf, second):
    n = len(buf)
    if op == 'refill':
        buf[...] = second[:n]
    elif op == 'negate':
        buf *= -1.0
    elif op == 'one-sample':
        buf[rng.randrange(n)] += rng.choice([5.0, -5.0, -20.0])
    elif op == 'offset':                       # removal of an offset in place: the mean, the median, the first sample, a level inside the range (exact on dyadic data)
        buf -= rng.choice([float(np.median(buf)), float(buf[0]), float(np.round(np.mean(buf) * 8) / 8), (float(buf.min()) + float(buf.max())) / 2])
    elif op == 'scale':
        buf *= rng.choice([-0.5, 2.0, -4.0, 0.25])
    elif op == 'reverse':
        buf[...] = buf[::-1].copy()
    else:                                      # trim: the tail (or the head) set to zero
        k = rng.randint(1, max(1, n - 1))
        if rng.random() < 0.5:
            buf[k:] = 0.0
        else:
            buf[:k] = 0.0


_refill_oracle_r5 = refill_oracle


def refill_oracle(ctx, clause, fns, rng, make, n_rep=6, inputs_extra=None, siblings=None):
    """round 5 behaviour (unchanged, first) + for every analysed function, every kind of first content (REFILL_CONTENTS) and every in-place edit (REFILL_EDITS):
    analyse the buffer, call every other public function of the module(s) on the SAME object, edit it in place, analyse again -> must equal the analysis of a
    fresh array with that content.  siblings: list of modules (default: the eqsig modules the analysed functions live in / refer to)."""
    from core import call_impl
    _refill_oracle_r5(ctx, clause, fns, rng, make, n_rep=n_rep, inputs_extra=inputs_extra)
    try:
        import probe
        run_extra = probe._run
    except Exception:  # noqa
        def run_extra(f, a, k, limit=2.0):
            try:
                return ('ok', f(*a, **k))
            except Exception as e:  # noqa
                return ('err', type(e).__name__)
    sibs = module_siblings(siblings if siblings is not None else _eqsig_modules_of(list(fns.values())))
    ctx.hist('refill/sibling functions called on the same object', len(sibs))
    for rep in range(max(1, n_rep // 4)):
        for label, f in fns.items():
            target = getattr(f, '__wrapped__', f)
            for kind in REFILL_CONTENTS:
                for op in REFILL_EDITS:
                    base, second = make(rng), make(rng)
                    first = _refill_content(rng, kind, base)
                    if second.shape != base.shape or len(first) < 2:
                        continue
                    buf = np.array(first, copy=True)
                    r1 = call_impl(f, buf)
                    called = []
                    order = list(sibs)
                    rng.shuffle(order)
                    for qn, g, extra in order:
                        if g is target:
                            continue
                        keep = buf.copy()
                        res = run_extra(g, (buf,) + tuple(buf if e is None else e for e in extra), {}, limit=2.0)
                        called.append(qn.split('.')[-1] + ('' if res[0] == 'ok' else ' (' + str(res[1]) + ')'))
                        if not np.array_equal(buf, keep, equal_nan=True):
                            buf[...] = keep                       # a helper that edits its argument: the designed content is put back (in place)
                    _refill_edit(rng, op, buf, np.asarray(second, dtype=float))
                    got = call_impl(f, buf)                               # FIRST the same object ...
                    want = call_impl(f, np.array(buf, copy=True))         # ... then a fresh array with the same content
                    ok = want[0] == got[0] and (want[0] != 'ok' or _same_any(want[1], got[1]))
                    ctx.hist('same array object: other functions of the module called on it, changed in place, analysed again/' + kind + '/' + op)
                    ctx.oracle(clause % label, ok, {'first_content': first, 'first_content_kind': kind, 'other public functions called on the same object in between': called,
                                                    'then_in_place': op, 'content_at_second_call': np.array(buf, copy=True), **(inputs_extra or {})},
                               detail=None if ok else {'fresh array': want[1] if want[0] != 'ok' else _brief_any(want[1]), 'same object': got[1] if got[0] != 'ok' else _brief_any(got[1]),
                                                       'first call': r1[0]})


def _aged_nondefault(rng, cls, values, dt, **kw):
    """history kind 'nondefault-generators-then-reset' (round 7): the object is built on OTHER values, one or more of the public generator
    methods are called with a NON-DEFAULT option (rectangular-rule velocity/displacement `trap=False`, Fourier spectrum with extra padding
    `p2_plus` / explicit `n`, smoothing `band`, response spectrum with another damping `xi` / `min_dt_ratio`), the generated quantity is read or
    not, and then the record is replaced through reset_values(values) WITHOUT reading anything afterwards -- so whatever the generator left
    behind besides the (cleared) caches is still there when the object reaches the function under test.  Only options are used that the
    pinned library documents as per-call (no response_times / smoothing-frequency arguments: those are settings that persist by design)."""
    import warnings
    n = len(values)
    m = n if rng.random() < 0.6 else max(2, n + rng.randint(-min(3, n // 2), 5))
    other = np.array([rng.uniform(-1, 1) for _ in range(m)])
    s = cls(other, dt, **kw)
    gens = [('gen_fa_spectrum', lambda: dict(p2_plus=rng.choice([1, 2]))), ('gen_fa_spectrum', lambda: dict(n=m + rng.randint(0, 7))),
            ('gen_smooth_fa_spectrum', lambda: dict(band=rng.choice([10, 20, 80]))), ('generate_smooth_fa_spectrum', lambda: dict(band=rng.choice([10, 20, 80])))]
    if cls.__name__ == 'AccSignal':
        gens += [('generate_displacement_and_velocity_series', lambda: dict(trap=False))] * 4
        if m <= 2000:
            gens += [('gen_response_spectrum', lambda: dict(xi=rng.choice([0.0, 0.02, 0.2]))), ('generate_response_spectrum', lambda: dict(xi=0.1, min_dt_ratio=rng.choice([2, 8])))]
    reads = {'gen_fa_spectrum': ('fa_spectrum', 'fa_frequencies'), 'gen_smooth_fa_spectrum': ('smooth_fa_spectrum',), 'generate_smooth_fa_spectrum': ('smooth_fa_spectrum',),
             'generate_displacement_and_velocity_series': ('velocity', 'displacement', 'pgv', 'pgd'), 'gen_response_spectrum': ('s_a', 's_d'),
             'generate_response_spectrum': ('s_v',)}
    if rng.random() < 0.3:
        _touch(s)                                   # default-option caches first: the non-default call has to replace them
    for name, opts in [rng.choice(gens) for _ in range(rng.choice([1, 1, 2, 3]))]:
        with warnings.catch_warnings():
            warnings.simplefilter('ignore')
            try:
                getattr(s, name)(**opts())
            except Exception:
                continue
            if rng.random() < 0.5:
                for r in reads[name]:
                    try:
                        getattr(s, r)
                    except Exception:
                        pass
    s.reset_values(values)                          # and nothing is read afterwards
    return s


# ---- round 9 (hx_r9b): reduced-precision floating arrays whose neighbouring products underflow in their own precision ---------------------
def low_precision_tiny(v, with_event=True):
    """whole-number series (|x| <= 7) stored in a reduced-precision floating dtype at a magnitude where the PRODUCT of two neighbouring
    samples / differences underflows to (+-)0 in that dtype although every value and every difference is exactly representable in it:
    float16 x 2^-13 and x 2^-16 (values are half-precision subnormals, products < 2^-25), float32 x 2^-80 and x 2^-140 (products < 2^-150),
    and the 'quiet stretch + event' shape: the same tiny series followed by its O(1) image (x 1) in the same array.
    (label, reduced-precision ndarray, the SAME numbers as float64 ndarray = the reference: a library that works in float64 cannot tell them apart)"""
    a = np.asarray(v, dtype=float)
    if not (a.ndim == 1 and a.size and np.all(a == np.round(a)) and np.max(np.abs(a)) <= 7):
        return []
    out = []
    for label, dt, k in (('float16*2^-13', np.float16, -13), ('float16*2^-16', np.float16, -16), ('float32*2^-80', np.float32, -80),
                         ('float32*2^-140', np.float32, -140)):
        f = a * 2.0 ** k
        out.append((label, f.astype(dt), f.copy()))
        if with_event:
            g = np.concatenate([f, a[::-1] * 0.25, f[::-1]])
            out.append((label + '+event', g.astype(dt), g.copy()))
    for _, lo, f in out:
        assert np.array_equal(lo.astype(float), f)
    return out
