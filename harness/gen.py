"""input generators shared by the property modules. Every random choice comes from the Ctx's PRNG."""
import math
import numpy as np


def dyadic_record(rng, n, amp=8, bits=3):
    """values k * 2^-bits with |k| <= amp*2^bits: every + - * of a few of them is exact in binary64"""
    s = 1 << bits
    return np.array([rng.randint(-amp * s, amp * s) / s for _ in range(n)], dtype=float)


def int_record(rng, n, lo=-3, hi=3):
    return np.array([rng.randint(lo, hi) for _ in range(n)], dtype=float)


def plateau_record(rng, n, levels=(-2, -1, 0, 1, 2), p_repeat=0.4):
    out = []
    cur = rng.choice(levels)
    for _ in range(n):
        if rng.random() > p_repeat:
            cur = rng.choice(levels)
        out.append(cur)
    return np.array(out, dtype=float)


def noise_record(rng, n, amp=1.0):
    return np.array([rng.gauss(0, 1) * amp for _ in range(n)], dtype=float)


def sine_record(rng, n, dt, amp=1.0):
    f = rng.uniform(0.2, 0.45 / dt) if dt > 0 else 1.0
    ph = rng.uniform(0, 2 * math.pi)
    return amp * np.sin(2 * math.pi * f * dt * np.arange(n) + ph)


def spike_record(rng, n, amp=1.0):
    a = np.zeros(n)
    a[rng.randrange(n)] = amp * rng.choice([-1, 1])
    return a


def step_record(rng, n, amp=1.0):
    a = np.zeros(n)
    a[rng.randrange(n):] = amp
    return a


def any_record(rng, n, dt=0.01):
    """(kind, record) — mixture used by most properties"""
    k = rng.choice(['dyadic', 'int', 'plateau', 'noise', 'sine', 'spike', 'step', 'big', 'tiny'])
    if k == 'dyadic':
        return k, dyadic_record(rng, n)
    if k == 'int':
        return k, int_record(rng, n)
    if k == 'plateau':
        return k, plateau_record(rng, n)
    if k == 'noise':
        return k, noise_record(rng, n)
    if k == 'sine':
        return k, sine_record(rng, n, dt)
    if k == 'spike':
        return k, spike_record(rng, n)
    if k == 'step':
        return k, step_record(rng, n)
    if k == 'big':
        return k, noise_record(rng, n, 1e6)
    return k, noise_record(rng, n, 1e-6)


DYADIC_KINDS = {'dyadic', 'int', 'plateau', 'spike', 'step'}


def dyadic_dt(rng):
    return rng.choice([1.0, 0.5, 0.25, 0.125, 0.0625, 2.0])


NEAR_RATE_DTS = [0.01000005, 1 / 49.9996, 0.0200001, 0.00999995, 1 / 100.0005, 0.005 * (1 + 2.0 ** -30), 1 / 199.9993]


def any_dt(rng):
    u = rng.random()
    if u < 0.1:
        return rng.choice(NEAR_RATE_DTS)        # 1/dt NEAR a whole number but not equal to it: nobody may 'snap' a time step
    return rng.choice([0.01, 0.005, 0.02, 0.1, 0.001, 1.0, 0.05]) if u < 0.73 else 10 ** rng.uniform(-3, 0)


def log_int(rng, lo, hi):
    return int(round(math.exp(rng.uniform(math.log(lo), math.log(hi)))))


def nontrivial_record(a):
    a = np.asarray(a)
    return len(a) >= 3 and len(set(a.tolist())) > 1


def container_variants(v, floats32=True, arrays_only=False):
    """the same numbers in other containers / dtypes (label, object): Python list / tuple of floats always; integer ndarray (int64,
    int32) and list of Python ints when every value is a whole number; float32 ndarray when every value is exactly representable in
    single precision; a non-contiguous float64 view. A property that quantifies over 'every record' covers all of them."""
    a = np.asarray(v, dtype=float)
    out = [] if arrays_only else [('list', [float(x) for x in a]), ('tuple', tuple(float(x) for x in a))]
    if a.size and np.all(np.isfinite(a)) and np.all(a == np.round(a)) and np.max(np.abs(a)) < 2 ** 31:
        out.append(('int64', a.astype(np.int64)))
        out.append(('int32', a.astype(np.int32)))
        if not arrays_only:
            out.append(('list-int', [int(x) for x in a]))
    if floats32 and a.size and np.all(np.isfinite(a)) and np.array_equal(a.astype(np.float32).astype(float), a):
        out.append(('float32', a.astype(np.float32)))
    if a.ndim == 1 and a.size:
        wide = np.empty(2 * a.size, dtype=float)
        wide[::2] = a
        wide[1::2] = 12345.0
        out.append(('strided', wide[::2]))
    return out


def aged_signal(rng, cls, values, dt, **kw):
    """an eqsig Signal/AccSignal holding (values, dt) that reached this state through a HISTORY instead of the constructor
    (label, object): built with a record of another length and reset, caches filled before or after the reset, a shallow copy whose sibling
    was changed, a child derived from analysed parents, an object that went through a windowed baseline correction or the deprecated
    statistics generators before the record was replaced, …
    Every function that takes a signal object must treat these exactly like a fresh object."""
    values = np.array(values, dtype=float)
    kinds = ['fresh', 'reset-other-length', 'reset-same-length', 'read-all', 'read-reset', 'reset-shorter']
    is_acc = cls.__name__ == 'AccSignal'
    n = len(values)
    # round 7: state that survives in places clear_cache does not know about / objects derived from other objects
    kinds += ['copy-fork', 'stats-then-reset']
    if is_acc and n >= 4:
        kinds += ['combined-child', 'windowed-correction-then-reset', 'resampled-child']
    kind = rng.choice(kinds)
    if kind == 'fresh':
        return kind, cls(values, dt, **kw)
    if kind == 'read-all':
        s = cls(values, dt, **kw)
        _touch(s)
        return kind, s
    if kind == 'copy-fork':
        # a shallow copy shares every mutable attribute with its sibling: changing and reading the sibling must not reach this object
        import copy
        s = cls(values, dt, **kw)
        if rng.random() < 0.7:
            _touch(s)
        sib = copy.copy(s)
        try:
            sib.reset_values(np.array([rng.uniform(-3, 3) for _ in range(n)]))
            _touch(sib)
        except Exception:
            pass
        return kind, s
    if kind == 'stats-then-reset':
        other = np.array([rng.uniform(-1, 1) for _ in range(n)])
        s = cls(other, dt, **kw)
        _touch(s)
        for nm in ('generate_cumulative_stats', 'generate_peak_values', 'generate_displacement_and_velocity_series'):
            f = getattr(s, nm, None)
            if f is not None:
                try:
                    f()
                except Exception:
                    pass
        s.reset_values(values)
        return kind, s
    if kind == 'windowed-correction-then-reset':
        other = np.array([rng.uniform(-1, 1) for _ in range(n)])
        s = cls(other, dt, **kw)
        if rng.random() < 0.5:
            _touch(s)
        i0 = rng.randint(1, max(1, n // 2))
        i1 = rng.randint(i0 + 1, n) if rng.random() < 0.7 else None
        tz = (i0 * dt, None if i1 is None else i1 * dt)
        for nm in ('set_zero_residual_displacement_and_velocity', 'set_zero_residual_velocity'):
            try:
                getattr(s, nm)(timezone=tz)
                _touch(s)
            except Exception:
                pass
        s.reset_values(values)
        return kind, s
    if kind == 'combined-child':
        # a new object made by the library itself from analysed parents (angle 0: ns * cos(0) + we * sin(0) == ns exactly)
        import eqsig
        ns = cls(values, dt, **kw)
        we = cls(np.zeros(n), dt)
        try:
            ns.generate_displacement_and_velocity_series(trap=False)
        except Exception:
            pass
        _touch(ns)
        _touch(we)
        try:
            child = eqsig.combine_at_angle(ns, we, 0.0)
            if isinstance(child, cls) and np.array_equal(child.values, values) and child.dt == dt:
                for k_, v_ in kw.items():
                    setattr(child, k_, v_)
                return kind, child
        except Exception:
            pass
        return 'fresh', cls(values, dt, **kw)
    if kind == 'resampled-child':
        # a child made by the resampling helpers from an analysed parent, then given the record
        from eqsig.fns import time_step
        other = np.array([rng.uniform(-1, 1) for _ in range(n + rng.randint(0, 3))])
        parent = cls(other, dt, **kw)
        _touch(parent)
        try:
            from eqsig import stockwell
            if len(other) <= 300:
                stockwell.get_max_stockwell_freq(parent)
        except Exception:
            pass
        try:
            child = (time_step.interp_to_approx_dt if rng.random() < 0.5 else time_step.resample_to_approx_dt)(parent, dt)
            if isinstance(child, cls) and child.dt == dt:
                child.reset_values(values)
                for k_, v_ in kw.items():
                    setattr(child, k_, v_)
                return kind, child
        except Exception:
            pass
        return 'fresh', cls(values, dt, **kw)
    if kind == 'reset-other-length':
        other = np.array([rng.uniform(-1, 1) for _ in range(n + rng.randint(1, max(2, n)))])
    elif kind == 'reset-shorter':
        other = np.array([rng.uniform(-1, 1) for _ in range(max(2, n - rng.randint(1, max(1, n // 2))))])
    else:
        other = np.array([rng.uniform(-1, 1) for _ in range(n)])
    s = cls(other, dt, **kw)
    if kind == 'read-reset' or rng.random() < 0.5:
        _touch(s)
    s.reset_values(values)
    return kind, s


def _touch(s):
    """fill the lazily cached quantities of a signal object"""
    for name in ('npts', 'time', 'fa_spectrum', 'fa_frequencies', 'smooth_fa_spectrum', 'velocity', 'displacement', 'pga', 'pgv', 'pgd',
                 's_a', 's_v', 's_d'):
        try:
            getattr(s, name)
        except Exception:
            pass


def scaled_exactly(x, y, k):
    """x == k*y bit for bit wherever k*y is a normal number: scaling by a power of two commutes with every rounding of + - * /
    (and with sqrt for even powers) except gradual underflow and overflow, so a quantity that is homogeneous of degree one in its
    input must reproduce this EXACTLY, also for k = 2^-600 or 2^+600 (guards against 'no energy' shortcuts, squared magnitudes that
    under/overflow, absolute tolerances)"""
    x = np.asarray(x)
    y = np.asarray(y)
    if x.shape != y.shape:
        return False
    with np.errstate(over='ignore', under='ignore', invalid='ignore'):
        ky = k * y
    if not np.all(np.isfinite(ky)):
        return bool(np.all(np.isfinite(x) == np.isfinite(ky)))
    # exact wherever both the base value and the scaled value are far above the subnormal range (a base value that went subnormal --
    # a heavily damped stiff oscillator decays below 1e-308 within a record -- has lost bits that the scaled run still has)
    normal = (np.abs(ky) > 1e-250) & (np.abs(y) > 1e-250)
    return bool(np.array_equal(x[normal], ky[normal]) and np.all(np.abs(x[~normal] - ky[~normal]) <= 1e-250 * max(1.0, abs(k))))


EXTREME_POW2 = (-600, 600, -350, 350)


def narrow_int_variants(v):
    """whole-number records (|x| <= 3) blown up so that differences / products of neighbouring samples overflow the dtype if the
    arithmetic were done in it: int32 x 100000, int16 x 200, int64 x 3e9, int8 x 40; uint16 (shifted to be non-negative) x 200.
    (label, integer ndarray, the same numbers as float64)"""
    a = np.asarray(v, dtype=float)
    if not (a.size and np.all(a == np.round(a)) and np.max(np.abs(a)) <= 3):
        return []
    out = []
    for label, dt, fac, shift in (('int32x1e5', np.int32, 100000, 0), ('int16x200', np.int16, 200, 0), ('int64x3e9', np.int64, 3000000000, 0),
                                  ('int8x40', np.int8, 40, 0), ('uint16x200', np.uint16, 200, 3), ('uint8x40', np.uint8, 40, 3)):
        f = (a + shift) * fac
        out.append((label, f.astype(dt), f.copy()))
    return out


def refill_oracle(ctx, clause, fns, rng, make, n_rep=6, inputs_extra=None):
    """the result of an array function depends on the CONTENT of its argument, not on the identity of the array object: analyse a buffer,
    refill the SAME ndarray object in place with another record, analyse again -> must equal the analysis of a fresh array with that
    content (no memo keyed on id() / a weak reference).  fns: {label: f(array)}; make(rng) -> float ndarray (same length each time)."""
    from core import call_impl
    for _ in range(n_rep):
        first, second = make(rng), make(rng)
        if first.shape != second.shape:
            continue
        for label, f in fns.items():
            buf = np.array(first, copy=True)
            r1 = call_impl(f, buf)
            op = rng.choice(['refill', 'negate', 'one-sample'])
            if op == 'refill':
                buf[...] = second
            elif op == 'negate':
                buf *= -1.0
            else:
                buf[rng.randrange(len(buf))] += 5.0
            got = call_impl(f, buf)                               # FIRST the same object (a 'last call' memo still points at it) ...
            want = call_impl(f, np.array(buf, copy=True))         # ... then a fresh array with the same content
            ok = want[0] == got[0] and (want[0] != 'ok' or _same_any(want[1], got[1]))
            ctx.hist('same array object changed in place and analysed again/' + op)
            ctx.oracle(clause % label, ok, {'first_content': first, 'then_in_place': op, 'content_at_second_call': np.array(buf, copy=True), **(inputs_extra or {})},
                       detail=None if ok else {'fresh array': want[1] if want[0] != 'ok' else _brief_any(want[1]), 'same object': got[1] if got[0] != 'ok' else _brief_any(got[1]),
                                               'first call': r1[0]})


def _same_any(a, b):
    if isinstance(a, tuple) or isinstance(b, tuple):
        return isinstance(a, tuple) and isinstance(b, tuple) and len(a) == len(b) and all(_same_any(x, y) for x, y in zip(a, b))
    a, b = np.asarray(a), np.asarray(b)
    return a.shape == b.shape and bool(np.array_equal(a, b, equal_nan=True) if a.dtype.kind in 'fc' else np.array_equal(a, b))


def _brief_any(r):
    if isinstance(r, tuple):
        return [_brief_any(x) for x in r]
    a = np.asarray(r).reshape(-1)
    return a[:8].tolist()


def dt_variants(dt):
    """the same time step held by other objects a caller may plausibly pass (np.load(...)['dt'] is a 0-d array): (label, object)"""
    out = [('np.float64', np.float64(dt)), ('0-d array', np.array(float(dt))), ('1-element array', np.array([float(dt)]))]
    if float(np.float32(dt)) == float(dt):
        out.append(('np.float32', np.float32(dt)))
    if float(dt) == int(dt):
        out.append(('int', int(dt)))
    return out


def dt_oracle(ctx, clause, f, rng, dt, same, inputs):
    """f(dt_object) -> result.  For every variant: the dt object is unchanged by the call, a second call gives the same result, and the
    result equals that for the plain float (where the variant is accepted; a loud TypeError/ValueError is a restriction of the domain)"""
    from core import call_impl
    base = call_impl(f, float(dt))
    if base[0] != 'ok':
        return
    for label, obj in dt_variants(dt):
        keep = np.array(obj, copy=True)
        r1 = call_impl(f, obj)
        unchanged = np.array_equal(np.asarray(obj), keep) and np.asarray(obj).dtype == keep.dtype
        r2 = call_impl(f, obj)
        ctx.hist('dt held by/' + label + ('' if r1[0] == 'ok' else ' (rejected: %s)' % r1[1]))
        ok = unchanged and r1[0] == r2[0] and (r1[0] != 'ok' or (same(r1[1], r2[1]) and (label == '1-element array' or same(r1[1], base[1]))))
        ctx.oracle(clause, ok, {**inputs, 'dt': float(dt), 'dt_held_by': label},
                   detail=None if ok else {'dt_object_unchanged': bool(unchanged), 'dt_object_now': np.asarray(obj).tolist(), 'first_call': r1[0] if r1[0] != 'ok' else 'result',
                                           'second_call_same': r1[0] == r2[0] and (r1[0] != 'ok' or same(r1[1], r2[1]))})


# ---- source hints (DESIGN §11.6, lesson 19): the numeric literals the CURRENT source has and the pinned source has not (ctx.hints, core.Hints)
# steer the generators -- sizes around every new integer constant, parameter values around every new float constant.  Both helpers return []
# on the unchanged tree (no hints), so the property modules behave exactly as before there.

def hint_sizes(ctx, lo=2, hi=2 ** 22, cap=6, halves=False):
    """lengths / counts around every new integer constant v inside [lo, hi]: v+1, v, v+2, 2v+1, v-1 (halves=True: also 2v+2, 2v+3, so that
    n // 2 straddles v), 'just above' first and round-robin over the constants (largest first), so that a cap never drops the size just above
    any constant before the less telling neighbours of another one."""
    h = getattr(ctx, 'hints', None)
    if not h:
        return []
    consts = sorted(h.ints(2, hi), reverse=True)
    offs = [lambda v: v + 1, lambda v: v, lambda v: v + 2, lambda v: 2 * v + 1, lambda v: v - 1]
    if halves:
        offs = [lambda v: v + 1, lambda v: 2 * v + 2, lambda v: v, lambda v: 2 * v + 3, lambda v: 2 * v + 1, lambda v: v + 2, lambda v: 2 * v, lambda v: v - 1]
    out = []
    for f in offs:
        for v in consts:
            c = f(v)
            if lo <= c <= hi and c not in out:
                out.append(c)
    return out[:cap]


def hint_values(ctx, lo, hi, cap=12, maps=(lambda c: c,)):
    """values of a continuous parameter at / around every new numeric constant c (ctx.hints.near_values: c, 0.999c, 1.001c, 0.5c, 2c, 0.9c, 1.1c),
    kept when inside the property's domain [lo, hi] for that parameter.  maps: how the parameter follows from the constant when the constant
    bounds a DERIVED quantity (e.g. the parameter is T/dt and the constant bounds w*dt: lambda c: 2*pi/c).  Round-robin: the exact constant and its
    closest neighbours of every constant come before the wider neighbours of any."""
    h = getattr(ctx, 'hints', None)
    if not h:
        return []
    near = h.near_values(cap=10 ** 6)
    groups = [near[i:i + 7] for i in range(0, len(near), 7)]
    out = []
    for k in range(7):
        for g in groups:
            if k >= len(g):
                continue
            for f in maps:
                for x in (g[k], -g[k]):
                    try:
                        y = float(f(x))
                    except (ZeroDivisionError, OverflowError, ValueError):
                        continue
                    if y == y and lo <= y <= hi and y not in out:
                        out.append(y)
    return out[:cap]
