"""Shared machinery of the eqsig verification harness (run by /venv/bin/python; imports the real eqsig in-process).

Pieces:
  * wire encoding of numbers as exact rationals / float bit patterns, the driver subprocess;
  * Ctx: collects correspondence cases (impl vs Lean model), spec oracles evaluated on impl outputs,
    counts for the evidence file, and the final decision (exit status, VIOLATION / KNOWN-FINDING lines).
"""
import fcntl
import hashlib
import json
import os
import random
import struct
import subprocess
import sys
import time
import traceback
from fractions import Fraction

VERIF = os.path.dirname(os.path.dirname(os.path.abspath(__file__)))
LEAN_DIR = os.path.join(VERIF, 'lean')
DRIVER = os.path.join(LEAN_DIR, '.lake', 'build', 'bin', 'eqsig_driver')
REPO = os.environ.get('EQSIG_REPO', '/repo')
WORK = os.path.join(VERIF, '.work')

ALLOWED_AXIOMS = {'propext', 'Classical.choice', 'Quot.sound'}

TRUSTED_BASE = [
    "Lean 4.33.0 kernel (thorough tier: leanchecker re-check of the compiled .olean files); Mathlib v4.33.0 as a library of kernel-checked proofs",
    "axioms allowed in property theorems: propext, Classical.choice, Quot.sound (audited per theorem on every run); no native_decide, bv_decide, sorry, admit or axioms of our own",
    "the Lean statements in Props/ being faithful renderings of properties.jsonl (statement hashes pinned in theorems.lock.json)",
    "tools/py2lean.py (Python AST -> Lean) for generated models; harness generators/adapters/comparison budgets for the correspondence check (neither is verified; each generated executable twin is also run against the impl)",
    "modelled, not verified: IEEE-754 rounding/overflow/NaN (models compute in Q/R; gap measured per case), NumPy semantics of the prelude primitives, external calls (FFT, polyfit, butter/filtfilt, resample, genfromtxt, libm), CPython glue semantics",
    "Python 3.12 / NumPy / SciPy runtime of /venv executing the implementation during correspondence",
]


# ------------------------------------------------------------------------------------------------
# numbers on the wire
# ------------------------------------------------------------------------------------------------

def fr(x):
    """exact Fraction of a Python/NumPy number (float -> the double's exact value)."""
    if isinstance(x, Fraction):
        return x
    if isinstance(x, bool):
        raise TypeError("bool is not a number here")
    if isinstance(x, int):
        return Fraction(x)
    try:
        import numpy as np
        if isinstance(x, np.integer):
            return Fraction(int(x))
        if isinstance(x, np.floating):
            x = float(x)
    except ImportError:
        pass
    if isinstance(x, float):
        if x != x or x in (float('inf'), float('-inf')):
            raise ValueError(f"non-finite float {x}")
        return Fraction(*x.as_integer_ratio())
    raise TypeError(f"cannot convert {type(x)} to Fraction")


def w_rat(x):
    q = fr(x)
    return str(q.numerator) if q.denominator == 1 else f"{q.numerator}/{q.denominator}"


def w_rats(xs):
    return " ".join(w_rat(x) for x in xs)


def w_float(x):
    return "b%d" % struct.unpack('<Q', struct.pack('<d', float(x)))[0]


def w_floats(xs):
    return " ".join(w_float(x) for x in xs)


def w_bool(b):
    return "T" if b else "F"


def p_rat(tok):
    if '/' in tok:
        n, d = tok.split('/')
        return Fraction(int(n), int(d))
    return Fraction(int(tok))


def p_float(tok):
    assert tok.startswith('b'), tok
    return struct.unpack('<d', struct.pack('<Q', int(tok[1:])))[0]


def p_rats(toks):
    return [p_rat(t) for t in toks]


def p_floats(toks):
    return [p_float(t) for t in toks]


def p_ints(toks):
    return [int(t) for t in toks]


def parse_response(line):
    """-> ('ok', [[tok…]…]) | ('err', kind) | ('bad', message)"""
    line = line.rstrip('\n')
    parts = line.split('|')
    if parts[0] == 'ok':
        return ('ok', [[t for t in p.split(' ') if t != ''] for p in parts[1:]])
    if parts[0] == 'err':
        return ('err', parts[1] if len(parts) > 1 else '?')
    return ('bad', '|'.join(parts[1:]))


ERR_KINDS = {'IndexError', 'ValueError', 'TypeError', 'AssertionError', 'SignalProcessingError',
             'ZeroDivisionError', 'AttributeError'}


def err_kind(exc):
    n = type(exc).__name__
    if n in ERR_KINDS:
        return n
    for k in ERR_KINDS:
        for b in type(exc).__mro__:
            if b.__name__ == k:
                return k
    return 'Other:' + n


def call_impl(f, *a, **k):
    """run an impl call, mapping exceptions to ('err', kind)"""
    import warnings
    try:
        with warnings.catch_warnings():
            warnings.simplefilter('ignore')
            return ('ok', f(*a, **k))
    except Exception as e:  # noqa
        return ('err', err_kind(e))


def run_driver(lines, timeout=1800):
    """send request lines to the Lean driver, return parsed responses (same order)."""
    if not lines:
        return []
    if not os.path.exists(DRIVER):
        raise RuntimeError("driver not built: " + DRIVER)
    inp = "\n".join(lines) + "\n"
    p = subprocess.run([DRIVER], input=inp, capture_output=True, text=True, timeout=timeout)
    if p.returncode != 0:
        raise RuntimeError(f"driver exit {p.returncode}: {p.stderr[-2000:]}")
    out = p.stdout.split('\n')
    if out and out[-1] == '':
        out.pop()
    if len(out) != len(lines):
        raise RuntimeError(f"driver answered {len(out)} lines for {len(lines)} requests; stderr={p.stderr[-500:]}")
    return [parse_response(l) for l in out]


def run_driver_parallel(lines, jobs=None, timeout=3600):
    """split a big batch over several driver processes (order preserved)."""
    n = len(lines)
    jobs = jobs or min(16, max(1, n // 200))
    if jobs <= 1:
        return run_driver(lines, timeout)
    from concurrent.futures import ThreadPoolExecutor
    chunks = [lines[i::jobs] for i in range(jobs)]
    with ThreadPoolExecutor(jobs) as ex:
        res = list(ex.map(lambda c: run_driver(c, timeout), chunks))
    out = [None] * n
    for j, r in enumerate(res):
        out[j::jobs] = r
    return out


# ------------------------------------------------------------------------------------------------
# comparison budgets (DESIGN §3.5)
# ------------------------------------------------------------------------------------------------

def max_abs(xs):
    m = Fraction(0)
    for x in xs:
        a = abs(fr(x))
        if a > m:
            m = a
    return m


def cmp_exact(impl, model):
    """element-wise exact equality of two flat sequences of numbers; returns None or a message"""
    if len(impl) != len(model):
        return f"length impl={len(impl)} model={len(model)}"
    for i, (a, b) in enumerate(zip(impl, model)):
        if fr(a) != fr(b):
            return f"[{i}] impl={float(fr(a))!r} model={float(fr(b))!r}"
    return None


def cmp_budget(impl, model, rel, scale=None, abs_floor=Fraction(0)):
    """|impl-model| <= rel*scale (+abs_floor); scale defaults to max(|model|,|impl|) over the array.
    returns (None|message, max_gap_relative_to_scale)"""
    if len(impl) != len(model):
        return f"length impl={len(impl)} model={len(model)}", None
    fi = [fr(a) for a in impl]
    fm = [fr(b) for b in model]
    sc = fr(scale) if scale is not None else max(max_abs(fi), max_abs(fm))
    tol = Fraction(rel) * sc + abs_floor
    worst = Fraction(0)
    msg = None
    for i, (a, b) in enumerate(zip(fi, fm)):
        g = abs(a - b)
        if g > worst:
            worst = g
        if g > tol and msg is None:
            msg = f"[{i}] impl={float(a)!r} model={float(b)!r} gap={float(g):.3e} tol={float(tol):.3e}"
    relgap = float(worst / sc) if sc != 0 else float(worst)
    return msg, relgap


# ------------------------------------------------------------------------------------------------
# context
# ------------------------------------------------------------------------------------------------

def jsonable(x):
    try:
        import numpy as np
    except ImportError:
        np = None
    if isinstance(x, Fraction):
        return float(x) if x.denominator != 1 else int(x)
    if np is not None:
        if isinstance(x, np.ndarray):
            return jsonable(x.tolist())
        if isinstance(x, (np.integer,)):
            return int(x)
        if isinstance(x, (np.floating,)):
            return float(x)
        if isinstance(x, (np.bool_,)):
            return bool(x)
        if isinstance(x, (np.complexfloating,)):
            return [float(x.real), float(x.imag)]
    if isinstance(x, complex):
        return [x.real, x.imag]
    if isinstance(x, dict):
        return {str(k): jsonable(v) for k, v in x.items()}
    if isinstance(x, (list, tuple)):
        return [jsonable(v) for v in x]
    if isinstance(x, (str, int, float, bool)) or x is None:
        return x
    return repr(x)


class Ctx:
    def __init__(self, prop, tier, seed):
        self.prop = prop
        self.tier = tier
        self.seed = seed
        self.rng = random.Random((seed * 1000003) ^ int(hashlib.sha256(prop.encode()).hexdigest()[:8], 16))
        self.t0 = time.time()
        self.pending = []          # correspondence cases waiting for the driver
        self.corr_failures = []    # model vs impl disagreements
        self.oracle_failures = []  # property clause false on an impl execution (a failing input)
        self.evaluations = 0
        self.hashes_nontrivial = set()
        self.samples = []
        self.dist = {}             # histogram of input kinds
        self.max_gap = {}          # fn -> max observed relative rounding gap
        self.corr_count = {}
        self.oracle_count = {}
        self.notes = []
        self.proof = None          # filled by build.audit
        self.infra_error = None

    # ---- bookkeeping
    def aged(self, cls, values, dt, **kw):
        """a signal object holding (values, dt) that got there through a history (gen.aged_signal); the kind is counted in the input
        distribution and attached to every failure recorded afterwards (facts.last_object_history)"""
        import gen

        def pick(kinds):
            # stratified: every history kind comes round within len(kinds) consecutive calls (in an order drawn once per run), so that a
            # module with only a handful of object-level cases still meets every kind — detection must not depend on the luck of the draw
            if not hasattr(self, '_aged_order'):
                self._aged_order, self._aged_i = {}, 0
            key = tuple(kinds)
            if key not in self._aged_order:
                order = list(kinds)
                self.rng.shuffle(order)
                self._aged_order[key] = order
            order = self._aged_order[key]
            k = order[self._aged_i % len(order)]
            self._aged_i += 1
            return k
        kind, obj = gen.aged_signal(self.rng, cls, values, dt, _pick=pick, **kw)
        self.hist('object-history/' + kind)
        self.last_object_history = kind
        return obj

    def hist(self, key, n=1):
        self.dist[key] = self.dist.get(key, 0) + n

    def count_case(self, canonical, nontrivial, sample=None):
        self.evaluations += 1
        if nontrivial:
            self.hashes_nontrivial.add(hashlib.sha256(repr(canonical).encode()).hexdigest()[:16])
        if sample is not None and len(self.samples) < 8:
            self.samples.append(jsonable(sample))

    # ---- correspondence
    def corr(self, fn, request, impl_result, compare, inputs=None):
        """queue one correspondence case.
        request: driver line; impl_result: ('ok', value)|('err', kind);
        compare(model_outs, impl_value) -> None | message  (model_outs = list of token lists)"""
        self.pending.append((fn, request, impl_result, compare, inputs))

    def flush(self):
        if not self.pending:
            return
        pend, self.pending = self.pending, []
        resps = run_driver_parallel([p[1] for p in pend])
        for (fn, request, impl_result, compare, inputs), resp in zip(pend, resps):
            self.corr_count[fn] = self.corr_count.get(fn, 0) + 1
            msg = None
            if resp[0] == 'bad':
                msg = f"driver protocol error: {resp[1]}"
            elif impl_result[0] == 'err' or resp[0] == 'err':
                ik = impl_result[1] if impl_result[0] == 'err' else 'ok'
                mk = resp[1] if resp[0] == 'err' else 'ok'
                if ik != mk:
                    msg = f"outcome impl={ik} model={mk}"
            else:
                try:
                    msg = compare(resp[1], impl_result[1])
                except Exception as e:  # noqa
                    msg = f"compare raised {type(e).__name__}: {e}\n{traceback.format_exc(limit=3)}"
            if msg is not None:
                self.corr_failures.append({'fn': fn, 'request': request if len(request) < 400 else request[:400] + '…',
                                           'message': msg, 'inputs': jsonable(inputs)})

    def gap(self, fn, relgap):
        if relgap is not None and relgap > self.max_gap.get(fn, 0.0):
            self.max_gap[fn] = relgap

    # ---- spec oracles on the impl
    def oracle(self, clause, ok, inputs=None, detail=None, facts=None):
        """a clause of the property evaluated directly on an impl execution"""
        self.oracle_count[clause] = self.oracle_count.get(clause, 0) + 1
        if not ok:
            f = {'clause': clause, 'inputs': jsonable(inputs), 'detail': jsonable(detail), 'facts': jsonable(facts or {})}
            if getattr(self, 'last_object_history', None) not in (None, 'fresh'):
                f['last_object_history'] = self.last_object_history
            # failures explained by an open known finding are kept apart (and do not use up the per-clause budget below, so that a
            # different violation of the same clause is never crowded out by the known one)
            kf = getattr(self, 'known_filter', None)
            hit = None
            if kf is not None:
                try:
                    hit = kf(f)
                except Exception:
                    hit = None
            if hit is not None:
                f['known'] = hit
                self.known_hits = getattr(self, 'known_hits', [])
                self.known_count = getattr(self, 'known_count', {})
                self.known_count[hit] = self.known_count.get(hit, 0) + 1
                if self.known_count[hit] <= 5000:
                    self.known_hits.append(f)
                return
            self.fail_per_clause = getattr(self, 'fail_per_clause', {})
            self.fail_per_clause[clause] = self.fail_per_clause.get(clause, 0) + 1
            if self.fail_per_clause[clause] <= 40:
                self.oracle_failures.append(f)
            else:
                self.hist('oracle_failures_dropped')


def write_replay(prop, payload):
    os.makedirs(os.path.join(VERIF, 'replays'), exist_ok=True)
    txt = json.dumps(jsonable(payload), indent=1, sort_keys=True)
    h = hashlib.sha256(txt.encode()).hexdigest()[:12]
    p = os.path.join(VERIF, 'replays', f"{prop}-{h}.json")
    with open(p, 'w') as f:
        f.write(txt)
    return p


class BuildLock:
    def __enter__(self):
        os.makedirs(WORK, exist_ok=True)
        self.f = open(os.path.join(VERIF, '.lock.build'), 'w')
        fcntl.flock(self.f, fcntl.LOCK_EX)
        return self

    def __exit__(self, *a):
        fcntl.flock(self.f, fcntl.LOCK_UN)
        self.f.close()


# ------------------------------------------------------------------------------------------------ source hints (white-box support of the search)
# Numeric literals of the CURRENT source that the pinned source (corpus/literals_baseline.json, written by `tools/literal_baseline.py`)
# does not have in the same function.  They never decide anything: they only steer the failing-input search (sizes around a new
# integer constant, values around a new float constant), because a threshold that a change introduces can always lie just above
# whatever fixed sizes a generator uses (DESIGN §11.4 lesson 19).
LITERAL_BASELINE = os.path.join(VERIF, 'corpus', 'literals_baseline.json')


def source_literals(repo=None):
    """{ 'eqsig/im.py::calc_cav': [sorted numeric literals of the function body] } for every function of the library (methods as
    Class.method); module-level statements under '<module>'."""
    import ast
    repo = repo or REPO
    out = {}
    root = os.path.join(repo, 'eqsig')
    for d, _, files in os.walk(root):
        for f in sorted(files):
            if not f.endswith('.py'):
                continue
            p = os.path.join(d, f)
            rel = os.path.relpath(p, repo)
            try:
                tree = ast.parse(open(p).read())
            except Exception:
                continue

            def fold(n):
                # value of a constant arithmetic expression (2 ** 16, 64 * 1024, 1 << 20, -5), else None
                if isinstance(n, ast.Constant) and isinstance(n.value, (int, float)) and not isinstance(n.value, bool):
                    return n.value
                if isinstance(n, ast.UnaryOp) and isinstance(n.op, (ast.USub, ast.UAdd)):
                    v = fold(n.operand)
                    return None if v is None else (-v if isinstance(n.op, ast.USub) else v)
                if isinstance(n, ast.BinOp):
                    a, b = fold(n.left), fold(n.right)
                    if a is None or b is None:
                        return None
                    try:
                        if isinstance(n.op, ast.Pow):
                            return a ** b if abs(b) <= 64 and abs(a) <= 10 ** 6 else None
                        if isinstance(n.op, ast.Mult):
                            return a * b
                        if isinstance(n.op, ast.Add):
                            return a + b
                        if isinstance(n.op, ast.Sub):
                            return a - b
                        if isinstance(n.op, ast.Div):
                            return a / b
                        if isinstance(n.op, ast.FloorDiv):
                            return a // b
                        if isinstance(n.op, ast.LShift) and isinstance(a, int) and isinstance(b, int) and 0 <= b <= 64:
                            return a << b
                    except Exception:  # noqa
                        return None
                return None

            def lits(node):
                vals = []
                for n in ast.walk(node):
                    if isinstance(n, ast.Constant) and isinstance(n.value, (int, float)) and not isinstance(n.value, bool):
                        vals.append(n.value)
                    elif isinstance(n, ast.BinOp):
                        v = fold(n)     # the folded value of a constant expression counts as a literal too (2 ** 16 -> 65536)
                        if v is not None and isinstance(v, (int, float)) and not isinstance(v, complex) and abs(v) < 1e300:
                            vals.append(v)
                return vals

            def visit(node, prefix):
                for ch in ast.iter_child_nodes(node):
                    if isinstance(ch, (ast.FunctionDef, ast.AsyncFunctionDef)):
                        out.setdefault(f"{rel}::{prefix}{ch.name}", []).extend(lits(ch))
                    elif isinstance(ch, ast.ClassDef):
                        visit(ch, prefix + ch.name + '.')
            visit(tree, '')
            mod_level = []
            for ch in tree.body:
                if not isinstance(ch, (ast.FunctionDef, ast.AsyncFunctionDef, ast.ClassDef)):
                    mod_level.extend(lits(ch))
            out[f"{rel}::<module>"] = mod_level
    return {k: sorted(v, key=lambda x: (float(x), repr(x))) for k, v in out.items()}


class Hints:
    """new numeric literals of the current source (vs the pinned baseline), optionally restricted to some files"""

    def __init__(self, new):
        self.new = new                       # list of {'function', 'value'}

    def restrict(self, files):
        files = tuple(files or ())
        return Hints([h for h in self.new if not files or h['function'].split('::')[0] in files])

    def __bool__(self):
        return bool(self.new)

    def ints(self, lo=2, hi=2 ** 26):
        vals = set()
        for h in self.new:
            v = h['value']
            if isinstance(v, float) and v.is_integer() and abs(v) < 2 ** 53:
                v = int(v)
            if isinstance(v, int) and lo <= abs(v) <= hi:
                vals.add(abs(v))
        return sorted(vals)

    def floats(self):
        return sorted({float(h['value']) for h in self.new if float(h['value']) not in (0.0, 1.0, -1.0, 2.0)})

    def sizes(self, lo=2, hi=2 ** 22, cap=12):
        """record lengths / counts worth trying: around every new integer constant, its neighbours and a little beyond"""
        s = set()
        for v in self.ints(lo, hi):
            for c in (v - 1, v, v + 1, v + 2, 2 * v + 1):
                if lo <= c <= hi:
                    s.add(c)
        return sorted(s)[:cap]

    def near_values(self, cap=24):
        """float parameter values around every new constant (both sides, and exactly)"""
        s = []
        for v in self.floats():
            for m in (1.0, 0.999, 1.001, 0.5, 2.0, 0.9, 1.1):
                s.append(v * m)
        return s[:cap]

    def describe(self):
        return [f"{h['function']}: {h['value']!r}" for h in self.new][:40]


def source_hints(repo=None):
    try:
        base = json.load(open(LITERAL_BASELINE))
    except Exception:
        return Hints([])
    cur = source_literals(repo)
    new = []
    for fn, vals in cur.items():
        old = list(base.get(fn, [])) if fn in base else None
        for v in vals:
            if old is not None and v in old:
                old.remove(v)
                continue
            new.append({'function': fn, 'value': v})
    return Hints(new)


import contextlib


@contextlib.contextmanager
def no_probe():
    """sections that count or spy the implementation's internal calls switch the memo probes (harness/probe.py) off: a probe adds calls"""
    try:
        import probe as _p
        prev = _p.ST.enabled
        _p.ST.enabled = False
    except Exception:  # noqa
        _p = None
        prev = False
    try:
        yield
    finally:
        if _p is not None:
            _p.ST.enabled = prev
