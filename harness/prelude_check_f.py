"""PRELUDE pseudo-property, part F: the combinators of lean/EqsigVerif/Prelude/NpF.lean (np.trapezoid with x=, 1-D broadcasting of `*`,
np.take, x ** n, np.linspace, np.logspace) against the real NumPy (driver handlers np_* of Handlers/Freq2.lean)."""
import os
import sys

sys.path.insert(0, os.path.join(os.path.dirname(os.path.abspath(__file__)), 'props'))


def run_prelude_f(ctx):
    import _freq2
    _freq2.prelude_freq2(ctx)
