"""translate + build + audit (DESIGN §2.4 steps 0–3)."""
import json
import os
import re
import shutil
import subprocess
import sys
import time

from core import VERIF, LEAN_DIR, WORK, REPO, ALLOWED_AXIOMS, BuildLock

GEN = os.path.join(LEAN_DIR, 'EqsigVerif', 'Gen')
GOLDEN = os.path.join(LEAN_DIR, 'EqsigVerif', 'GenGolden')
LOCK_FILE = os.path.join(VERIF, 'theorems.lock.json')

FORBIDDEN = re.compile(r'\b(sorry|admit|native_decide|bv_decide|implemented_by)\b|^\s*axiom\s|\bunsafe\s|maxHeartbeats\s+0\b', re.M)


def sh(cmd, cwd=None, timeout=7200):
    p = subprocess.run(cmd, cwd=cwd, capture_output=True, text=True, timeout=timeout)
    out = "\n".join(l for l in (p.stdout + p.stderr).split('\n') if 'conda.cli.condarc' not in l)
    return p.returncode, out


def translate():
    rc, out = sh([sys.executable, os.path.join(VERIF, 'tools', 'py2lean.py'), '--repo', REPO])
    rep = {}
    try:
        rep = json.load(open(os.path.join(GEN, 'translate_report.json')))
    except Exception:
        pass
    return rc, out, rep


def golden_fallback(names=None):
    """replace Gen/<name>.lean by the golden text (namespace GenGolden -> Gen). Returns the list of replaced files."""
    done = []
    for fn in sorted(os.listdir(GOLDEN)):
        if not fn.endswith('.lean'):
            continue
        if names is not None and fn not in names:
            continue
        txt = open(os.path.join(GOLDEN, fn)).read().replace('EqsigVerif.GenGolden', 'EqsigVerif.Gen')
        p = os.path.join(GEN, fn)
        if not os.path.exists(p) or open(p).read() != txt:
            open(p, 'w').write(txt)
        done.append(fn)
    return done


def strip_comments(txt):
    txt = re.sub(r'/-.*?-/', '', txt, flags=re.S)
    txt = re.sub(r'--.*', '', txt)
    return txt


def grep_forbidden():
    hits = []
    root = os.path.join(LEAN_DIR, 'EqsigVerif')
    for d, _, files in os.walk(root):
        for f in files:
            if f.endswith('.lean') and f != 'Audit.lean':   # Audit.lean is the metaprogram that looks for sorryAx
                p = os.path.join(d, f)
                body = strip_comments(open(p).read())
                for m in FORBIDDEN.finditer(body):
                    hits.append(f"{os.path.relpath(p, LEAN_DIR)}: {m.group(0).strip()}")
    return hits


def lake_build(targets):
    return sh(['lake', 'build'] + targets, cwd=LEAN_DIR)


def failing_modules(out):
    mods = set()
    for m in re.finditer(r'^- (EqsigVerif[\w\.]*|Driver|eqsig_driver[\w:]*)', out, flags=re.M):
        mods.add(m.group(1))
    for m in re.finditer(r'error: (EqsigVerif/[\w/]+)\.lean', out):
        mods.add(m.group(1).replace('/', '.'))
    return sorted(mods)


def audit(prop, modules=None):
    """run `#audit EqsigVerif.Props.<prop>`; returns list of dicts"""
    os.makedirs(WORK, exist_ok=True)
    f = os.path.join(WORK, f'Audit_{prop}_{os.getpid()}.lean')
    modules = modules or [prop]
    open(f, 'w').write("".join(f"import EqsigVerif.Props.{m}\n" for m in modules) + f"import EqsigVerif.Audit\n#audit EqsigVerif.Props.{prop}\n")
    try:
        rc, out = sh(['lake', 'env', 'lean', f], cwd=LEAN_DIR)
    finally:
        try:
            os.remove(f)
        except OSError:
            pass
    rows = []
    for l in out.split('\n'):
        if l.startswith('AUDIT '):
            try:
                rows.append(json.loads(l[6:]))
            except Exception:
                pass
    return rc, out, rows


def load_lock():
    try:
        return json.load(open(LOCK_FILE))
    except Exception:
        return {}


def prepare(prop, tier, extra_targets=(), modules=None):
    """translate, build Props.<prop> + driver, audit. Returns a dict describing the proof status:
       {ok, obligations, discharged, theorems:[…], problems:[…], fallback:[…], build_s, checker_cmd}"""
    t0 = time.time()
    res = {'ok': True, 'problems': [], 'fallback': [], 'theorems': [], 'obligations': 0, 'discharged': 0,
           'untranslatable': []}
    modules = list(modules or [prop])
    prop_targets = [f'EqsigVerif.Props.{m}' for m in modules]
    targets = prop_targets + ['EqsigVerif.Audit', 'eqsig_driver'] + list(extra_targets)
    res['checker_cmd'] = (f"python3 tools/py2lean.py --repo {REPO} && cd lean && lake build {' '.join(targets)} && "
                          f"lake env lean <(#audit EqsigVerif.Props.{prop})" + (" && lake env leanchecker <modules>" if tier == 'thorough' else ""))
    with BuildLock():
        rc, out, rep = translate()
        if rc != 0:
            res['problems'].append({'kind': 'translator-crash', 'detail': out[-2000:]})
            res['fallback'] = golden_fallback()
        for u in rep.get('untranslatable', []):
            res['untranslatable'].append(u)
            res['problems'].append({'kind': 'untranslatable', 'detail': u})
        if rep.get('untranslatable') and os.environ.get('VERIF_STRICT_TRANSLATOR') == '1':
            # optional strict policy (DESIGN §7, §11.4 round 5): an anchored function whose shape the translator no longer recognises is a
            # broken tie (-> failing-input search, else `no-failing-input-found`).  Default: the golden text takes over quietly.
            res['ok'] = False
        if rep.get('untranslatable'):
            # the golden model takes over as a hand model for the files that could not be regenerated
            have = set(rep.get('files', {}))
            missing = [f for f in os.listdir(GOLDEN) if f.endswith('.lean') and f not in have]
            res['fallback'] += golden_fallback(missing)
        rc, out = lake_build(targets)
        if rc != 0:
            bad = failing_modules(out)
            res['problems'].append({'kind': 'build-failed', 'modules': bad, 'detail': out[-6000:]})
            # fall back to the golden generated files so that the driver (and whatever does not depend on the
            # broken obligation) can still be built and used for the failing-input search
            res['fallback'] = golden_fallback()
            rc2, out2 = lake_build(['eqsig_driver', 'EqsigVerif.Audit'])
            if rc2 != 0:
                res['problems'].append({'kind': 'driver-build-failed', 'detail': out2[-4000:]})
                res['driver_ok'] = False
            else:
                res['driver_ok'] = True
            rc3, out3 = lake_build(prop_targets)
            res['props_build_with_golden'] = (rc3 == 0)
            res['ok'] = False
        else:
            res['driver_ok'] = True
        hits = grep_forbidden()
        if hits:
            res['ok'] = False
            res['problems'].append({'kind': 'forbidden-construct', 'detail': hits[:20]})
        lock = load_lock().get(prop, {})
        rows = []
        if rc == 0 or res.get('props_build_with_golden'):
            arc, aout, rows = audit(prop, modules)
            if arc != 0 and not rows:
                res['problems'].append({'kind': 'audit-failed', 'detail': aout[-2000:]})
                res['ok'] = False
        by_name = {r['name']: r for r in rows}
        expected = dict(lock)  # name -> type_hash
        names = sorted(set(expected) | set(by_name))
        discharged = 0
        for n in names:
            r = by_name.get(n)
            entry = {'name': n}
            if r is None:
                entry['status'] = 'missing'
                res['ok'] = False
                res['problems'].append({'kind': 'theorem-missing', 'detail': n})
            else:
                entry['axioms'] = r['axioms']
                entry['type_hash'] = r['type_hash']
                bad_ax = [a for a in r['axioms'] if a not in ALLOWED_AXIOMS]
                if bad_ax or r.get('sorry'):
                    entry['status'] = 'bad-axioms'
                    res['ok'] = False
                    res['problems'].append({'kind': 'axioms', 'detail': [n, bad_ax]})
                elif n in expected and expected[n] != r['type_hash']:
                    entry['status'] = 'statement-changed'
                    res['ok'] = False
                    res['problems'].append({'kind': 'statement-changed', 'detail': n})
                elif n not in expected:
                    entry['status'] = 'unlocked'   # proved, but not yet pinned in theorems.lock.json
                    discharged += 1
                else:
                    entry['status'] = 'ok'
                    discharged += 1
            res['theorems'].append(entry)
        if rc != 0 and not res.get('props_build_with_golden'):
            discharged = 0
        elif rc != 0:
            # the obligations hold for the golden model only: not discharged against the current source
            discharged = 0
        res['obligations'] = len(names)
        res['discharged'] = discharged
        if res['obligations'] == 0:
            res['ok'] = False
            res['problems'].append({'kind': 'no-theorems', 'detail': f'no theorem found in EqsigVerif.Props.{prop}'})
        if tier == 'thorough' and rc == 0:
            mods = prop_targets
            lrc, lout = sh(['lake', 'env', 'leanchecker'] + mods, cwd=LEAN_DIR, timeout=3600)
            res['leanchecker'] = {'rc': lrc, 'tail': lout[-500:]}
            if lrc != 0:
                res['ok'] = False
                res['problems'].append({'kind': 'leanchecker', 'detail': lout[-2000:]})
    res['build_s'] = round(time.time() - t0, 1)
    return res


def prop_modules(prop):
    sys.path.insert(0, os.path.join(VERIF, 'harness', 'props'))
    try:
        import importlib
        m = importlib.import_module(prop.lower())
        return list(getattr(m, 'PROP_MODULES', [prop]))
    except Exception:
        return [prop]


def update_lock(props):
    """(maintenance) pin the statement hashes of all theorems currently in the given Props namespaces"""
    lock = load_lock()
    for prop in props:
        mods = prop_modules(prop)
        rc, out = lake_build([f'EqsigVerif.Props.{m}' for m in mods] + ['EqsigVerif.Audit'])
        if rc != 0:
            print(out[-3000:])
            raise SystemExit(f"build failed for {prop}")
        arc, aout, rows = audit(prop, mods)
        lock[prop] = {r['name']: r['type_hash'] for r in rows}
        print(prop, len(rows), 'theorems pinned')
        bad = [r['name'] for r in rows if any(a not in ALLOWED_AXIOMS for a in r['axioms'])]
        if bad:
            print('  WARNING non-standard axioms:', bad)
    json.dump(lock, open(LOCK_FILE, 'w'), indent=1, sort_keys=True)


if __name__ == '__main__':
    if sys.argv[1] == 'lock':
        update_lock(sys.argv[2:])
