#!/usr/bin/env python3
"""(maintenance) regenerate MANIFEST.json from tools/manifest_data.py"""
import json, os, sys
HERE = os.path.dirname(os.path.abspath(__file__))
sys.path.insert(0, HERE)
from manifest_data import BUILT, NOT_APPLICABLE, LEVEL_TEXT, LEVEL_NOTE, TECHNIQUE  # noqa
props = [json.loads(l) for l in open(os.path.join(HERE, '..', 'properties.jsonl'))]
checks = []
for p in props:
    i = p['id']
    if i in BUILT:
        checks.append({
            "property_id": i,
            "quick_cmd": f"./check {i} --tier quick",
            "thorough_cmd": f"./check {i} --tier thorough",
            "evidence_file": f"/verif/evidence/{i}.json",
            "replay_cmd_template": f"./check {i} --replay {{path}}",
            "engine": "lean4-proof+correspondence",
            "level_claimed": {"category": "proof", "text": LEVEL_TEXT[i], "design_ref": "DESIGN.md §5 " + i},
            "level_note": LEVEL_NOTE.get(i, LEVEL_NOTE['default']),
            "technique": TECHNIQUE.get(i, TECHNIQUE['default']),
        })
na = [{"property_id": p['id'], "reason": NOT_APPLICABLE.get(p['id'], "check not built yet (model and theorems in progress; DESIGN.md §8 build order)")}
      for p in props if p['id'] not in BUILT]
m = {"version": 1, "setup_cmd": "./setup.sh",
     "hooks": {"guard": "EQSIG_VERIF",
               "enable": "no source hooks: the harness imports /repo's working tree in-process and introspects it; ./check exports EQSIG_VERIF=1 but nothing in /repo reads it",
               "baseline_off_cmd": "cd /repo && /venv/bin/python -m pytest -ra -q -p no:cacheprovider --timeout=900 --continue-on-collection-errors",
               "source_commits": [], "add_only": True},
     "engines": [{"name": "lean4-proof+correspondence", "path": "/verif/check", "serves_properties": sorted(BUILT),
                  "kind_free_text": "Lean 4.33 + Mathlib theorems over hand/generated models (lean/), Python AST->Lean translator (tools/py2lean.py), native Lean driver executing the models, Python harness running the real eqsig in-process (harness/)"}],
     "checks": checks, "not_applicable": na,
     "notes": "All 20 properties are claimed at level proof (none is not_applicable). Genuine defects repaired in /repo by 'fix:' commits and open findings are listed in known_findings.json."}
json.dump(m, open(os.path.join(HERE, '..', 'MANIFEST.json'), 'w'), indent=1)
print('built:', sorted(BUILT), 'not_applicable:', [x['property_id'] for x in na])
