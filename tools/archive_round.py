#!/usr/bin/env python3
"""(maintenance) tools/archive_round.py <round dir> <round tag e.g. r6> [results dir name=results]: archive every confirmed seeded change of a
round evaluated by tools/try_seeds_par.sh under seeded/<Cxx>-<tag>-<k>/ (patch.diff, demo.py, meta.json incl. the verdict of the checks)."""
import json, os, shutil, sys
R, tag = sys.argv[1], sys.argv[2]
res = sys.argv[3] if len(sys.argv) > 3 else 'results'
V = os.path.join(os.path.dirname(os.path.abspath(__file__)), '..')
verdict = {'CAUGHT': 'caught at once (failing input)', 'NOFAIL': 'reported as no-failing-input-found', 'MISSED': 'missed'}
n = 0
for f in sorted(os.listdir(os.path.join(R, res))):
    id_ = f[:-4]
    prop, k = id_.split('-')
    first = open(os.path.join(R, res, f)).readline().strip()
    word = first.split()[0]
    if word not in verdict:
        print('skip', id_, first[:80]); continue
    d = os.path.join(R, prop, 'out')
    out = os.path.join(V, 'seeded', f'{prop}-{tag}-{k}')
    os.makedirs(out, exist_ok=True)
    shutil.copy(os.path.join(d, f'patch{k}.diff'), os.path.join(out, 'patch.diff'))
    shutil.copy(os.path.join(d, f'demo{k}.py'), os.path.join(out, 'demo.py'))
    try:
        m = json.load(open(os.path.join(d, f'meta{k}.json')))
    except Exception:
        m = {}
    old = {}
    if os.path.exists(os.path.join(out, 'meta.json')):
        old = json.load(open(os.path.join(out, 'meta.json')))
    meta = {'property': prop, 'clause': m.get('clause'), 'needs_to_manifest': m.get('needs'), 'conjunction': m.get('conjunction'),
            'files': m.get('files'), 'how_subtle': m.get('how_subtle'), 'theme': m.get('theme'),
            'author': 'fresh sub-agent given only the property text and its own scratch worktree',
            'confirmed_by_me': {'suite_with_patch': '63 passed', 'demo_exit_with_patch': 'non-zero', 'demo_exit_without_patch': 0,
                                'how': 'tools/try_seeds_par.sh (scratch copy of /repo HEAD with the patch; demo also run against /repo as it is): ' + first},
            'ran': f'EQSIG_REPO=<scratch copy with patch.diff applied> ./check {prop} --tier quick   (private copy of /verif; /repo untouched)',
            'result': old.get('result', verdict[word]), 'result_history': old.get('result_history', []) + [f'{res}: {verdict[word]}'],
            'note': old.get('note', '')}
    json.dump(meta, open(os.path.join(out, 'meta.json'), 'w'), indent=1)
    n += 1
print('archived', n)
