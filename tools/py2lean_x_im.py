#!/usr/bin/env python3
"""py2lean_x_im — plug-in of tools/py2lean.py for eqsig/im.py: durations, CAVdp loop, power-law cycle counting.

TARGETS = [gen_im_dur, gen_im_power, gen_im_cavdp]; each gen(repo, ns) -> {file name: Lean text}.  Standard library only.

Translation rules (fixed; everything else raises Untranslatable(function, line, construct)):

values   every Python sub-expression has a kind
           scal   a number                         (Lean `α`)
           nat    a non-negative integer           (Lean `Nat`; cast `(n : α)` when it meets a scal)
           int    an integer literal               (adapts to nat / scal)
           arr    a 1-D float array                (Lean `List α`)   — kept *lazily* as an element-wise expression over ≤ 2 base
                  arrays (`ew`): `f(A)` ↦ `A.map (fun x => f x)`, `f(A, B)` ↦ `List.zipWith (fun x y => f x y) A B`; a chain of
                  element-wise operations (also across temporaries) is fused into one `map`/`zipWith`
           idx    an index array                   (Lean `List Nat`), `wh` = the 1-tuple returned by `np.where(mask)`
           mask   an element-wise Boolean expression (an `ew` whose body is a `Bool`)
operators  + - * /  ↦ the same Lean operator on `α` (`Nat` for nat+nat, nat*nat); `x ** 2` ↦ `x * x`; `x ** e` ↦ `pow x e` (`pow` is a
           parameter); `a > b` ↦ `decide (b < a)`, `a < b` ↦ `decide (a < b)`, `a >= b` ↦ `decide (b ≤ a)`, `a <= b` ↦ `decide (a ≤ b)`;
           `m1 & m2`, `m1 * m2` on masks ↦ `&&`
literals   kept as the source decimal (`0.05`, `1.0e-14`); a decimal with zero fractional part is the integer numeral (`1.` = `1.0` = `1`)
calls      np.cumsum ↦ Np.cumsum · np.abs/abs ↦ Np.absv (element-wise) · np.where(mask) ↦ Np.whereIdx (fun x => mask) base ·
           np.where(mask, u, v) ↦ element-wise `if … then u else v` · np.take(a, i)/a[wh] ↦ Np.takeIdx · a[i:j] ↦ Np.slice ·
           np.arange(n) ↦ Np.arange · np.zeros_like(a) ↦ a.map (fun _ => 0) · np.put(a, i, v) ↦ a := Np.putIdx a i v ·
           np.diff ↦ Np.diff · np.insert(a, 0, v) ↦ v :: a · np.insert(a, i, v) ↦ List.insertIdx a i v · len(a) ↦ a.length ·
           np.sqrt ↦ parameter `sqrt` · np.trapz(y, dx=d) ↦ Model.Im.trapz d y · np.max(a)/max(a) ↦ pyMax a (partial)
partial    `a[-1]` ↦ pyLast a, `a[0]` ↦ pyFirst a, `max(a)` ↦ pyMax a in the `Except ErrKind` monad, bound (`let vK ← …`) at the
           statement where Python evaluates them, in evaluation order; a textually identical partial expression is bound once
statements `name = e` (inlined), `return e`, `if <flag parameter>:` (the function is emitted once per flag value), `if p is None`
           ↦ `match p with | none | some`, `try … except IndexError …` ↦ `catchIndexError`, `raise ValueError` ↦ `.error .ValueError`,
           calls of other translated functions ↦ calls of their generated definitions (defaults read from the callee's signature)
"""
import ast
import os
import re
import sys

sys.path.insert(0, os.path.dirname(os.path.abspath(__file__)))
from py2lean_struct import Untranslatable  # noqa: E402

TARGETS = []

LEAN_KEYWORDS = {'end', 'from', 'at', 'in', 'fun', 'let', 'have', 'show', 'open', 'then', 'else', 'if', 'do', 'by', 'with', 'where'}


def lname(py):
    """Python identifier -> Lean identifier (keywords get a trailing underscore)"""
    return py + '_' if py in LEAN_KEYWORDS else py


def lit_text(seg):
    """Python numeric literal text -> canonical Lean literal text denoting the same decimal"""
    t = seg.replace('_', '').lower()
    if t.endswith('.'):
        t = t[:-1]
    if t.startswith('.'):
        t = '0' + t
    if 'e' in t:
        mant, exp = t.split('e')
        if '.' not in mant:
            mant = mant + '.0'
        return f"{mant}e{int(exp)}"
    if '.' in t:
        ip, fp = t.split('.')
        if set(fp) <= {'0'}:
            return str(int(ip))          # 1.0 / 1. / 1 are the same numeral
        return f"{int(ip)}.{fp}"
    if not re.fullmatch(r'[0-9]+', t):
        raise ValueError(seg)
    return str(int(t))


def find_function(mod, name):
    found = [n for n in mod.body if isinstance(n, ast.FunctionDef) and n.name == name]
    if len(found) != 1:
        raise Untranslatable(name, 0, f"{len(found)} definitions of the function found")
    return found[0]


def strip_outer(t):
    if t.startswith('(') and t.endswith(')'):
        depth = 0
        for i, ch in enumerate(t):
            depth += ch == '('
            depth -= ch == ')'
            if depth == 0 and i < len(t) - 1:
                return t
        if ' : ' in t and t.count('(') == 1:
            return t                      # a type ascription
        return t[1:-1]
    return t


def undecide(t):
    """`decide (p)` -> `p` (an `if` on a single comparison is emitted on the proposition); other Boolean bodies unchanged"""
    if t.startswith('decide (') and strip_outer(t[7:]) != t[7:]:
        return strip_outer(t[7:])
    return strip_outer(t)


P0, P1 = '⟦0⟧', '⟦1⟧'      # placeholders of the element variables inside an `ew` body


class V:
    """a translated value"""

    def __init__(self, kind, text=None, bases=None, body=None, elem=None, belem=None):
        self.kind = kind        # scal nat int arr idx wh none obj optfun bool tuple
        self.text = text
        self.bases = bases      # kind arr/idx/mask kept lazily: list of base array texts
        self.body = body        # element expression with placeholders
        self.elem = elem        # 'scal' | 'nat' | 'bool'  (kind of the element expression)
        self.belem = belem      # element kinds of the bases
        self.nonempty = False   # arrays: syntactically non-empty (built by an insert); nat: syntactically ≥ 1 (its length)

    def __repr__(self):
        return f"V({self.kind},{self.text},{self.bases},{self.body})"


def arr_of(text, elem='scal', nonempty=False):
    v = V('arr' if elem == 'scal' else 'idx', bases=[text], body=P0, elem=elem, belem=[elem])
    v.nonempty = nonempty
    return v


class Tr:
    """translator of one function body (one specialisation of its flag parameters)"""

    def __init__(self, fname, src, mod, env, flags=None, registry=None, opts=None):
        self.fname, self.src, self.mod = fname, src, mod
        self.env = dict(env)
        self.flags = flags or {}
        self.registry = registry or {}
        self.opts = opts or {}
        self.lines = []
        self.bound = {}
        self.counter = [0, 0]
        self.used_flags = set()
        for k, v in self.env.items():
            if isinstance(v.text, str) and re.fullmatch(r'x|y|[vt][0-9]+|pow|sqrt|pi|default', v.text) and v.kind in ('scal', 'nat') and k != v.text:
                raise Untranslatable(fname, 0, f"parameter name {k} clashes with a reserved name")

    # ---------------------------------------------------------------- helpers
    def fail(self, node, what):
        seg = ast.get_source_segment(self.src, node) if hasattr(node, 'lineno') else ''
        raise Untranslatable(self.fname, getattr(node, 'lineno', 0), f"{what}: {seg}")

    def sub(self):
        t = Tr(self.fname, self.src, self.mod, self.env, self.flags, self.registry, self.opts)
        t.bound = dict(self.bound)
        t.counter = self.counter
        t.used_flags = self.used_flags
        return t

    def bind(self, mtext):
        """bind a partial (monadic) expression at the current statement; identical text is bound once"""
        if mtext in self.bound:
            return self.bound[mtext]
        self.counter[0] += 1
        v = f"v{self.counter[0]}"
        self.bound[mtext] = v
        self.lines.append(f"let {v} ← {mtext}")
        return v

    def let(self, text):
        key = ':= ' + text
        if key in self.bound:
            return self.bound[key]
        self.counter[1] += 1
        v = f"t{self.counter[1]}"
        self.bound[key] = v
        self.lines.append(f"let {v} := {strip_outer(text)}")
        return v

    def is_ew(self, v):
        return v.kind in ('arr', 'idx', 'mask')

    def mat(self, v, node=None):
        """materialise a lazy array as Lean text"""
        if not self.is_ew(v):
            self.fail(node, f"expected an array, got {v.kind}")
        if v.body == P0 and len(v.bases) == 1:
            return v.bases[0]
        bx = 'x' if v.belem[0] != 'nat' else '(x : Nat)'
        if len(v.bases) == 1:
            return f"({v.bases[0]}.map (fun {bx} => {strip_outer(v.body.replace(P0, 'x'))}))"
        by = 'y' if v.belem[1] != 'nat' else '(y : Nat)'
        return f"(List.zipWith (fun {bx} {by} => {strip_outer(v.body.replace(P0, 'x').replace(P1, 'y'))}) {v.bases[0]} {v.bases[1]})"

    def scal(self, v, node=None):
        if v.kind in ('scal', 'int'):
            return v.text
        if v.kind == 'nat':
            t = strip_outer(v.text)
            if re.fullmatch(r'[A-Za-z_][A-Za-z_0-9.]*', t):
                return f"({t} : α)"
            return f"(({t} : Nat) : α)"          # the cast of the integer expression, not of its operands
        self.fail(node, f"expected a number, got {v.kind}")

    def nat(self, v, node=None):
        if v.kind in ('nat', 'int'):
            return v.text
        self.fail(node, f"expected a non-negative integer, got {v.kind}")

    def ew_combine(self, vals, node, fn, out_elem):
        """element-wise combination; `vals` are V (arrays or scalars); fn(list of element texts) -> body text"""
        bases, belem = [], []
        texts = []
        for v in vals:
            if self.is_ew(v):
                body = v.body
                mapping = {}
                for i, b in enumerate(v.bases):
                    if b not in bases:
                        if len(bases) == 2:
                            self.fail(node, "element-wise expression over more than two arrays")
                        bases.append(b)
                        belem.append(v.belem[i])
                    mapping[i] = bases.index(b)
                tmp = body.replace(P0, '⟦a⟧').replace(P1, '⟦b⟧')
                tmp = tmp.replace('⟦a⟧', (P0, P1)[mapping[0]])
                if 1 in mapping:
                    tmp = tmp.replace('⟦b⟧', (P0, P1)[mapping[1]])
                if v.elem == 'nat' and out_elem != 'natkeep':
                    tmp = f"({strip_outer(tmp)} : α)"
                texts.append(tmp)
            else:
                texts.append(self.scal(v, node))
        kind = {'scal': 'arr', 'bool': 'mask', 'nat': 'idx'}[out_elem]
        return V(kind, bases=bases, body=fn(texts), elem=out_elem, belem=belem)

    # ---------------------------------------------------------------- expressions
    def lit(self, node):
        seg = ast.get_source_segment(self.src, node)
        if isinstance(node.value, bool) or not isinstance(node.value, (int, float)):
            self.fail(node, "literal")
        if id(node) in self.opts.get('lit_subst', {}):
            return V('scal', self.opts['lit_subst'][id(node)])      # a literal extracted elsewhere (Gen/Consts.lean): a parameter here
        t = lit_text(seg)
        if re.fullmatch(r'[0-9]+', t):
            return V('int', t)
        return V('scal', t)

    def np_name(self, f):
        if isinstance(f, ast.Attribute) and isinstance(f.value, ast.Name) and f.value.id == 'np':
            return 'np.' + f.attr
        if isinstance(f, ast.Name):
            return f.id
        if isinstance(f, ast.Attribute):
            return ast.get_source_segment(self.src, f)
        return None

    def tr(self, e):
        if isinstance(e, ast.Name):
            if e.id in self.env:
                return self.env[e.id]
            self.fail(e, "unknown name")
        if isinstance(e, ast.Constant):
            if e.value is None:
                return V('none')
            return self.lit(e)
        if isinstance(e, ast.Attribute):
            if isinstance(e.value, ast.Name) and e.value.id in self.env and self.env[e.value.id].kind == 'obj':
                attrs = self.env[e.value.id].text
                if e.attr in attrs:
                    return attrs[e.attr]
            self.fail(e, "attribute")
        if isinstance(e, ast.Tuple):
            return V('tuple', [self.tr(x) for x in e.elts])
        if isinstance(e, ast.List) and not e.elts and self.opts.get('loops'):
            v = arr_of('[]')
            v.empty = True
            return v
        if isinstance(e, ast.UnaryOp) and isinstance(e.op, ast.USub):
            v = self.tr(e.operand)
            if v.kind == 'scal':
                return V('scal', f"(-{v.text})")
            self.fail(e, "negation")
        if isinstance(e, ast.BinOp):
            return self.binop(e)
        if isinstance(e, ast.Compare):
            return self.compare(e)
        if isinstance(e, ast.Subscript):
            return self.subscript(e)
        if isinstance(e, ast.Call):
            return self.call(e)
        self.fail(e, f"expression {type(e).__name__}")

    def binop(self, e):
        if isinstance(e.op, ast.Pow):
            base = self.tr(e.left)
            r = e.right
            if isinstance(r, ast.Constant) and r.value == 2 and not isinstance(r.value, bool) and lit_text(ast.get_source_segment(self.src, r)) == '2':
                if self.is_ew(base) and base.elem == 'scal':
                    return self.ew_combine([base], e, lambda t: f"({t[0]} * {t[0]})", 'scal')
                if base.kind in ('scal',):
                    return V('scal', f"({base.text} * {base.text})")
                self.fail(e, "square")
            if not self.opts.get('pow'):
                self.fail(e, "power with a non-literal exponent (no `pow` parameter in this target)")
            ex = self.tr(r)
            if self.is_ew(base) and base.elem == 'scal' and ex.kind in ('scal', 'int', 'nat'):
                return self.ew_combine([base, ex], e, lambda t: f"(pow {t[0]} {t[1]})", 'scal')
            if base.kind in ('scal', 'int', 'nat') and ex.kind in ('scal', 'int', 'nat'):
                return V('scal', f"(pow {self.scal(base, e)} {self.scal(ex, e)})")
            self.fail(e, "power")
        l, r = self.tr(e.left), self.tr(e.right)
        op = {ast.Add: '+', ast.Sub: '-', ast.Mult: '*', ast.Div: '/', ast.BitAnd: '&'}.get(type(e.op))
        if op is None:
            self.fail(e, f"operator {type(e.op).__name__}")
        if l.kind == 'mask' or r.kind == 'mask':
            if l.kind == r.kind == 'mask' and op in ('&', '*'):
                return self.ew_combine([l, r], e, lambda t: f"({t[0]} && {t[1]})", 'bool')
            self.fail(e, "operator on masks")
        if op == '&':
            self.fail(e, "operator & on numbers")
        if l.kind in ('nat', 'int') and r.kind in ('nat', 'int'):
            if op in ('+', '*'):
                if l.kind == r.kind == 'int':
                    self.fail(e, "arithmetic on two integer literals")
                return V('nat', f"({l.text} {op} {r.text})")
            if op == '-' and r.kind == 'int' and r.text == '1' and l.kind == 'nat' and l.nonempty:
                return V('nat', f"({l.text} - 1)")     # `len(x) - 1` of a syntactically non-empty x: exact in Nat
            if op == '/':
                return V('scal', f"({self.scal(l, e)} / {self.scal(r, e)})")
            self.fail(e, "integer subtraction")
        if self.is_ew(l) or self.is_ew(r):
            for v in (l, r):
                if not (self.is_ew(v) or v.kind in ('scal', 'int', 'nat')):
                    self.fail(e, "array operator")
            return self.ew_combine([l, r], e, lambda t: f"({t[0]} {op} {t[1]})", 'scal')
        return V('scal', f"({self.scal(l, e)} {op} {self.scal(r, e)})")

    def compare(self, e):
        if len(e.ops) != 1:
            self.fail(e, "chained comparison")
        l, r = self.tr(e.left), self.tr(e.comparators[0])
        o = type(e.ops[0])
        if o not in (ast.Lt, ast.Gt, ast.LtE, ast.GtE):
            self.fail(e, "comparison operator")
        if o in (ast.LtE, ast.GtE) and not self.opts.get('le'):
            self.fail(e, "non-strict comparison (no `≤` in this target)")

        def body(t):
            a, b = (t[0], t[1]) if o in (ast.Lt, ast.LtE) else (t[1], t[0])
            return f"decide ({a} {'<' if o in (ast.Lt, ast.Gt) else '≤'} {b})"
        if self.is_ew(l) or self.is_ew(r):
            return self.ew_combine([l, r], e, body, 'bool')
        return V('bool', body([self.scal(l, e), self.scal(r, e)]))

    def index_const(self, s):
        """-1 / 0 / other"""
        if isinstance(s, ast.UnaryOp) and isinstance(s.op, ast.USub) and isinstance(s.operand, ast.Constant) and s.operand.value == 1 \
                and not isinstance(s.operand.value, (bool, float)):
            return -1
        if isinstance(s, ast.Constant) and s.value == 0 and not isinstance(s.value, (bool, float)):
            return 0
        return None

    def subscript(self, e):
        s = e.slice
        # x[:, np.newaxis]  (scalar-exponent specialisation: the (k,1) column is modelled by the 1-D list)
        if isinstance(s, ast.Tuple) and len(s.elts) == 2 and isinstance(s.elts[0], ast.Slice) and \
                s.elts[0].lower is None and s.elts[0].upper is None and s.elts[0].step is None and \
                isinstance(s.elts[1], ast.Attribute) and ast.get_source_segment(self.src, s.elts[1]) == 'np.newaxis':
            if not self.opts.get('column'):
                self.fail(e, "[:, np.newaxis]")
            v = self.tr(e.value)
            if v.kind != 'arr':
                self.fail(e, "[:, np.newaxis] of a non-array")
            return v
        v = self.tr(e.value)
        c = self.index_const(s)
        if v.kind == 'wh':
            if c == 0:
                return arr_of(v.text, 'nat')
            self.fail(e, "subscript of np.where(...)")
        if isinstance(s, ast.Slice):
            if s.step is not None or s.lower is None or s.upper is None or v.kind != 'arr':
                self.fail(e, "slice")
            a, b = self.tr(s.lower), self.tr(s.upper)
            return arr_of(f"(Np.slice {self.mat(v, e)} {self.nat(a, e)} {self.nat(b, e)})")
        if c is not None and v.kind in ('arr', 'idx'):
            m = self.bind(f"{'pyLast' if c == -1 else 'pyFirst'} {self.mat(v, e)}")
            return V('scal' if v.kind == 'arr' else 'nat', m)
        if v.kind == 'arr':
            i = self.tr(s)
            if i.kind == 'wh':
                return arr_of(self.bind(f"pyTake {self.mat(v, e)} {i.text}"))
            if i.kind == 'nat' and self.opts.get('getelem'):
                return V('scal', self.bind(f"pyGet {self.mat(v, e)} {i.text}"))
        self.fail(e, "subscript")

    def call(self, e):
        name = self.np_name(e.func)
        kw = {k.arg: k.value for k in e.keywords}
        a = e.args
        if self.opts.get('axis0') and 'axis' in kw and isinstance(kw['axis'], ast.Constant) and kw['axis'].value == 0 and \
                name in ('np.cumsum', 'np.insert'):
            kw = {k: v for k, v in kw.items() if k != 'axis'}      # 1-D (scalar exponent) specialisation: axis 0 is the only axis
        if name in ('np.abs', 'abs') and len(a) == 1 and not kw:
            v = self.tr(a[0])
            if self.is_ew(v) and v.elem == 'scal':
                return self.ew_combine([v], e, lambda t: f"(Np.absv {t[0]})", 'scal')
            if v.kind == 'scal':
                return V('scal', f"(Np.absv {v.text})")
        if name == 'np.cumsum' and len(a) == 1 and not kw:
            v = self.tr(a[0])
            if v.kind == 'arr':
                return arr_of(f"(Np.cumsum {self.mat(v, e)})")
        if name == 'np.diff' and len(a) == 1 and not kw:
            v = self.tr(a[0])
            if v.kind == 'arr':
                return arr_of(f"(Np.diff {self.mat(v, e)})")
        if name == 'np.where' and len(a) == 1 and not kw:
            v = self.tr(a[0])
            if v.kind == 'mask' and len(v.bases) == 1:
                return V('wh', f"(Np.whereIdx (fun x => {strip_outer(v.body.replace(P0, 'x'))}) {v.bases[0]})")
        if name == 'np.where' and len(a) == 3 and not kw:
            c, x, y = self.tr(a[0]), self.tr(a[1]), self.tr(a[2])
            if c.kind == 'mask':
                return self.ew_combine([c, x, y], e, lambda t: f"(if {undecide(t[0])} then {t[1]} else {t[2]})", 'scal')
        if name == 'np.take' and len(a) == 2 and not kw:
            v, i = self.tr(a[0]), self.tr(a[1])
            if v.kind == 'arr' and i.kind == 'idx':
                return arr_of(self.bind(f"pyTake {self.mat(v, e)} {self.mat(i, e)}"))
        if name == 'np.arange' and len(a) == 1 and not kw:
            n = self.tr(a[0])
            if n.kind == 'nat':
                return arr_of(f"(Np.arange {n.text})", 'nat')
        if name == 'np.zeros_like' and len(a) == 1 and not kw:
            v = self.tr(a[0])
            if v.kind == 'arr':
                return arr_of(f"({self.mat(v, e)}.map (fun _ => 0))")
        if name == 'len' and len(a) == 1 and not kw:
            v = self.tr(a[0])
            if v.kind in ('arr', 'idx'):
                n = V('nat', f"{self.mat(v, e)}.length")
                n.nonempty = v.nonempty and v.body == P0
                return n
        if name == 'np.insert' and len(a) == 3 and not kw:
            v, val = self.tr(a[0]), self.tr(a[2])
            if v.kind in ('arr', 'idx'):
                want = self.scal(val, e) if v.kind == 'arr' else self.nat(val, e)
                if self.index_const(a[1]) == 0:
                    return arr_of(f"({want} :: {self.mat(v, e)})", v.elem, nonempty=True)
                pos = self.tr(a[1])
                if pos.kind == 'nat':
                    return arr_of(f"(List.insertIdx {self.mat(v, e)} {pos.text} {want})", v.elem, nonempty=v.nonempty and v.body == P0)
        if name == 'np.sqrt' and len(a) == 1 and not kw and self.opts.get('sqrt'):
            v = self.tr(a[0])
            if self.is_ew(v) and v.elem == 'scal':
                return self.ew_combine([v], e, lambda t: f"(sqrt {t[0]})", 'scal')
            if v.kind == 'scal':
                return V('scal', f"(sqrt {v.text})")
        if name == 'np.trapz' and len(a) == 1 and set(kw) == {'dx'}:
            v, d = self.tr(a[0]), self.tr(kw['dx'])
            if v.kind == 'arr' and d.kind == 'scal':
                return V('scal', f"(Model.Im.trapz {d.text} {self.mat(v, e)})")
        if name in ('np.max', 'max') and len(a) == 1 and not kw:
            v = self.tr(a[0])
            if v.kind == 'arr':
                return V('scal', self.bind(f"pyMax {self.mat(v, e)}"))
        if name == 'interp1d' and len(a) == 2 and self.opts.get('interp1d_previous'):
            kwt = {k: (v.value if isinstance(v, ast.Constant) else None) for k, v in kw.items()}
            if kwt == {'kind': 'previous', 'axis': 0} or kwt == {'kind': 'previous'}:
                xs, ys = self.tr(a[0]), self.tr(a[1])
                if xs.kind == 'idx' and ys.kind == 'arr':
                    return V('interp_prev', (self.mat(xs, e), self.mat(ys, e)))
        if isinstance(e.func, ast.Name) and e.func.id in self.env and self.env[e.func.id].kind == 'interp_prev' and len(a) == 1 and not kw:
            q = self.tr(a[0])
            if q.kind == 'idx' and q.body == P0:
                xs, ys = self.env[e.func.id].text
                return V('arr', bases=list(q.bases), body=f"(interp1dPrevious {xs} {ys} {P0})", elem='scal', belem=['nat'])
        if name == 'np.reshape' and len(a) == 2 and not kw and self.opts.get('column'):
            v, n = self.tr(a[0]), a[1]
            # (k,1) -> (k,): identity on the 1-D model; the target length must be `len(<array parameter>)`
            if v.kind == 'arr' and isinstance(n, ast.Call) and self.np_name(n.func) == 'len' and len(n.args) == 1 and \
                    isinstance(n.args[0], ast.Name) and n.args[0].id in self.opts.get('array_params', ()):
                return v
        if self.opts.get('loops'):
            if name == 'int' and len(a) == 1 and not kw:
                v = self.tr(a[0])
                if v.kind == 'scal':
                    return V('nat', f"(int {v.text})")       # Python `int()` of a non-negative number: a parameter
            if name == 'np.arange' and len(a) == 3 and not kw:
                vs = [self.tr(x) for x in a]
                if all(v.kind in ('scal', 'int') for v in vs):
                    return arr_of("(arange3 " + " ".join(self.scal(v, e) for v in vs) + ")")
            if name == 'trapezoid' and len(a) == 2 and not kw:
                y, x = self.tr(a[0]), self.tr(a[1])
                if y.kind == x.kind == 'arr':
                    return V('scal', f"(trapezoid {self.mat(y, e)} {self.mat(x, e)})")
            if name == 'np.array' and len(a) == 1 and not kw:
                v = self.tr(a[0])
                if v.kind == 'arr':
                    return v                                 # a copy of an array / the array of a list of numbers
            if name == 'np.interp' and len(a) == 3 and not kw:
                x, xp, fp = self.tr(a[0]), self.tr(a[1]), self.tr(a[2])
                if x.kind == 'arr' and xp.kind == 'idx' and fp.kind == 'arr':
                    return arr_of(self.bind(f"interp {self.mat(x, e)} {self.mat(xp, e)} {self.mat(fp, e)}"))
        if name in self.registry:
            return self.registry[name](self, e)
        # call of an optional callable parameter on the object parameter: `im(asig)`
        if isinstance(e.func, ast.Name) and e.func.id in self.env and self.env[e.func.id].kind == 'optfun_some' and \
                len(a) == 1 and not kw and isinstance(a[0], ast.Name) and self.env.get(a[0].id, V('x')).kind == 'obj':
            return self.env[e.func.id].text
        self.fail(e, "call")

    # ---------------------------------------------------------------- statements
    def ret_text(self, v, want, node):
        if want == 'pair':
            if v.kind == 'tuple' and len(v.text) == 2:
                return f"({strip_outer(self.scal(v.text[0], node))}, {strip_outer(self.scal(v.text[1], node))})"
        elif want == 'optpair':
            if v.kind == 'tuple' and len(v.text) == 2:
                if v.text[0].kind == v.text[1].kind == 'none':
                    return "none"
                return f"(some ({strip_outer(self.scal(v.text[0], node))}, {strip_outer(self.scal(v.text[1], node))}))"
        elif want == 'scal':
            if v.kind == 'int':
                return f"({v.text} : α)"
            if v.kind in ('scal',):
                return v.text
        elif want == 'arr':
            if v.kind == 'arr':
                return self.mat(v, node)
        self.fail(node, f"return value is not of the expected shape `{want}`")

    def loop_body(self, stmts):
        """statements of a loop body (no return): updates self.env, appends binds to self.lines"""
        k = 0
        while k < len(stmts):
            st = stmts[k]
            k += 1
            if isinstance(st, ast.Assign) and len(st.targets) == 1 and isinstance(st.targets[0], ast.Name):
                self.env[st.targets[0].id] = self.tr(st.value)
                continue
            # X.append(e)
            if isinstance(st, ast.Expr) and isinstance(st.value, ast.Call) and isinstance(st.value.func, ast.Attribute) and \
                    st.value.func.attr == 'append' and isinstance(st.value.func.value, ast.Name) and len(st.value.args) == 1 and \
                    not st.value.keywords and self.env.get(st.value.func.value.id, V('x')).kind == 'arr':
                x = st.value.func.value.id
                v = self.tr(st.value.args[0])
                self.env[x] = arr_of(f"({self.mat(self.env[x], st)} ++ [{strip_outer(self.scal(v, st))}])")
                continue
            # gather: X = [] (just before); for j in range(lo, hi): X.append(A[j])
            if isinstance(st, ast.For):
                prev = stmts[k - 2] if k >= 2 else None
                b = st.body[0] if len(st.body) == 1 else None
                ok = (not st.orelse and isinstance(st.target, ast.Name) and isinstance(st.iter, ast.Call) and
                      self.np_name(st.iter.func) == 'range' and len(st.iter.args) == 2 and not st.iter.keywords and
                      isinstance(b, ast.Expr) and isinstance(b.value, ast.Call) and isinstance(b.value.func, ast.Attribute) and
                      b.value.func.attr == 'append' and isinstance(b.value.func.value, ast.Name) and len(b.value.args) == 1 and
                      isinstance(b.value.args[0], ast.Subscript) and isinstance(b.value.args[0].slice, ast.Name) and
                      b.value.args[0].slice.id == st.target.id and isinstance(b.value.args[0].value, ast.Name) and
                      isinstance(prev, ast.Assign) and isinstance(prev.targets[0], ast.Name) and
                      prev.targets[0].id == b.value.func.value.id and isinstance(prev.value, ast.List) and not prev.value.elts)
                if not ok:
                    self.fail(st, "inner loop is not `X = []; for j in range(lo, hi): X.append(A[j])`")
                lo, hi = self.tr(st.iter.args[0]), self.tr(st.iter.args[1])
                src_arr = self.tr(b.value.args[0].value)
                if src_arr.kind != 'arr' or lo.kind not in ('nat', 'int') or hi.kind not in ('nat', 'int'):
                    self.fail(st, "gather loop operands")
                self.env[prev.targets[0].id] = arr_of(self.bind(f"pyGetRange {self.mat(src_arr, st)} {lo.text} {hi.text}"))
                continue
            if isinstance(st, ast.If):
                # `if c: x = e` on an already defined scalar x
                if not st.orelse and len(st.body) == 1 and isinstance(st.body[0], ast.Assign) and \
                        isinstance(st.body[0].targets[0], ast.Name) and st.body[0].targets[0].id in self.env:
                    x = st.body[0].targets[0].id
                    c, v, old = self.tr(st.test), self.tr(st.body[0].value), self.env[x]
                    if c.kind == 'bool' and v.kind in ('scal', 'int') and old.kind in ('scal', 'int'):
                        self.env[x] = V('scal', f"(if {undecide(c.text)} then {self.scal(v, st)} else {self.scal(old, st)})")
                        continue
                # `if c1: x = e1  elif c2: x = e2  else: raise ValueError(...)`
                chain, cur = [], st
                while True:
                    if len(cur.body) != 1 or not isinstance(cur.body[0], ast.Assign) or not isinstance(cur.body[0].targets[0], ast.Name):
                        self.fail(cur, "if statement in a loop body")
                    c, v = self.tr(cur.test), self.tr(cur.body[0].value)
                    if c.kind != 'bool' or v.kind not in ('scal', 'int'):
                        self.fail(cur, "if statement in a loop body")
                    chain.append((cur.body[0].targets[0].id, undecide(c.text), self.scal(v, cur)))
                    if len(cur.orelse) == 1 and isinstance(cur.orelse[0], ast.If):
                        cur = cur.orelse[0]
                        continue
                    break
                els = cur.orelse
                if len({x for x, _, _ in chain}) == 1 and len(els) == 1 and isinstance(els[0], ast.Raise) and \
                        isinstance(els[0].exc, ast.Call) and isinstance(els[0].exc.func, ast.Name) and els[0].exc.func.id == 'ValueError':
                    txt = " else ".join(f"if {c} then pure {v}" for _, c, v in chain) + " else Except.error ErrKind.ValueError"
                    self.env[chain[0][0]] = V('scal', self.bind(f"({txt} : Except ErrKind α)"))
                    continue
                self.fail(st, "if statement in a loop body")
            self.fail(st, f"statement {type(st).__name__} in a loop body")

    def block(self, stmts, want):
        """translate a statement list every path of which returns; result: Lean `do` block text (list of lines)"""
        for k, st in enumerate(stmts):
            rest = stmts[k + 1:]
            if isinstance(st, ast.Expr) and isinstance(st.value, ast.Constant) and isinstance(st.value.value, str):
                continue
            if isinstance(st, ast.ImportFrom) and st.module in ('scipy.integrate', 'scipy.interpolate'):
                continue
            if isinstance(st, ast.Expr) and isinstance(st.value, ast.Call):
                c = st.value
                nm = self.np_name(c.func)
                if nm == 'deprecation' and len(c.args) == 1 and isinstance(c.args[0], ast.Constant) and isinstance(c.args[0].value, str):
                    continue      # emits a warning only (eqsig.exceptions.deprecation)
                if nm == 'np.put' and len(c.args) == 3 and not c.keywords and isinstance(c.args[0], ast.Name):
                    tgt, i, v = self.tr(c.args[0]), self.tr(c.args[1]), self.tr(c.args[2])
                    if tgt.kind == 'arr' and i.kind == 'idx' and v.kind == 'arr':
                        self.env[c.args[0].id] = arr_of(f"(Np.putIdx {self.mat(tgt, st)} {self.mat(i, st)} {self.mat(v, st)})")
                        continue
                self.fail(st, "expression statement")
            if isinstance(st, ast.Assign) and len(st.targets) == 1 and isinstance(st.targets[0], ast.Name):
                if st.targets[0].id in self.flags:
                    self.fail(st, "assignment to a flag parameter")
                v = self.tr(st.value)
                if self.is_ew(v) and v.body == P0 and len(v.bases) == 1 and len(v.bases[0]) > 40:
                    # a long materialised array is let-bound once (canonical name), later uses refer to the name
                    nv = arr_of(self.let(v.bases[0]), v.elem, v.nonempty)
                    v = nv
                self.env[st.targets[0].id] = v
                continue
            if isinstance(st, ast.If):
                t = st.test
                neg = False
                if isinstance(t, ast.UnaryOp) and isinstance(t.op, ast.Not):
                    neg, t = True, t.operand
                if isinstance(t, ast.Name) and t.id in self.flags:
                    self.used_flags.add(t.id)
                    chosen = st.body if (self.flags[t.id] != neg) else st.orelse
                    return self.block(list(chosen) + list(rest), want)
                # hasattr(b, '__len__'): False for the scalar-exponent specialisation
                if isinstance(t, ast.Call) and self.np_name(t.func) == 'hasattr' and len(t.args) == 2 and \
                        isinstance(t.args[0], ast.Name) and t.args[0].id in self.opts.get('scalar_params', ()) and \
                        isinstance(t.args[1], ast.Constant) and t.args[1].value == '__len__':
                    chosen = st.body if neg else st.orelse
                    return self.block(list(chosen) + list(rest), want)
                if isinstance(t, ast.Compare) and len(t.ops) == 1 and isinstance(t.ops[0], ast.Is) and isinstance(t.left, ast.Name) and \
                        isinstance(t.comparators[0], ast.Constant) and t.comparators[0].value is None and not neg and \
                        t.left.id in self.env and self.env[t.left.id].kind == 'optfun':
                    p = t.left.id
                    if len(st.body) == 1 and len(st.orelse) == 1 and all(
                            isinstance(x, ast.Assign) and len(x.targets) == 1 and isinstance(x.targets[0], ast.Name) for x in (st.body[0], st.orelse[0])) \
                            and st.body[0].targets[0].id == st.orelse[0].targets[0].id:
                        tn = self.sub()
                        tn.lines = self.lines
                        del tn.env[p]
                        vn = tn.tr(st.body[0].value)
                        ts = self.sub()
                        ts.lines = self.lines
                        some_name = self.env[p].text
                        ts.env[p] = V('optfun_some', arr_of(some_name))
                        vs = ts.tr(st.orelse[0].value)
                        if vn.kind == vs.kind == 'arr':
                            self.env[st.body[0].targets[0].id] = arr_of(
                                f"(match {lname(p)} with | none => {self.mat(vn, st)} | some {some_name} => {self.mat(vs, st)})")
                            continue
                self.fail(st, "if statement")
            if isinstance(st, ast.Return):
                if st.value is None:
                    self.fail(st, "bare return")
                v = self.tr(st.value)
                if v.kind == 'monadic':
                    return self.lines + [v.text]
                return self.lines + [f"pure {self.ret_text(v, want, st)}"]
            if isinstance(st, ast.Raise):
                ex = st.exc
                if isinstance(ex, ast.Call) and isinstance(ex.func, ast.Name) and ex.func.id == 'ValueError':
                    return self.lines + ["Except.error ErrKind.ValueError"]
                self.fail(st, "raise")
            if isinstance(st, ast.Try):
                if len(st.handlers) != 1 or st.orelse or st.finalbody or not isinstance(st.handlers[0].type, ast.Name) or \
                        st.handlers[0].type.id != 'IndexError' or st.handlers[0].name is not None:
                    self.fail(st, "try statement (only `try … except IndexError: …`)")
                body, hand = list(st.body), list(st.handlers[0].body)
                # `try: x = e1  except IndexError: x = e2` followed by more statements: push the rest into both branches
                # (sound when the rest cannot raise IndexError: checked — it must be a single `return <name>`)
                if rest:
                    if not (len(rest) == 1 and isinstance(rest[0], ast.Return) and isinstance(rest[0].value, ast.Name) and
                            len(body) == 1 and len(hand) == 1 and
                            all(isinstance(x, ast.Assign) and len(x.targets) == 1 and isinstance(x.targets[0], ast.Name) and
                                x.targets[0].id == rest[0].value.id for x in (body[0], hand[0]))):
                        self.fail(st, "statements after try (only `return <the name assigned in both branches>`)")
                    body, hand = body + rest, hand + rest
                tb, th = self.sub(), self.sub()
                lb, lh = tb.block(body, want), th.block(hand, want)
                out = self.lines + ["catchIndexError (do"] + ["    " + x for x in lb[:-1]] + ["    " + lb[-1] + ") (do"] + \
                    ["    " + x for x in lh[:-1]] + ["    " + lh[-1] + ")"]
                return out
            self.fail(st, f"statement {type(st).__name__}")
        raise Untranslatable(self.fname, 0, "a path through the function does not return")


def check_params(fn, expected):
    """positional parameter names and defaults (as source text) must be as expected: [(name, default text | None)]"""
    args = fn.args
    if args.vararg or args.kwarg or args.kwonlyargs or args.posonlyargs:
        raise Untranslatable(fn.name, fn.lineno, "parameter kinds")
    names = [a.arg for a in args.args]
    if names != [n for n in expected]:
        raise Untranslatable(fn.name, fn.lineno, f"parameters {names}, expected {list(expected)}")


def param_defaults(fn, src):
    """{parameter: AST of default}"""
    args = fn.args
    n = len(args.args)
    out = {}
    for i, d in enumerate(args.defaults):
        out[args.args[n - len(args.defaults) + i].arg] = d
    return out


def bind_call(tr, e, callee, src):
    """map the arguments of call `e` to the callee's parameters: {param: AST node (argument or default), 'from': 'arg'|'default'}"""
    names = [a.arg for a in callee.args.args]
    dfl = param_defaults(callee, src)
    got = {}
    if len(e.args) > len(names):
        tr.fail(e, "too many arguments")
    for i, a in enumerate(e.args):
        got[names[i]] = ('arg', a)
    for k in e.keywords:
        if k.arg is None or k.arg not in names or k.arg in got:
            tr.fail(e, "keyword argument")
        got[k.arg] = ('arg', k.value)
    for nme in names:
        if nme not in got:
            if nme not in dfl:
                tr.fail(e, f"missing argument {nme}")
            got[nme] = ('default', dfl[nme])
    return got


def flag_value(tr, e, got, flag):
    kind, node = got[flag]
    if isinstance(node, ast.Constant) and isinstance(node.value, bool):
        return node.value
    if kind == 'arg' and isinstance(node, ast.Name) and node.id in tr.flags:
        tr.used_flags.add(node.id)
        return tr.flags[node.id]
    tr.fail(e, f"value of flag {flag} is not static")


def emit_def(doc, name, sig, ret, lines):
    """a function without partial operations is emitted as a plain (total) definition"""
    if lines[-1].startswith('pure ') and not any('←' in x or 'catchIndexError' in x for x in lines):
        body = "\n".join("  " + x for x in lines[:-1] + [strip_outer(lines[-1][5:])])
        return f"/-- {doc} -/\ndef {name} {sig} : {ret} :=\n{body}"
    return do_def(doc, name, sig, f"Except ErrKind ({ret})", lines)


def do_def(doc, name, sig, ret, lines):
    ret = re.sub(r'\((\w+)\)$', r'\1', ret)
    out = [f"/-- {doc} -/", f"def {name} {sig} : {ret} := do"]
    out += ["  " + x for x in lines]
    return "\n".join(out)


PREAMBLE_PARTIAL = """/-- Python `l[0]` (`IndexError` on an empty array) -/
def pyFirst {β : Type} (l : List β) : Except ErrKind β :=
  match l.head? with
  | some x => .ok x
  | none => .error .IndexError

/-- Python `l[-1]` (`IndexError` on an empty array) -/
def pyLast {β : Type} (l : List β) : Except ErrKind β :=
  match l.getLast? with
  | some x => .ok x
  | none => .error .IndexError

/-- `l[idx]` / `np.take(l, idx)` for an index array (`IndexError` when an index is out of range) -/
def pyTake {β : Type} [Inhabited β] (l : List β) (idx : List Nat) : Except ErrKind (List β) :=
  if idx.all (fun i => decide (i < l.length)) then .ok (Np.takeIdx l idx) else .error .IndexError

/-- `try: body  except IndexError: handler` -/
def catchIndexError {β : Type} (body handler : Except ErrKind β) : Except ErrKind β :=
  match body with
  | .error .IndexError => handler
  | r => r
"""

PREAMBLE_MAX = """/-- `np.max(l)` / `max(l)` (`ValueError` on an empty array) -/
def pyMax {β : Type} [LT β] [DecidableLT β] (l : List β) : Except ErrKind β :=
  match Np.maxL? l with
  | some x => .ok x
  | none => .error .ValueError
"""

PREAMBLE_LOOP = """/-- `X = []; for j in range(lo, hi): X.append(l[j])`: the samples `l[lo:hi]`; `IndexError` as soon as some `j` is out of range -/
def pyGetRange {β : Type} (l : List β) (lo hi : Nat) : Except ErrKind (List β) :=
  if hi ≤ l.length ∨ hi ≤ lo then .ok (Np.slice l lo hi) else .error .IndexError

/-- `for i in range(0, n): s = body(s)` (the body does not read `i`) -/
def forRange {σ : Type} (body : σ → Except ErrKind σ) : Nat → σ → Except ErrKind σ
  | 0, s => .ok s
  | n + 1, s => do
    let s' ← body s
    forRange body n s'
"""

# ==============================================================================================
# target 1: durations (+ the two remaining cumulative one-liners of im.py)
# ==============================================================================================

SIG_ATTRS = lambda: {'values': arr_of('a'), 'dt': V('scal', 'dt'), 'npts': V('nat', 'npts'), 'velocity': arr_of('velocity'),
                     't_b01': V('scal', 't_b01')}


def gen_im_dur(repo, ns):
    src = open(os.path.join(repo, 'eqsig', 'im.py')).read()
    mod = ast.parse(src)
    defs = []

    # ---- defaults of start / end (both functions) ------------------------------------------------
    def default_defs(fn, prefix):
        d = param_defaults(fn, src)
        out = []
        for p in ('start', 'end'):
            node = d.get(p)
            if node is None or not isinstance(node, ast.Constant) or isinstance(node.value, bool) or not isinstance(node.value, (int, float)):
                raise Untranslatable(fn.name, fn.lineno, f"default of parameter {p} is not a numeric literal")
            out.append(f"/-- default of parameter `{p}` of `{fn.name}` -/\ndef {prefix}{p.capitalize()}Default : α := {lit_text(ast.get_source_segment(src, node))}")
        for p in ('se',):
            node = d.get(p)
            if node is None or not isinstance(node, ast.Constant) or not isinstance(node.value, bool):
                raise Untranslatable(fn.name, fn.lineno, f"default of parameter {p} is not a Boolean literal")
        return out

    # ---- calc_sig_dur_vals ----------------------------------------------------------------------
    fn = find_function(mod, 'calc_sig_dur_vals')
    check_params(fn, ['motion', 'dt', 'start', 'end', 'se'])
    defs += default_defs(fn, 'sigDurVals')
    env = {'motion': arr_of('motion'), 'dt': V('scal', 'dt'), 'start': V('scal', 'start'), 'end': V('scal', 'end_')}
    for flag, nm, want, ret in ((True, 'sigDurValsSE', 'pair', 'α × α'), (False, 'sigDurValsDur', 'scal', 'α')):
        t = Tr(fn.name, src, mod, env, flags={'se': flag})
        lines = t.block(fn.body, want)
        if t.used_flags != {'se'}:
            raise Untranslatable(fn.name, fn.lineno, "flag `se` is not tested")
        defs.append(do_def(f"`calc_sig_dur_vals(motion, dt, start, end, se={flag})`", nm,
                           "(motion : List α) (dt start end_ : α)", f"Except ErrKind ({ret})", lines))

    # ---- calc_sig_dur ---------------------------------------------------------------------------
    def reg_arias_raw(tr, e):
        callee = find_function(mod, '_raw_calc_arias_intensity')
        check_params(callee, ['acc', 'dt'])
        got = bind_call(tr, e, callee, src)
        acc, dt = tr.tr(got['acc'][1]), tr.tr(got['dt'][1])
        if acc.kind != 'arr' or dt.kind != 'scal':
            tr.fail(e, "arguments of _raw_calc_arias_intensity")
        return arr_of(f"(ImSimple.arias pi {dt.text} {tr.mat(acc, e)})")      # generated by gen_im_simple from the same source

    def reg_arias(tr, e):
        callee = find_function(mod, 'calc_arias_intensity')
        check_params(callee, ['acc_sig'])
        got = bind_call(tr, e, callee, src)
        obj = tr.tr(got['acc_sig'][1])
        if obj.kind != 'obj':
            tr.fail(e, "argument of calc_arias_intensity")
        t2 = Tr(callee.name, src, mod, {'acc_sig': obj}, registry={'_raw_calc_arias_intensity': reg_arias_raw})
        lines = t2.block(callee.body, 'arr')
        if len(lines) != 1 or not lines[0].startswith('pure '):
            tr.fail(e, "calc_arias_intensity is not a single total expression")
        return arr_of(lines[0][5:])

    fn = find_function(mod, 'calc_sig_dur')
    check_params(fn, ['asig', 'start', 'end', 'im', 'se'])
    defs += default_defs(fn, 'sigDur')
    d = param_defaults(fn, src)
    if not (isinstance(d.get('im'), ast.Constant) and d['im'].value is None):
        raise Untranslatable(fn.name, fn.lineno, "default of parameter im is not None")
    env = {'asig': V('obj', SIG_ATTRS()), 'start': V('scal', 'start'), 'end': V('scal', 'end_'), 'im': V('optfun', 'imOfAsig')}
    for flag, nm, want, ret in ((True, 'sigDurSE', 'pair', 'α × α'), (False, 'sigDurDur', 'scal', 'α')):
        t = Tr(fn.name, src, mod, env, flags={'se': flag}, registry={'calc_arias_intensity': reg_arias})
        lines = t.block(fn.body, want)
        if t.used_flags != {'se'}:
            raise Untranslatable(fn.name, fn.lineno, "flag `se` is not tested")
        defs.append(do_def(f"`calc_sig_dur(asig, start, end, im, se={flag})` with `a = asig.values`, `dt = asig.dt`; `im = none` is Python's `None`, "
                           f"`im = some v` a callable with `im(asig) = v`; `pi = np.pi`", nm,
                           "(pi dt : α) (a : List α) (start end_ : α) (im : Option (List α))", f"Except ErrKind ({ret})", lines))

    # ---- calc_significant_duration (deprecated wrapper) -------------------------------------------
    def reg_sig_dur_vals(tr, e):
        callee = find_function(mod, 'calc_sig_dur_vals')
        got = bind_call(tr, e, callee, src)
        se = flag_value(tr, e, got, 'se')
        args = []
        for p, kind in (('motion', 'arr'), ('dt', 'scal'), ('start', 'scal'), ('end', 'scal')):
            how, node = got[p]
            if how == 'default':
                args.append(f"sigDurVals{p.capitalize()}Default")
            else:
                v = tr.tr(node)
                args.append(tr.mat(v, e) if kind == 'arr' else tr.scal(v, e))
        return V('monadic', f"{'sigDurValsSE' if se else 'sigDurValsDur'} " + " ".join(args)), se

    fn = find_function(mod, 'calc_significant_duration')
    check_params(fn, ['motion', 'dt', 'start', 'end'])
    defs += [x.replace('sigDurVals', 'significantDuration') for x in []]
    wrapped = {}

    def reg_wrap(tr, e):
        v, se = reg_sig_dur_vals(tr, e)
        wrapped['se'] = se
        return v
    env = {'motion': arr_of('motion'), 'dt': V('scal', 'dt'), 'start': V('scal', 'start'), 'end': V('scal', 'end_')}
    t = Tr(fn.name, src, mod, env, registry={'calc_sig_dur_vals': reg_wrap})
    lines = t.block(fn.body, 'scal')
    ret = 'α × α' if wrapped.get('se') else 'α'
    defs.append(do_def("`calc_significant_duration(motion, dt, start, end)` (deprecated wrapper; `se` takes the callee's default)",
                       'significantDuration', "(motion : List α) (dt start end_ : α)", f"Except ErrKind ({ret})", lines))

    # ---- calc_brac_dur --------------------------------------------------------------------------
    fn = find_function(mod, 'calc_brac_dur')
    check_params(fn, ['asig', 'threshold', 'se'])
    d = param_defaults(fn, src)
    if not (isinstance(d.get('se'), ast.Constant) and isinstance(d['se'].value, bool)):
        raise Untranslatable(fn.name, fn.lineno, "default of parameter se")
    env = {'asig': V('obj', SIG_ATTRS()), 'threshold': V('scal', 'threshold')}
    for flag, nm, want, ret in ((True, 'bracDurSE', 'optpair', 'Option (α × α)'), (False, 'bracDur', 'scal', 'α')):
        t = Tr(fn.name, src, mod, env, flags={'se': flag})
        lines = t.block(fn.body, want)
        if t.used_flags != {'se'}:
            raise Untranslatable(fn.name, fn.lineno, "flag `se` is not tested")
        defs.append(do_def(f"`calc_brac_dur(asig, threshold, se={flag})` with `a = asig.values`, `dt = asig.dt`, `npts = asig.npts`"
                           + ("; `none` is Python's `(None, None)`" if flag else ""), nm,
                           "(npts : Nat) (dt : α) (a : List α) (threshold : α)", f"Except ErrKind ({ret})", lines))

    # ---- calc_bracketed_duration (deprecated wrapper) ---------------------------------------------
    def reg_brac(tr, e):
        callee = find_function(mod, 'calc_brac_dur')
        got = bind_call(tr, e, callee, src)
        se = flag_value(tr, e, got, 'se')
        wrapped['bse'] = se
        obj = tr.tr(got['asig'][1])
        thr = tr.tr(got['threshold'][1])
        if obj.kind != 'obj':
            tr.fail(e, "argument asig")
        at = obj.text
        return V('monadic', f"{'bracDurSE' if se else 'bracDur'} {at['npts'].text} {at['dt'].text} {tr.mat(at['values'], e)} {tr.scal(thr, e)}")
    fn = find_function(mod, 'calc_bracketed_duration')
    check_params(fn, ['asig', 'threshold'])
    t = Tr(fn.name, src, mod, {'asig': V('obj', SIG_ATTRS()), 'threshold': V('scal', 'threshold')}, registry={'calc_brac_dur': reg_brac})
    lines = t.block(fn.body, 'scal')
    defs.append(do_def("`calc_bracketed_duration(asig, threshold)` (deprecated wrapper; `se` takes the callee's default)", 'bracketedDuration',
                       "(npts : Nat) (dt : α) (a : List α) (threshold : α)",
                       f"Except ErrKind ({'Option (α × α)' if wrapped.get('bse') else 'α'})", lines))

    # ---- calc_acc_rms / calc_a_rms ------------------------------------------------------------------
    fn = find_function(mod, 'calc_acc_rms')
    check_params(fn, ['asig', 'threshold'])
    t = Tr(fn.name, src, mod, {'asig': V('obj', SIG_ATTRS()), 'threshold': V('scal', 'threshold')}, opts={'sqrt': True})
    lines = t.block(fn.body, 'scal')
    defs.append(do_def("`calc_acc_rms(asig, threshold)` with `a = asig.values`, `dt = asig.dt`, `t_b01 = asig.t_b01`; `sqrt = np.sqrt`", 'accRms',
                       "(sqrt : α → α) (dt t_b01 : α) (a : List α) (threshold : α)", "Except ErrKind α", lines))
    fn = find_function(mod, 'calc_a_rms')
    check_params(fn, ['asig', 'threshold'])
    t = Tr(fn.name, src, mod, {'asig': V('obj', SIG_ATTRS()), 'threshold': V('scal', 'threshold')})
    lines = t.block(fn.body, 'scal')
    defs.append(do_def("`calc_a_rms(asig, threshold)` (removed: always raises)", 'aRms',
                       "(dt : α) (a : List α) (threshold : α)", "Except ErrKind α", lines))

    # ---- calc_unit_kinetic_energy, calc_cumulative_abs_displacement -----------------------------------
    fn = find_function(mod, 'calc_unit_kinetic_energy')
    check_params(fn, ['acc_signal'])
    t = Tr(fn.name, src, mod, {'acc_signal': V('obj', SIG_ATTRS())})
    lines = t.block(fn.body, 'arr')
    defs.append(do_def("`calc_unit_kinetic_energy(acc_signal)` with `velocity = acc_signal.velocity`", 'unitKineticEnergy',
                       "(velocity : List α)", "Except ErrKind (List α)", lines))

    def reg_int_abs_vel(tr, e):
        callee = find_function(mod, 'calc_integral_of_abs_velocity')
        check_params(callee, ['asig'])
        got = bind_call(tr, e, callee, src)
        obj = tr.tr(got['asig'][1])
        if obj.kind != 'obj':
            tr.fail(e, "argument asig")
        return arr_of(f"(ImSimple.intAbsVel {obj.text['dt'].text} {tr.mat(obj.text['velocity'], e)})")     # generated by gen_im_simple
    fn = find_function(mod, 'calc_cumulative_abs_displacement')
    check_params(fn, ['asig'])
    t = Tr(fn.name, src, mod, {'asig': V('obj', SIG_ATTRS())}, registry={'calc_integral_of_abs_velocity': reg_int_abs_vel})
    lines = t.block(fn.body, 'arr')
    if len(lines) != 1 or not lines[0].startswith('pure '):
        raise Untranslatable(fn.name, fn.lineno, "not a single total expression")
    defs.append(f"/-- `calc_cumulative_abs_displacement(asig)` with `velocity = asig.velocity` -/\n"
                f"def cumulativeAbsDisplacement (dt : α) (velocity : List α) : List α :=\n  {strip_outer(lines[0][5:])}")

    text = ["-- GENERATED by tools/py2lean_x_im.py from eqsig/im.py (durations, rms, unit kinetic energy). Do not edit.",
            "import EqsigVerif.Prelude.Np", "import EqsigVerif.Prelude.Wire", "import EqsigVerif.Model.Im", f"import EqsigVerif.{ns}.ImSimple", "",
            "set_option linter.unusedVariables false", f"namespace EqsigVerif.{ns}.ImDur", "open EqsigVerif EqsigVerif.Wire", "", PREAMBLE_PARTIAL,
            "variable {α : Type} [Add α] [Sub α] [Mul α] [Div α] [Neg α] [LT α] [DecidableLT α] [NatCast α] [Inhabited α]",
            "  [OfNat α 0] [OfNat α 1] [OfNat α 2] [OfScientific α]", ""] + ["\n\n".join(defs)] + ["", f"end EqsigVerif.{ns}.ImDur", ""]
    return {"ImDur.lean": "\n".join(text)}


# ==============================================================================================
# target 3: power-law cycle counting (scalar exponent `b`)
# ==============================================================================================

SWITCHED = 'eqsig.fns.peaks_and_crossings.get_switched_peak_array_indices'


def gen_im_power(repo, ns):
    src = open(os.path.join(repo, 'eqsig', 'im.py')).read()
    mod = ast.parse(src)
    defs = []

    def reg_switched(tr, e):
        if len(e.args) != 1 or e.keywords:
            tr.fail(e, "arguments of get_switched_peak_array_indices")
        v = tr.tr(e.args[0])
        if v.kind != 'arr':
            tr.fail(e, "argument of get_switched_peak_array_indices")
        return arr_of(f"(switchedPeaks {tr.mat(v, e)})", 'nat')      # the C12 function: a parameter here

    base_opts = {'pow': True, 'column': True, 'axis0': True, 'scalar_params': ('b',)}

    # ---- calc_n_cyc_array_w_power_law --------------------------------------------------------------
    fn = find_function(mod, 'calc_n_cyc_array_w_power_law')
    check_params(fn, ['values', 'a_ref', 'b', 'cut_off'])
    d = param_defaults(fn, src)
    node = d.get('cut_off')
    if set(d) != {'cut_off'} or not isinstance(node, ast.Constant) or isinstance(node.value, bool) or not isinstance(node.value, (int, float)):
        raise Untranslatable(fn.name, fn.lineno, "defaults")
    defs.append(f"/-- default of parameter `cut_off` of `calc_n_cyc_array_w_power_law` -/\ndef nCycCutOffDefault : α := {lit_text(ast.get_source_segment(src, node))}")
    env = {'values': arr_of('values'), 'a_ref': V('scal', 'a_ref'), 'b': V('scal', 'b'), 'cut_off': V('scal', 'cut_off')}
    t = Tr(fn.name, src, mod, env, registry={SWITCHED: reg_switched},
           opts=dict(base_opts, interp1d_previous=True, array_params=('values',)))
    lines = t.block(fn.body, 'arr')
    defs.append(emit_def("`calc_n_cyc_array_w_power_law(values, a_ref, b, cut_off)` for a scalar `b`; `pow x y = x ** y`, `switchedPeaks` = "
                         "`get_switched_peak_array_indices`", 'nCycArray',
                         "(pow : α → α → α) (switchedPeaks : List α → List Nat) (values : List α) (a_ref b cut_off : α)", "List α", lines))

    # ---- calc_cyc_amp_array_w_power_law ------------------------------------------------------------
    fn = find_function(mod, 'calc_cyc_amp_array_w_power_law')
    check_params(fn, ['values', 'n_cyc', 'b'])
    if param_defaults(fn, src):
        raise Untranslatable(fn.name, fn.lineno, "defaults")
    env = {'values': arr_of('values'), 'n_cyc': V('scal', 'n_cyc'), 'b': V('scal', 'b')}
    t = Tr(fn.name, src, mod, env, registry={SWITCHED: reg_switched}, opts=dict(base_opts, array_params=('values',)))
    lines = t.block(fn.body, 'arr')
    amp_monadic = not (len(lines) == 1 and lines[0].startswith('pure '))
    defs.append(emit_def("`calc_cyc_amp_array_w_power_law(values, n_cyc, b)` for a scalar `b`", 'cycAmpArray',
                         "(pow : α → α → α) (switchedPeaks : List α → List Nat) (values : List α) (n_cyc b : α)", "List α", lines))

    # ---- calc_cyc_amp_gm_arrays_w_power_law --------------------------------------------------------
    def reg_amp(tr, e):
        callee = find_function(mod, 'calc_cyc_amp_array_w_power_law')
        got = bind_call(tr, e, callee, src)
        v, n, b = tr.tr(got['values'][1]), tr.tr(got['n_cyc'][1]), tr.tr(got['b'][1])
        if v.kind != 'arr':
            tr.fail(e, "argument values")
        txt = f"cycAmpArray pow switchedPeaks {tr.mat(v, e)} {tr.scal(n, e)} {tr.scal(b, e)}"
        return arr_of(tr.bind(txt)) if amp_monadic else arr_of(f"({txt})")
    fn = find_function(mod, 'calc_cyc_amp_gm_arrays_w_power_law')
    check_params(fn, ['values0', 'values1', 'n_cyc', 'b'])
    env = {'values0': arr_of('values0'), 'values1': arr_of('values1'), 'n_cyc': V('scal', 'n_cyc'), 'b': V('scal', 'b')}
    t = Tr(fn.name, src, mod, env, registry={'calc_cyc_amp_array_w_power_law': reg_amp}, opts={'sqrt': True})
    lines = t.block(fn.body, 'arr')
    defs.append(emit_def("`calc_cyc_amp_gm_arrays_w_power_law(values0, values1, n_cyc, b)` for a scalar `b`; `sqrt = np.sqrt`", 'cycAmpGmArrays',
                         "(pow : α → α → α) (sqrt : α → α) (switchedPeaks : List α → List Nat) (values0 values1 : List α) (n_cyc b : α)",
                         "List α", lines))

    # ---- calc_cyc_amp_combined_arrays_w_power_law --------------------------------------------------
    fn = find_function(mod, 'calc_cyc_amp_combined_arrays_w_power_law')
    check_params(fn, ['values0', 'values1', 'n_cyc', 'b'])
    t = Tr(fn.name, src, mod, env, registry={SWITCHED: reg_switched}, opts={'pow': True})
    lines = t.block(fn.body, 'arr')
    defs.append(emit_def("`calc_cyc_amp_combined_arrays_w_power_law(values0, values1, n_cyc, b)`", 'cycAmpCombinedArrays',
                         "(pow : α → α → α) (switchedPeaks : List α → List Nat) (values0 values1 : List α) (n_cyc b : α)", "List α", lines))

    text = ["-- GENERATED by tools/py2lean_x_im.py from eqsig/im.py (power-law cycle counting, scalar exponent). Do not edit.",
            "import EqsigVerif.Prelude.Np", "import EqsigVerif.Prelude.Wire", "import EqsigVerif.Model.PowerLaw", "",
            "set_option linter.unusedVariables false", f"namespace EqsigVerif.{ns}.ImPower", "open EqsigVerif EqsigVerif.Wire", "",
            PREAMBLE_PARTIAL, PREAMBLE_MAX,
            "variable {α : Type} [Add α] [Sub α] [Mul α] [Div α] [Neg α] [LT α] [DecidableLT α] [Inhabited α]",
            "  [OfNat α 0] [OfNat α 1] [OfNat α 2] [OfScientific α]", "",
            "/-- `scipy.interpolate.interp1d(xs, ys, kind='previous')(q)` on integer knots: the value at the last knot `≤ q`",
            "(hand model `Model.PowerLaw.prevKnot`, scanning the knots in order) -/",
            "def interp1dPrevious (xs : List Nat) (ys : List α) (q : Nat) : α := Model.PowerLaw.prevKnot q 0 (xs.zip ys)", ""] + \
        ["\n\n".join(defs)] + ["", f"end EqsigVerif.{ns}.ImPower", ""]
    return {"ImPower.lean": "\n".join(text)}


# ==============================================================================================
# target 2: calc_cav_dp (loop structure; the literals 9.81 / 0.025 are parameters `g` / `gate`, extracted in Gen/Consts.lean)
# ==============================================================================================

def names_in(nodes):
    return {n.id for st in nodes for n in ast.walk(st) if isinstance(n, ast.Name)}


def gen_im_cavdp(repo, ns):
    src = open(os.path.join(repo, 'eqsig', 'im.py')).read()
    mod = ast.parse(src)
    fn = find_function(mod, 'calc_cav_dp')
    check_params(fn, ['asig'])
    # the two literals gen_consts extracts (same recognisers): acc_in_g = asig.values / <g>, (pga - <gate>)
    subst, gates = {}, set()
    for n in ast.walk(fn):
        if isinstance(n, ast.Assign) and isinstance(n.targets[0], ast.Name) and n.targets[0].id == 'acc_in_g' and \
                isinstance(n.value, ast.BinOp) and isinstance(n.value.op, ast.Div) and isinstance(n.value.right, ast.Constant):
            subst[id(n.value.right)] = 'g'
        if isinstance(n, ast.Compare) and isinstance(n.left, ast.BinOp) and isinstance(n.left.op, ast.Sub) and \
                isinstance(n.left.left, ast.Name) and n.left.left.id == 'pga' and isinstance(n.left.right, ast.Constant):
            subst[id(n.left.right)] = 'gate'
            gates.add(lit_text(ast.get_source_segment(src, n.left.right)))
    if 'g' not in subst.values() or len(gates) != 1:
        raise Untranslatable(fn.name, fn.lineno, "acc_in_g = values / <literal> or a single (pga - <literal>) literal not found")
    attrs = {'values': arr_of('a'), 'dt': V('scal', 'dt'), 'time': arr_of('time')}
    opts = {'loops': True, 'le': True, 'lit_subst': subst}
    body = [st for st in fn.body if not (isinstance(st, ast.Expr) and isinstance(st.value, ast.Constant))]
    loops = [i for i, st in enumerate(body) if isinstance(st, ast.For)]
    if len(loops) != 1:
        raise Untranslatable(fn.name, fn.lineno, "expected exactly one top-level for loop")
    pre, loop, post = body[:loops[0]], body[loops[0]], body[loops[0] + 1:]
    # ---- prologue: straight-line assignments
    t = Tr(fn.name, src, mod, {'asig': V('obj', attrs)}, opts=opts)
    order = []
    for st in pre:
        if isinstance(st, ast.ImportFrom) and st.module == 'scipy.integrate':
            continue
        if not (isinstance(st, ast.Assign) and len(st.targets) == 1 and isinstance(st.targets[0], ast.Name)):
            t.fail(st, "statement before the loop")
        t.env[st.targets[0].id] = t.tr(st.value)
        order.append(st.targets[0].id)
    # ---- the loop header
    if loop.orelse or not isinstance(loop.target, ast.Name) or not isinstance(loop.iter, ast.Call) or t.np_name(loop.iter.func) != 'range' \
            or loop.iter.keywords or len(loop.iter.args) not in (1, 2):
        t.fail(loop, "loop header")
    if len(loop.iter.args) == 2 and t.index_const(loop.iter.args[0]) != 0:
        t.fail(loop, "loop does not start at 0")
    count = t.tr(loop.iter.args[-1])
    if count.kind != 'nat':
        t.fail(loop, "loop count")
    if loop.target.id in names_in(loop.body):
        t.fail(loop, "the loop variable is used in the body")
    # ---- state = names defined before the loop and assigned (or appended to) in the body, in order of first definition
    assigned = set()
    for st in ast.walk(ast.Module(body=loop.body, type_ignores=[])):
        if isinstance(st, ast.Assign):
            assigned |= {x.id for x in st.targets if isinstance(x, ast.Name)}
        if isinstance(st, ast.Call) and isinstance(st.func, ast.Attribute) and st.func.attr == 'append' and isinstance(st.func.value, ast.Name):
            assigned.add(st.func.value.id)
    state = [x for x in order if x in assigned]
    kinds = {x: t.env[x].kind for x in state}
    if not state or any(k not in ('int', 'arr') for k in kinds.values()):
        t.fail(loop, f"loop state {state}")
    # kinds of the state components: integer-initialised names are Nat when only combined with Nat in the body (start), else α
    tb = t.sub()
    tb.lines = []
    proj = ['st.1'] if len(state) == 1 else [('st' + '.2' * i + '.1') for i in range(len(state) - 1)] + ['st' + '.2' * (len(state) - 1)]
    init = []
    styp = []
    nat_state = set(opts.get('nat_state', ('start',)))
    for x, pj in zip(state, proj):
        v0 = t.env[x]
        if v0.kind == 'arr':
            if not getattr(v0, 'empty', False):
                t.fail(loop, f"initial value of {x}")
            tb.env[x] = arr_of(pj)
            init.append('[]')
            styp.append('List α')
        elif x in nat_state:
            tb.env[x] = V('nat', pj)
            init.append(v0.text)
            styp.append('Nat')
        else:
            tb.env[x] = V('scal', pj)
            init.append(f"({v0.text} : α)")
            styp.append('α')
    tb.loop_body(loop.body)
    outs = []
    for x, ty in zip(state, styp):
        v = tb.env[x]
        if ty == 'Nat':
            outs.append(strip_outer(tb.nat(v, loop)))
        elif ty == 'α':
            outs.append(strip_outer(tb.scal(v, loop)))
        else:
            outs.append(strip_outer(tb.mat(v, loop)))
    sty = " × ".join(styp)
    fparams = "(int : α → Nat) (arange3 : α → α → α → List α) (trapezoid : List α → List α → α)"
    step = do_def(f"body of `for {loop.target.id} in range(0, total_seconds)` of `calc_cav_dp`: state `({', '.join(state)})` ↦ new state; "
                  f"`a = asig.values`, `dt = asig.dt`, `g`/`gate` = the literals `Consts.cavdpG`/`Consts.cavdpGate`", 'cavDpStep',
                  f"{fparams} (dt g gate : α) (a : List α) (st : {sty})", f"Except ErrKind ({sty})",
                  tb.lines + [f"pure ({', '.join(outs)})"])
    # ---- after the loop
    t.counter = tb.counter
    fin = t.bind(f"forRange (cavDpStep int arange3 trapezoid dt g gate a) {count.text} ({', '.join(init)})")
    for x, pj in zip(state, proj):
        ty = styp[state.index(x)]
        pjf = pj.replace('st', fin, 1)
        t.env[x] = arr_of(pjf) if ty == 'List α' else V('nat' if ty == 'Nat' else 'scal', pjf)
    lines = t.block(post, 'arr')
    main = do_def("`calc_cav_dp(asig)` with `a = asig.values`, `dt = asig.dt`, `time = asig.time`; `int`, `arange3 = np.arange(start, stop, step)`, "
                  "`trapezoid = scipy.integrate.trapezoid(y, x)`, `interp = np.interp(x, xp, fp)` are parameters", 'cavDp',
                  f"{fparams} (interp : List α → List Nat → List α → Except ErrKind (List α)) (dt g gate : α) (a time : List α)",
                  "Except ErrKind (List α)", lines)
    text = ["-- GENERATED by tools/py2lean_x_im.py from eqsig/im.py (calc_cav_dp: loop structure). Do not edit.",
            "import EqsigVerif.Prelude.Np", "import EqsigVerif.Prelude.Wire", "",
            "set_option linter.unusedVariables false", f"namespace EqsigVerif.{ns}.ImCavDp", "open EqsigVerif EqsigVerif.Wire", "",
            PREAMBLE_PARTIAL, PREAMBLE_MAX, PREAMBLE_LOOP,
            "variable {α : Type} [Add α] [Sub α] [Mul α] [Div α] [Neg α] [LT α] [DecidableLT α] [LE α] [DecidableLE α] [NatCast α] [Inhabited α]",
            "  [OfNat α 0] [OfNat α 1] [OfNat α 2] [OfScientific α]", "", step, "", main, "", f"end EqsigVerif.{ns}.ImCavDp", ""]
    return {"ImCavDp.lean": "\n".join(text)}


TARGETS += [gen_im_dur, gen_im_cavdp, gen_im_power]

if __name__ == '__main__':
    import argparse
    ap = argparse.ArgumentParser()
    ap.add_argument('--repo', default='/repo')
    ap.add_argument('--ns', default='Gen')
    a = ap.parse_args()
    for g in TARGETS:
        for k, v in g(a.repo, a.ns).items():
            print(f"===== {k}")
            print(v)
