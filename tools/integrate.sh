#!/bin/bash
# copy an agent's delivered Lean files into the lake project (maintenance helper, not used by any check)
set -e
a="$1"
src="/verif/incoming/$a/EqsigVerif"
[ -d "$src" ] || { echo "no delivery from $a"; exit 1; }
rsync -a --itemize-changes "$src/" /verif/lean/EqsigVerif/ | grep -v '^\.' || true
