#!/bin/bash
# (maintenance) tools/try_seed_new.sh <PROP> <dir with patchK.diff demoK.py metaK.json> <K> [extra props…]   -- never touches /repo
# 1. confirms in a scratch copy that the change passes the suite, that the demo fails with it and passes on /repo as it is;
# 2. runs ./check for the property (and extra ones) with EQSIG_REPO=<scratch copy>.
PROP=$1; DIR=$2; K=$3; shift 3
S=/tmp/sn_$$; mkdir -p $S && cp -r /repo/eqsig /repo/tests $S/ && cp /repo/setup.py /repo/setup.cfg $S/ 2>/dev/null
if ! (cd $S && patch -p1 -s < $DIR/patch$K.diff); then echo "SEED $PROP/$K: patch does not apply"; rm -rf $S; exit 2; fi
ok=1
T=$(cd $S && PYTHONPATH=$S /venv/bin/python -m pytest -q -p no:cacheprovider 2>&1 | tail -1)
echo "  suite with patch: $T"
case "$T" in *"63 passed"*) ;; *) ok=0;; esac
(cd $S && PYTHONPATH=$S /venv/bin/python $DIR/demo$K.py >/dev/null 2>&1); D1=$?
(cd /repo && PYTHONPATH=/repo /venv/bin/python $DIR/demo$K.py >/dev/null 2>&1); D0=$?
echo "  demo exit with patch: $D1   without: $D0"
[ $D1 -ne 0 ] && [ $D0 -eq 0 ] || ok=0
if [ $ok -ne 1 ]; then echo "SEED $PROP/$K: NOT CONFIRMED"; rm -rf $S; exit 3; fi
cd /verif
for P in $PROP "$@"; do
  OUT=$(EQSIG_REPO=$S ./check $P 2>&1 | grep -v "^KNOWN-FINDING" | tail -2)
  echo "  check $P: $(echo "$OUT" | tr '\n' ' ' | cut -c1-400)"
done
rm -rf $S
